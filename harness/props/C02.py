"""C02: a record is accepted only if it is exactly what the peer sent next.

Proof: coq/Props/C02.v on the model of C01 (protect/unprotect) + Model/C02_RecordAccept.v.
Tie (every run): (a) toy-exact, the real RecordLayer.recvRecord against `unprotect` (vm_compute)
on single-bit flips, every truncation/extension, replay/reorder/drop/reflect/cross-epoch over
4-record sequences, alternative legal CBC paddings / header versions, TLS 1.3 inner-plaintext
forgeries made with the keys; the real error path (_getNextRecordFromSocket/_sendError/
_shutdown) against `recv_step`, alert record bytes included; (b) real primitives:
TLSConnection.read() behind an on-path attacker for every suite class x version x EtM.
The direct oracle -- "accepted something that is not the next record the peer sent" /
"rejected without fatal alert, close and session invalidation" -- needs no Coq."""
import multiprocessing
import random

import vlib
from vlib import zlit
import c01_util as U
from c01_util import blit
import c01_sites
import c02_live2

LEVEL = 'proof'
META = {
    'text': 'Coq theorems (Props/C02.v): whatever recvRecord accepts is a protection, by a sender in step with the receiver '
            '(same key, cipher state, next sequence number), of the (type, payload) it yields, for some legal padding / IV / '
            'nonce / header version (all six paths; <-> for stream); the MAC input binds seq, type, payload; TLS1.3 outer '
            'checks and de-padding; every TLS-level rejection sends the fatal alert of its class, adds nothing to the read '
            'buffer, closes and invalidates the session; under the ideal (collision-free) MAC/AEAD a record protected for '
            'another position or under another key is rejected.  Tied to /repo by byte-exact comparison of the real '
            'recvRecord / read() error path with the model on mutated records, and by an on-path attacker on live connections.',
    'note': 'Trusted: as C01, plus Spec/C02_Ideal.v (aead_tight: functional; *_ideal: symbolic no-collision idealisation, '
            'unsatisfiable for fixed-length tags, satisfiable only by transparent primitives -- stated in the theorem names). '
            'For MAC-then-encrypt with a stateful cipher, rejection of a record replayed at another position is '
            'unforgeability and is NOT a theorem (only correspondence + direct oracle).',
    'technique': 'Rocq/Coq proof over hand-written model + byte-exact toy correspondence (vm_compute) + live attacker oracle',
}
TLS_ERR = ('TLSBadRecordMAC', 'TLSDecryptionFailed', 'TLSRecordOverflow', 'TLSUnexpectedMessage',
           'TLSIllegalParameterException')
ALERT_OF = {1: 20, 2: 21, 3: 22, 4: 10, 5: 47}     # model's alert_of, by error code (written from the RFC names)


def rand_bytes(rng, n):
    return bytes(rng.getrandbits(8) for _ in range(n))


# ==========================================================================================
# (a) record level, toy-exact
def toy_combos():
    out = []
    for ver in [(3, 0), (3, 1), (3, 2), (3, 3)]:
        out.append(('null', ver, dict(mds=20)))
        out.append(('stream', ver, dict(mds=16)))
        out.append(('cbc', ver, dict(bs=16, mds=20)))
        out.append(('cbc', ver, dict(bs=8, mds=32, mbs=64)))
        if ver > (3, 0):
            out.append(('etm', ver, dict(bs=16, mds=20)))
    out.append(('etm', (3, 3), dict(bs=8, mds=48, mbs=128)))
    out.append(('cbc', (3, 3), dict(bs=16, mds=48, mbs=128)))
    out.append(('cbc', (3, 1), dict(bs=16, mds=32, mbs=64)))
    out.append(('aead-aes', (3, 3), dict(tag=16)))
    out.append(('aead-aes', (3, 3), dict(tag=8)))
    out.append(('aead-chacha', (3, 3), dict(tag=16)))
    out.append(('aead-chacha-draft', (3, 3), dict(tag=16)))
    out.append(('tls13', (3, 4), dict(tag=16, t13name='aes128gcm')))
    out.append(('tls13', (3, 4), dict(tag=16, t13name='chacha20-poly1305', pad=('blk', 16))))
    out.append(('tls13', (3, 4), dict(tag=16, t13name='aes128gcm', plain_alert=False)))
    return out


def mk_cfg(rng, mode, ver, kw, seq=None):
    c = U.default_cfg(mode, ver, seq=rng.choice([0, 1, 7, 255, 2 ** 32 - 2]) if seq is None else seq,
                      enc_key=rand_bytes(rng, 16), mac_key=rand_bytes(rng, 20), iv=rand_bytes(rng, 16),
                      fixed_iv=rand_bytes(rng, 16), **kw)
    if mode in ('aead-chacha', 'tls13'):
        c['fixed_nonce'] = rand_bytes(rng, 12)
    elif mode.startswith('aead'):
        c['fixed_nonce'] = rand_bytes(rng, 4)
    return c


def mutations(rng, wire, quick):
    """(class, mutated wire bytes) for one honest wire record (header length kept consistent)."""
    out = []
    n = len(wire)
    nbits = n * 8
    bits = set(range(0, 24))                       # type and version bytes: always all bits
    bits |= set(range(40, nbits, 11 if quick else 1))
    bits |= set(range(max(40, nbits - 24), nbits))
    for b in sorted(bits):
        m = bytearray(wire)
        m[b // 8] ^= 1 << (b % 8)
        cls = 'flip-type' if b < 8 else 'flip-version' if b < 24 else 'flip-body'
        out.append((cls, bytes(m)))
    body = wire[5:]
    lens = range(0, len(body), 4 if quick else 1)
    for k in lens:                                  # truncation (header length fixed up)
        out.append(('truncate', wire[:3] + bytes([k >> 8, k & 255]) + body[:k]))
        out.append(('truncate-front', wire[:3] + bytes([k >> 8, k & 255]) + body[len(body) - k:]))
    for k in ([1, 16] if quick else [1, 2, 7, 8, 15, 16, 17, 32, 64]):
        ext = body + rand_bytes(rng, k)
        out.append(('extend', wire[:3] + bytes([len(ext) >> 8, len(ext) & 255]) + ext))
        ext = rand_bytes(rng, k) + body
        out.append(('extend-front', wire[:3] + bytes([len(ext) >> 8, len(ext) & 255]) + ext))
    for b in range(24, 40):                         # length field alone (record framing changes): body cut/filled
        k = ((wire[3] << 8) | wire[4]) ^ (1 << (39 - b))
        if k <= 20000:
            nb = (body + bytes(k))[:k]
            out.append(('flip-length', wire[:3] + bytes([k >> 8, k & 255]) + nb))
    return out


def oracle_record(ctx, c, cls, honest_rec, res, replay_info):
    """Direct oracle on the real recvRecord outcome for an attacker without the keys.
    res = (code, ty, payload, excname)."""
    code, ty, pl, exc = res
    if code == 0:
        if (ty, pl) != honest_rec:
            ctx.violation('accepted-not-next:%s:%s:%s' % (c['mode'], c['ver'], cls),
                          'recvRecord accepted a %s record yielding (%d, %d bytes) which is not the next record the peer '
                          'sent (%d, %d bytes)' % (cls, ty, len(pl), honest_rec[0], len(honest_rec[1])), replay_info)
            return True
    elif exc == 'RuntimeError':
        pass           # SSLv2-style framing: the record layer waits for more bytes; nothing is accepted
    elif exc not in TLS_ERR:
        ctx.violation('rejected-without-tls-error:%s:%s:%s:%s' % (c['mode'], c['ver'], cls, exc),
                      'recvRecord raised %s (not a TLS error mapped to a fatal alert) on a %s record' % (exc, cls), replay_info)
        return True
    return False


def impl_recv_exc(c, snap, wire_bytes_):
    """Real recvRecord on raw record bytes; returns (code, ty, payload, exception name)."""
    seq, cs = snap
    rl, sock, st = U.make_rl(c, 'recv', seq, (cs if cs else None))
    sock.inp = bytearray(wire_bytes_)
    try:
        r = None
        for r in rl.recvRecord():
            if isinstance(r, tuple):
                break
        hdr, parser = r
        return (0, hdr.type, bytes(parser.bytes), None), rl._readState.seqnum, U.cs_of(rl._readState)
    except Exception as e:  # noqa
        name = type(e).__name__
        return (U.ERR.get(name, 99), -1, b'', name), rl._readState.seqnum, U.cs_of(rl._readState)


def tls13_forgeries(rng, c, snap):
    """Inner plaintexts built by a peer that has the keys (RFC 8446 5.2/5.4), sealed correctly."""
    from c01_toys import ToyAEAD
    seq, _ = snap
    aead = ToyAEAD(c['enc_key'], c['tag'], U.aead_name(c), c['nonce_len'])
    iv = c['fixed_nonce']
    nonce = bytes(a ^ b for a, b in zip(bytes(len(iv) - 8) + seq.to_bytes(8, 'big'), iv))
    lim = c['recv_limit']
    out = []

    def seal(inner, hty=23, hver=(3, 3)):
        n = len(inner) + c['tag']
        aad = bytes([hty, hver[0], hver[1], n >> 8, n & 255])
        body = bytes(aead.seal(nonce, bytearray(inner), aad))
        return bytes([hty, hver[0], hver[1], n >> 8, n & 255]) + body
    content = rand_bytes(rng, 9)
    for ty in (0, 1, 20, 21, 22, 23, 24, 25, 255):
        for k in (0, 1, 40):
            inner = content + bytes([ty]) + bytes(k)
            want = None if ty == 0 and False else (ty, content)
            if ty == 0:      # the last non-zero byte is then inside `content` (or nothing at all)
                stripped = inner.rstrip(b'\x00')
                want = (stripped[-1], stripped[:-1]) if stripped else 'unexpected'
            if isinstance(want, tuple) and want[0] == 20:
                want = 'unexpected'          # RFC 8446 section 5: a protected change_cipher_spec must be refused
            out.append(('inner-type-%d-pad-%d' % (ty, k), seal(inner), want))
    for k in (0, 1, 17, 300):
        out.append(('all-zero-%d' % k, seal(bytes(k)), 'unexpected'))
    out.append(('empty-content', seal(bytes([23])), (23, b'')))
    out.append(('inner-at-limit+1', seal(bytes(lim) + bytes([23])), (23, bytes(lim))))
    out.append(('inner-over-limit', seal(bytes(lim) + bytes([23, 0])), 'overflow'))
    out.append(('content-over-limit', seal(bytes(lim + 1) + bytes([23])), 'overflow'))
    for hty in (20, 21, 22, 24):
        w = seal(content + bytes([23]), hty=hty)
        # outer ChangeCipherSpec is never decrypted: recvRecord hands it up as it is (dropped or refused by _getMsg)
        out.append(('outer-type-%d' % hty, w, (20, w[5:]) if hty == 20 else 'outer'))
    for hver in ((3, 1), (3, 4), (3, 2), (2, 3)):
        out.append(('outer-version-%d.%d' % hver, seal(content + bytes([23]), hver=hver), 'illegal'))
    # unencrypted alert: only in the window before the handshake is done and before any protected record
    alert = bytes([21, 3, 3, 0, 2, 1, 0])
    window = c.get('plain_alert', True) and seq == 0
    # outside the window the 2 bytes are taken for an AEAD record: shorter than the tag -> bad_record_mac
    out.append(('plaintext-alert-%s-seq%d' % (c.get('plain_alert', True), min(seq, 1)), alert, (21, alert[5:]) if window else 'badmac'))
    out.append(('plaintext-alert-3-bytes', bytes([21, 3, 3, 0, 3, 1, 0, 0]), 'badmac'))
    return out


def alt_paddings(rng, c, snap, rec):
    """Other legal CBC paddings for the same record (MtE and EtM), built with the keys."""
    from c01_toys import ToyMac, ToyCBC
    seq, cs = snap
    ty, data = rec
    ver, bs = tuple(c['ver']), c['bs']
    hdr = seq.to_bytes(8, 'big') + bytes([ty]) + (b'' if ver == (3, 0) else bytes(ver))
    out = []
    for extra in (1, 2, 5, 15):
        ivb = rand_bytes(rng, bs) if ver >= (3, 2) else b''
        if c['mode'] == 'cbc':
            mac = ToyMac(c['mac_key'], c['mds'], c['mbs'])
            mac.update(hdr + bytes([len(data) >> 8, len(data) & 255]) + data)
            inner = data + mac.digest()
        else:
            inner = data
        p = (bs - 1 - (len(inner) % bs)) + extra * bs
        legal = p <= 255 and (ver != (3, 0) or p <= bs or c['mode'] == 'etm')
        padb = (rand_bytes(rng, p) if ver == (3, 0) else bytes([p]) * p) + bytes([p])
        if p > 255:
            continue
        ct = bytes(ToyCBC(c['enc_key'], bytes(cs)).encrypt(ivb + inner + padb))
        if c['mode'] == 'etm':
            mac = ToyMac(c['mac_key'], c['mds'], c['mbs'])
            mac.update(hdr + bytes([len(ct) >> 8, len(ct) & 255]) + ct)
            ct += mac.digest()
        w = bytes([ty, ver[0], ver[1], len(ct) >> 8, len(ct) & 255]) + ct
        out.append(('alt-padding+%d' % extra, w, (ty, data) if legal else 'badmac'))
    return out


def cbc_record(rng, c, snap, rec, p):
    """The MtE CBC record a conforming peer produces for `rec` with padding length byte p."""
    from c01_toys import ToyMac, ToyCBC
    seq, cs = snap
    ty, data = rec
    ver, bs = tuple(c['ver']), c['bs']
    hdr = seq.to_bytes(8, 'big') + bytes([ty]) + (b'' if ver == (3, 0) else bytes(ver))
    ivb = rand_bytes(rng, bs) if ver >= (3, 2) else b''
    mac = ToyMac(c['mac_key'], c['mds'], c['mbs'])
    mac.update(hdr + bytes([len(data) >> 8, len(data) & 255]) + data)
    inner = data + mac.digest()
    assert (len(inner) + p + 1) % bs == 0
    padb = (rand_bytes(rng, p) if ver == (3, 0) else bytes([p]) * p) + bytes([p])
    ct = bytes(ToyCBC(c['enc_key'], bytes(cs)).encrypt(ivb + inner + padb))
    return bytes([ty, ver[0], ver[1], len(ct) >> 8, len(ct) & 255]) + ct, len(ivb)


def long_padding_samples(rng, c, snap, quick):
    """Records padded to the maximum legal length and one block less, payload lengths swept so that the
    decrypted length takes every residue modulo the hash block size; with targeted tamperings."""
    bs, ds, mbs = c['bs'], c['mds'], c['mbs']
    out = []
    # multiples of the cipher block over one hash block give every residue of the decrypted length;
    # the unaligned payloads change the padding length instead
    Ls = sorted(set(list(range(0, mbs + bs, bs)) + list(range(3, 2 * mbs, 37 if quick else 1))))
    for L in Ls:
        data = rand_bytes(rng, L)
        pmax = 255 - ((L + ds + 255 + 1) % bs)
        for p in (pmax, pmax - bs):
            w, ivl = cbc_record(rng, c, snap, (23, data), p)
            n = len(w)
            o = 5 + ivl                       # first byte of the (encrypted) data || mac || padding
            muts = [('longpad-honest', w)]
            sites = (('data-first', o), ('data-last', o + max(L - 1, 0)), ('mac-mid', o + L + ds // 2),
                     ('pad-first', o + L + ds), ('last-block', n - 1))
            for cls, pos in (sites[:3] if quick else sites):
                if pos < n:
                    m = bytearray(w)
                    m[pos] ^= 1 << rng.randrange(8)
                    muts.append(('longpad-flip-' + cls, bytes(m)))
            body = w[5:]
            k = len(body) - bs
            muts.append(('longpad-truncate-block', w[:3] + bytes([k >> 8, k & 255]) + body[:k]))
            if not quick:
                muts.append(('longpad-drop-first-block', w[:3] + bytes([k >> 8, k & 255]) + body[bs:]))
            out.append(((23, data), p, muts))
    return out


WANT_EXC = {'unexpected': 'TLSUnexpectedMessage', 'overflow': 'TLSRecordOverflow', 'outer': 'TLSUnexpectedMessage',
            'illegal': 'TLSIllegalParameterException', 'badmac': 'TLSBadRecordMAC'}


def forgery_ok(r, want):
    if isinstance(want, tuple):
        return r[0] == 0 and (r[1], r[2]) == want
    return r[3] == WANT_EXC[want]


def early_impl(c, snap, wires, max_early, window_open):
    """Real recvRecord over a stream of records with the early-data tolerance set as given.
    Returns (list of (type, payload), error code or 0, final seqnum)."""
    seq, cs = snap
    rl, sock, st = U.make_rl(c, 'recv', seq, (cs if cs else None))
    rl.max_early_data = max_early
    rl.early_data_ok = window_open
    sock.inp = bytearray(b''.join(wires))
    out, code = [], 0
    while sock.inp:
        try:
            r = None
            for r in rl.recvRecord():
                if isinstance(r, tuple):
                    break
            hdr, parser = r
            out.append((hdr.type, bytes(parser.bytes)))
        except RuntimeError:
            break                       # the rest of the input was skipped: recvRecord waits for more
        except Exception as e:  # noqa
            code = U.ERR.get(type(e).__name__, 99)
            break
    return out, code, rl._readState.seqnum


def early_expected(labelled, max_early, window_open):
    """From the property: undecryptable records are tolerated only until the first record that is processed,
    and only while their total length stays below max_early_data."""
    out, used = [], 0
    for good, rec, body_len in labelled:
        if good:
            out.append(rec)
            window_open = False
            used = 0
        elif window_open and used + body_len < max_early:
            used += body_len
        else:
            return out, True
    return out, False


EARLY_PREAMBLE = U.PREAMBLE + '''
From TV Require Import Model.C02_RecordAccept.
Definition EarlyCase := (Cfg * Prim TCS * St TCS * Z * bool * list Wire * list (Z * list Z) * Z * Z)%type.
Definition chk_early (k : EarlyCase) : bool :=
  let '(c, P, s, maxe, ok, ws, exp, code, fseq) := k in
  let '(xs, e, r) := recv_stream_e c P maxe {| es_st := s; es_ok := ok; es_used := 0 |} ws in
  (zlen xs =? zlen exp) && forallb (fun p => (fst (fst p) =? fst (snd p)) && list_eqb (snd (fst p)) (snd (snd p))) (combine xs exp)
  && (match e with None => code =? 0 | Some err => rerr_code err =? code end)
  && (negb (code =? 0) || (st_seq (es_st r) =? fseq)).     (* after a fatal error the read state is dead: not compared *)
'''


def error_path_impl(c, wire_bytes_, seq_w=3):
    """Real TLSRecordLayer.read() on one bad record with toy contexts for both directions.
    Returns (exception name, alert description, bytes sent, closed, resumable, readBuffer)."""
    from tlslite.tlsrecordlayer import TLSRecordLayer
    from tlslite.session import Session
    from tlslite.errors import TLSLocalAlert
    import errno
    import socket

    class BSock(U.SinkSock):
        def recv(self, n):
            if not self.inp:
                raise socket.error(errno.EWOULDBLOCK, 'empty')
            r = bytes(self.inp[:n])
            del self.inp[:n]
            return r

        def close(self):
            pass
    sock = BSock()
    conn = TLSRecordLayer(sock)
    rl = conn._recordLayer
    rl.version = tuple(c['ver'])
    if tuple(c['ver']) > (3, 3):
        rl.tls13record = True
    rl._readState = U.make_state(c)
    cw = dict(c, enc_key=bytes(reversed(c['enc_key'])), mac_key=bytes(reversed(c['mac_key'])), seq=seq_w, pad=None)
    rl._writeState = U.make_state(cw)
    rl.fixedIVBlock = bytearray(c['fixed_iv'])
    rl.recv_record_limit = c['recv_limit']
    conn.session = Session()
    conn.session.resumable = True
    conn.closed = False
    sock.inp = bytearray(wire_bytes_)
    exc, desc, out = None, None, None
    try:
        for r in conn.readAsync(100, 1):
            if r in (0, 1) and not isinstance(r, (bytes, bytearray)):
                exc = 'block'
                break
            out = bytes(r)
    except TLSLocalAlert as e:
        exc, desc = 'TLSLocalAlert', int(e.description)
    except Exception as e:  # noqa
        exc = type(e).__name__
    return exc, desc, bytes(sock.out), conn.closed, conn.session.resumable, bytes(conn._readBuffer), out, cw


EFFECT_PREAMBLE = U.PREAMBLE + '''
From TV Require Import Model.C02_RecordAccept.
(* error path: (read cfg, read prim, read state, write cfg, write prim, write state, wire,
   expected: alert description or -1 (no alert), bytes sent, closed, resumable, delivered bytes) *)
Definition EffCase := (Cfg * Prim TCS * St TCS * Cfg * Prim TCS * St TCS * Wire * Z * list Z * bool * bool * list Z)%type.
Definition chk_eff (k : EffCase) : bool :=
  let '(cr, Pr, sr, cw, Pw, sw, w, desc, sent, closed, resum, rbuf) := k in
  let e := {| e_rd := sr; e_wr := sw; e_rbuf := []; e_closed := false; e_resumable := true; e_sent := [] |} in
  let '(e1, o) := recv_step cr cw Pr Pw e w in
  (match o with
   | OLocalAlert d => d =? desc
   | ODelivered _ => desc =? (-2)
   | OOther _ => desc =? (-3)
   | OCrash => desc =? (-1)
   end) &&
  list_eqb (List.concat (List.map wire_bytes (e_sent e1))) sent && Bool.eqb (e_closed e1) closed &&
  Bool.eqb (e_resumable e1) resum && list_eqb (e_rbuf e1) rbuf.
'''


# ==========================================================================================
# (b) live connections behind an on-path attacker
LIVE_COMBOS = [
    ((3, 0), 'aes128', 'sha', False), ((3, 0), 'rc4', 'md5', False), ((3, 0), '3des', 'sha', False),
    ((3, 1), 'aes128', 'sha', False), ((3, 1), 'aes256', 'sha', True), ((3, 1), 'rc4', 'sha', False),
    ((3, 2), 'aes128', 'sha', False), ((3, 2), '3des', 'sha', True), ((3, 2), 'null', 'sha', False),
    ((3, 3), 'aes128', 'sha256', False), ((3, 3), 'aes128', 'sha256', True), ((3, 3), 'aes256', 'sha', True),
    ((3, 3), 'aes256', 'sha384', False), ((3, 3), 'aes128', 'sha', False),
    ((3, 3), 'aes128gcm', 'aead', False), ((3, 3), 'aes256gcm', 'aead', False), ((3, 3), 'chacha20-poly1305', 'aead', False),
    ((3, 3), 'aes128ccm', 'aead', False), ((3, 3), 'aes256ccm_8', 'aead', False), ((3, 3), 'null', 'sha256', False),
    ((3, 3), 'rc4', 'sha', False),
    ((3, 4), 'aes128gcm', 'aead', False), ((3, 4), 'aes256gcm', 'aead', False), ((3, 4), 'chacha20-poly1305', 'aead', False),
    ((3, 4), 'aes128ccm', 'aead', False), ((3, 4), 'aes128ccm_8', 'aead', False),
]
LIVE_KIND = {'aes128': 'cbc', 'aes256': 'cbc', '3des': 'cbc'}
MSGS = [b'first message', b'second-message!', b'3rd', b'the fourth and last message']


def split_records(buf):
    out, i = [], 0
    while i + 5 <= len(buf):
        n = (buf[i + 3] << 8) | buf[i + 4]
        out.append(bytes(buf[i:i + 5 + n]))
        i += 5 + n
    return out


def live_setup(ver, cipher, mac, etm, seed, msgs=None, longpad=None):
    """Deterministic connection; the client's messages are captured, not delivered.
    longpad = k: the client (the PEER of the endpoint under test) pads every CBC record to the maximum
    legal length minus k blocks."""
    msgs = MSGS if msgs is None else msgs
    import loop
    rnd = loop.DetRandom(seed).install()
    try:
        p = None
        for kx in ('rsa', 'ecdhe_rsa'):
            p = loop.Pair()
            kw = dict(minv=ver, maxv=ver, cipherNames=[cipher], macNames=[mac], useEncryptThenMAC=etm)
            cs, ss = loop.settings(**kw), loop.settings(**kw)
            if ver < (3, 4):
                cs.keyExchangeNames = [kx]
                ss.keyExchangeNames = [kx]
            chain, key = loop.creds('rsa')
            co, so = p.handshake(client_kw=dict(settings=cs), server_kw=dict(certChain=chain, privateKey=key, settings=ss))
            if loop.classify(co) == ('ok',) and loop.classify(so) == ('ok',):
                break
            p = None
            if ver >= (3, 4):
                break
        if p is None:
            return None
        held = bytearray()
        p.csock.tap = lambda name, chunk: (held.extend(chunk), b'')[1]
        if longpad is not None:
            rl = p.client._recordLayer

            def long_padding(data, rl=rl, k=longpad):
                bs = rl.blockSize
                pl = 255 - ((len(data) + 255 + 1) % bs) - k * bs
                data += bytearray([pl] * (pl + 1))
                return data
            rl.addPadding = long_padding
        for m in msgs:
            loop.drive([p.client.writeAsync(m)])
        p.csock.tap = None
        sheld = bytearray()
        p.ssock.tap = lambda name, chunk: (sheld.extend(chunk), chunk)[1]
        loop.drive([p.server.writeAsync(b'from the server')])
        p.ssock.tap = None
        got = bytearray()
        while len(got) < 15:                         # the client consumes it, so both directions stay in step
            r = loop.drive([(x for x in p.client.readAsync(100, 1))], max_steps=4000)[0]
            if r[0] != 'ok' or not r[1]:
                return ('broken', 'after a completed handshake the client could not read the server\'s first '
                                  'application record: %r' % (loop.classify(r),))
            got += r[1]
        return p, split_records(bytes(held)), split_records(bytes(sheld))
    finally:
        rnd.uninstall()


def live_attack(args):
    """One attacker action on one fresh connection.  Returns a result dict."""
    ver, cipher, mac, etm, seed, action = args
    import loop
    from tlslite import errors as E
    msgs = MSGS
    if action[0] == 'padflip':
        msgs = [bytes((7 * i + 3) & 255 for i in range(action[1]))]
        st = live_setup(ver, cipher, mac, etm, seed, msgs=msgs, longpad=action[2])
    else:
        st = live_setup(ver, cipher, mac, etm, seed)
    if st is None or st[0] == 'broken':
        return dict(args=args, skip=True)
    p, recs, srecs = st
    beast = len(recs) > len(msgs)          # 1/n-1 split: records are [1 byte, rest] per message
    # plaintext each client record carries, in order (the honest stream)
    kind, pos = action[0], action[1]
    stream = list(recs)
    expected_prefix = b''                  # bytes that are legitimately delivered before the forged record
    note = ''
    if kind == 'flip':
        idx, bit = pos, action[2]
        m = bytearray(stream[idx])
        m[bit // 8] ^= 1 << (bit % 8)
        feed = stream[:idx] + [bytes(m)]
    elif kind == 'truncate':
        idx, k = pos, action[2]
        r = stream[idx]
        body = r[5:][:k]
        feed = stream[:idx] + [r[:3] + bytes([len(body) >> 8, len(body) & 255]) + body]
    elif kind == 'extend':
        idx, k = pos, action[2]
        r = stream[idx]
        body = r[5:] + bytes(k)
        feed = stream[:idx] + [r[:3] + bytes([len(body) >> 8, len(body) & 255]) + body]
    elif kind == 'replay':
        idx = pos
        feed = stream[:idx + 1] + [stream[action[2]]]
    elif kind == 'reorder':                # deliver record j when i is expected
        feed = stream[:pos] + [stream[action[2]]]
    elif kind == 'reflect':                # the server's own record, sent back to it
        feed = stream[:pos] + [srecs[0]]
    elif kind == 'cross':                  # record from another connection (another key epoch)
        other = live_setup(ver, cipher, mac, etm, seed + 1000003)
        if other is None or other[0] == 'broken':
            return dict(args=args, skip=True)
        feed = stream[:pos] + [other[1][pos]]
    elif kind == 'inject':                 # attacker-made plaintext record
        feed = stream[:pos] + [bytes(action[2])]
    elif kind == 'ssl2':                   # first byte with the SSLv2 bit, enough bytes after it
        r = bytearray(stream[pos])
        r[0] ^= 0x80
        n = ((r[0] & 0x7f) << 8) | r[1]
        feed = stream[:pos] + [bytes(r) + bytes(n)]
    elif kind == 'padflip':                # long-padded record of the peer, one bit of its data flipped
        idx = len(stream) - 1
        r = bytearray(stream[idx])
        bs = 8 if cipher == '3des' else 16
        off = 5 + (bs if ver >= (3, 2) else 0)
        nplain = len(msgs[0]) - (1 if beast else 0)
        where = off if action[3] == 'first' else off + (max(nplain - 1, 0) // bs) * bs
        if action[3] == 'honest':
            feed = stream
        else:
            r[min(where, len(r) - 1)] ^= 0x10
            feed = stream[:idx] + [bytes(r)]
    elif kind == 'honest':
        feed = stream
    else:
        raise ValueError(kind)
    nprefix = len(feed) - 1 if kind != 'honest' and not (kind == 'padflip' and action[3] == 'honest') else len(feed)
    p.ssock.inbuf += b''.join(feed)
    n0 = len(p.ssock.sent_log)
    got = bytearray()
    outcome = None
    honest_bytes = b''.join(msgs)
    # plaintext carried by the honest records before the forged one
    want_before = sum(len(x) for x in plain_sizes(recs, beast, msgs)[:nprefix])
    try:
        for _ in range(16):
            r = loop.drive([(x for x in p.server.readAsync(4096, 1))], max_steps=4000)[0]
            if r[0] == 'exc':
                outcome = r[1]
                break
            if r[1] == b'' or r[1] is None:
                outcome = 'eof'
                break
            got += r[1]
            if len(got) >= len(honest_bytes):
                break
            if not honest_bytes:
                break
    except Exception as e:  # noqa
        outcome = e
    res = dict(args=args, got=bytes(got), want_before=want_before, closed=p.server.closed, honest=honest_bytes,
               resumable=bool(p.server.session and p.server.session.resumable),
               exc=type(outcome).__name__ if isinstance(outcome, Exception) else outcome,
               desc=int(outcome.description) if isinstance(outcome, (E.TLSLocalAlert, E.TLSRemoteAlert)) else None,
               deadlock=isinstance(outcome, loop.Deadlock), sent=[(x[0], len(x)) for x in split_records(b''.join(p.ssock.sent_log[n0:]))])
    # what does the client see?
    peer = None
    if res['sent'] and not p.csock.closed:
        r = loop.drive([(x for x in p.client.readAsync(100, 1))], max_steps=4000)[0]
        if r[0] == 'exc':
            peer = (type(r[1]).__name__, int(r[1].description) if isinstance(r[1], E.TLSRemoteAlert) else None)
        else:
            peer = ('data', r[1])
    res['peer'] = peer
    return res


def plain_sizes(recs, beast, msgs=None):
    out = []
    for m in (MSGS if msgs is None else msgs):
        if beast:
            out += [m[:1], m[1:]]
        else:
            out.append(m)
    return out[:len(recs)]


FATAL_OK = (20, 21, 22, 10, 47, 50)        # bad_record_mac, decryption_failed, record_overflow, unexpected_message, illegal_parameter, decode_error


def live_oracle(res):
    """Returns a list of (key-suffix, text) violations of the property on this run."""
    ver, cipher, mac, etm, seed, action = res['args']
    kind = action[0]
    honest = res.get('honest', b''.join(MSGS))
    v = []
    got, before = res['got'], res['want_before']
    if kind == 'honest' or (kind == 'padflip' and action[3] == 'honest'):
        if got != honest:
            v.append(('honest-stream-broken', 'the unmodified stream was not delivered'))
        return v
    if got != honest[:len(got)]:
        v.append(('accepted-not-next', 'read() delivered bytes that are not the next bytes the peer sent'))
        return v
    if len(got) > before:
        # the forged record was accepted: allowed only if it yielded exactly the honest next bytes
        # (malleable encodings of the same record: header version, CBC padding) -- got is a prefix of honest
        if kind in ('replay', 'reorder', 'reflect', 'cross', 'inject', 'ssl2', 'truncate', 'extend', 'padflip'):
            v.append(('accepted-not-next', '%s record was accepted and delivered %d bytes' % (kind, len(got) - before)))
        return v
    # nothing beyond the honest prefix was delivered: it must be a clean fatal rejection
    if res['exc'] == 'eof':
        v.append(('accepted-as-close', 'a %s record made read() report an orderly close (b\'\'), session resumable=%s'
                  % (kind, res['resumable'])))
        return v
    if res['exc'] == 'TLSRemoteAlert':
        v.append(('accepted-as-peer-alert', 'a %s record was taken for an alert of the peer (description %s)' % (kind, res['desc'])))
        return v
    if res['exc'] == 'Deadlock':
        return v               # the forged framing makes the endpoint wait for more bytes: nothing accepted
    if res['exc'] != 'TLSLocalAlert':
        v.append(('rejected-without-alert:%s' % res['exc'], 'a %s record made read() raise %s: no fatal alert was sent' % (kind, res['exc'])))
    else:
        if res['desc'] not in FATAL_OK:
            v.append(('unexpected-alert', 'rejected with alert %s' % res['desc']))
        if not res['sent']:
            v.append(('no-alert-on-wire', 'TLSLocalAlert raised but no alert record was written'))
        elif res['peer'] is not None and res['peer'] != ('TLSRemoteAlert', res['desc']):
            v.append(('peer-sees-other-alert', 'peer reads %r, local alert was %s' % (res['peer'], res['desc'])))
    if not res['closed']:
        v.append(('not-closed', 'connection still open after the rejection'))
    if res['resumable']:
        v.append(('still-resumable', 'session still resumable after the rejection'))
    return v


def longpad_actions(quick, mac):
    """(payload length, blocks below the maximum, where) for CBC MAC-then-encrypt peers that pad maximally"""
    hb = 128 if mac == 'sha384' else 64
    Ls = list(range(1, 2 * hb + 2, 17 if quick else 1))
    out = []
    for L in Ls:
        for k in (0, 1):
            out.append(('padflip', L, k, 'first'))
            if not quick or L % 2:
                out.append(('padflip', L, k, 'last'))
        if L in (Ls[0], Ls[-1]):
            out.append(('padflip', L, 0, 'honest'))
    return out


def live_actions(rng, nrec, lens, quick, t13):
    acts = [('honest', 0)]
    idx = 1 if nrec > 1 else 0
    n = lens[idx]
    bits = list(range(0, 40)) + list(range(40, n * 8, 97 if quick else 5)) + list(range(n * 8 - 8, n * 8, 3 if quick else 1))
    for b in bits:
        acts.append(('flip', idx, b))
    acts.append(('flip', 0, rng.randrange(40, lens[0] * 8)))
    for k in range(0, n - 5, 13 if quick else 1):
        acts.append(('truncate', idx, k))
    for k in (1, 16):
        acts.append(('extend', idx, k))
    for i in range(min(nrec, 3)):
        for j in range(nrec):
            if j <= i:
                acts.append(('replay', i, j))
    for i in range(min(nrec, 3)):
        for j in range(nrec):
            if j > i:
                acts.append(('reorder', i, j))          # drop i..j-1, continue with j
    for i in (0, 1):
        acts.append(('reflect', i))
        acts.append(('cross', i))
        acts.append(('ssl2', i))
        acts.append(('inject', i, bytes([21, 3, 3, 0, 2, 1, 0])))          # plaintext close_notify
        acts.append(('inject', i, bytes([21, 3, 3, 0, 2, 2, 40])))         # plaintext fatal alert
        acts.append(('inject', i, bytes([20, 3, 3, 0, 1, 1])))             # plaintext ChangeCipherSpec
        acts.append(('inject', i, bytes([23, 3, 3, 0, 5]) + b'hello'))     # plaintext application data
    return acts


# ==========================================================================================
def run(ctx):
    quick = ctx.tier == 'quick'
    rng = ctx.rng
    res = vlib.proof_stage(ctx, 'Props/C02.v', model_targets=['Model/C01_RecordPipe.vo', 'Model/C02_RecordAccept.vo', 'Toy/C01_ToyCipher.vo'])
    ctx.log('proof stage ok=%s failing=%s' % (res['ok'], res['failing']))
    ctx.cov['trusted_base'] = [
        'Coq 8.16.1 kernel + vm_compute',
        'oracle contracts of Spec/C01_Contracts.v; aead_tight (functional property of GCM/CCM/ChaCha20-Poly1305; C09)',
        '*_ideal theorems: collision-free MAC / sealing (symbolic idealisation; see Spec/C02_Ideal.v)',
        'CBC MAC-and-pad check = Spec.CbcCheck.well_formed (C12); hand-written model tied by byte-exact correspondence',
    ]
    ctx.assumptions += ['records are SSLv3-framed (first byte 20..24); SSLv2-framed input is covered by the direct oracle only',
                        'early-data skipping (early_data_ok) is off after the handshake and not modelled',
                        'decrypt() of a byte string is a byte string; record bodies < 2^16 bytes']
    found = False
    tie_broken = None

    # ---------------- (a) toy-exact -------------------------------------------------------------
    lits, meta = [], []
    early_lits = []
    eff_jobs = []
    defs = []                      # shared configuration / primitive definitions (elaborated once per file)
    # no key installed yet (server between ClientHello and its own key change): application_data is "undecryptable"
    for ver in [(3, 3), (3, 4), (3, 1)]:
        c = mk_cfg(rng, 'plain', ver, {}, seq=0)
        nm = ('cf%d' % len(defs), 'pr%d' % len(defs))
        defs.append('Definition %s : Cfg := %s.\nDefinition %s : Prim TCS := %s.' % (nm[0], U.cfg_lit(c), nm[1], U.prim_lit(c)))
        hv = (3, 3) if ver >= (3, 3) else ver

        def rec(ty, body, hv=hv):
            return bytes([ty, hv[0], hv[1], len(body) >> 8, len(body) & 255]) + body
        a, b, h, d = rand_bytes(rng, 40), rand_bytes(rng, 17), rand_bytes(rng, 9), rand_bytes(rng, 5)
        for pat, maxe, opened in (([(0, 23, a), (0, 23, b), (1, 22, h), (1, 23, d)], 4096, True),
                                  ([(0, 23, a), (0, 23, b), (0, 23, a)], 60, True),
                                  ([(1, 23, a), (1, 22, h)], 4096, False)):
            wires_e = [rec(ty, body) for _, ty, body in pat]
            labelled = [(bool(gd), (ty, body), len(body)) for gd, ty, body in pat]
            got, code, fseq = early_impl(c, (0, []), wires_e, maxe, opened)
            want, want_err = early_expected(labelled, maxe, opened)
            ctx.count('early-data-window', len(pat), [('plain', ver, tuple(x for x, _, _ in pat), maxe, opened, code)])
            if got != want or (code != 0) != want_err:
                found = True
                ctx.violation('early-window:plain:%s' % (ver,), 'keyless phase, early_data_ok=%s max_early_data=%d: delivered %d records, '
                              'error code %d; expected %d records and %s' % (opened, maxe, len(got), code, len(want), 'a fatal error' if want_err else 'no error'),
                              {'cfg': {k: (v.hex() if isinstance(v, bytes) else v) for k, v in c.items()}, 'wires': [w.hex() for w in wires_e],
                               'max_early': maxe, 'window_open': opened})
            early_lits.append('(%s, %s, %s, %d, %s, [%s], [%s], %d, %d)' % (
                nm[0], nm[1], U.st_lit(c, 0, None), maxe, vlib.boollit(opened),
                ';'.join(U.wire_lit(U.parse_wire(w)) for w in wires_e), ';'.join('(%d, %s)' % (t, blit(pl)) for t, pl in got), code, fseq))
    for mode, ver, kw in toy_combos():
        c = mk_cfg(rng, mode, ver, kw)
        nm = ('cf%d' % len(defs), 'pr%d' % len(defs))
        defs.append('Definition %s : Cfg := %s.\nDefinition %s : Prim TCS := %s.' % (nm[0], U.cfg_lit(c), nm[1], U.prim_lit(c)))
        bs = c['bs']
        recs = [(23, rand_bytes(rng, 3)), (23, rand_bytes(rng, bs + 5)), (22, rand_bytes(rng, 2 * bs)), (23, rand_bytes(rng, 41))]
        outs, snaps = U.impl_send_snap(c, recs)
        # other direction / other epoch: same suite, other keys
        c2 = mk_cfg(rng, mode, ver, kw, seq=c['seq'])
        outs2, snaps2 = U.impl_send_snap(c2, recs)
        # --- single record mutations on three sample records
        for i in ((1,) if quick else (0, 1, 3)):
            for cls, mw in mutations(rng, outs[i], quick):
                if mw == outs[i]:
                    continue
                r, fs, fc = impl_recv_exc(c, snaps[i], mw)
                info = {'cfg': {k: (v.hex() if isinstance(v, bytes) else v) for k, v in c.items()}, 'snap': [snaps[i][0], list(snaps[i][1])],
                        'wire': mw.hex(), 'honest': outs[i].hex(), 'rec': [recs[i][0], recs[i][1].hex()], 'class': cls}
                ctx.count('record-mutation', 1, [(mode, ver, cls, r[0], i)])
                found |= oracle_record(ctx, c, cls, recs[i], r, info)
                if mw[0] in (20, 21, 22, 23, 24) and r[3] != 'RuntimeError':
                    lits.append(U.recv_case_at(c, snaps[i], [U.parse_wire(mw)], [r[:3]], fs, fc, names=nm))
                    meta.append((mode, ver, cls))
        # --- sequences: after the honest prefix 0..i-1, present record j / a reflected / a foreign one
        for i in range(4):
            for j in range(4):
                for label, w in (('seq', outs[j]), ('reflect', outs2[j])):
                    r, fs, fc = impl_recv_exc(c, snaps[i], w)
                    cls = ('next' if j == i else 'replay' if j < i else 'reorder/drop') if label == 'seq' else label
                    info = {'cfg': {k: (v.hex() if isinstance(v, bytes) else v) for k, v in c.items()}, 'snap': [snaps[i][0], list(snaps[i][1])],
                            'wire': w.hex(), 'rec': [recs[i][0], recs[i][1].hex()], 'class': cls, 'i': i, 'j': j}
                    ctx.count('record-sequence', 1, [(mode, ver, cls, i, j, r[0])])
                    if cls == 'next':
                        if r[0] != 0 or (r[1], r[2]) != recs[i]:
                            found = True
                            ctx.violation('next-record-rejected:%s:%s' % (mode, ver), 'the honest next record was not accepted', info)
                    else:
                        found |= oracle_record(ctx, c, cls, recs[i], r, info)
                    lits.append(U.recv_case_at(c, snaps[i], [U.parse_wire(w)], [r[:3]], fs, fc, names=nm))
                    meta.append((mode, ver, cls))
        # --- forgeries by a peer that has the keys
        extra = []
        if mode == 'tls13':
            extra = tls13_forgeries(rng, c, snaps[1])
            c0 = dict(c, seq=0)
            for cls, w, want in tls13_forgeries(rng, c0, (0, [])):
                if cls.startswith('plaintext-alert'):
                    r, fs, fc = impl_recv_exc(c0, (0, []), w)
                    ctx.count('keyed-forgery', 1, [(mode, ver, cls, r[0])])
                    if not forgery_ok(r, want):
                        found = True
                        ctx.violation('plaintext-alert:%s' % cls, 'unencrypted alert: recvRecord gave %r, expected %r' % (r, want),
                                      {'cfg': {k: (v.hex() if isinstance(v, bytes) else v) for k, v in c0.items()}, 'wire': w.hex()})
                    lits.append(U.recv_case_at(c0, (0, []), [U.parse_wire(w)], [r[:3]], fs, fc, names=nm))
                    meta.append((mode, ver, cls))
        elif mode in ('cbc', 'etm'):
            extra = alt_paddings(rng, c, snaps[1], recs[1])
        for cls, w, want in extra:
            r, fs, fc = impl_recv_exc(c, snaps[1], w)
            ctx.count('keyed-forgery', 1, [(mode, ver, cls, r[0])])
            if not forgery_ok(r, want):
                found = True
                ctx.violation('keyed-forgery:%s:%s:%s' % (mode, ver, cls.split('-pad')[0]),
                              'record made with the keys (%s): recvRecord gave %r, the RFC reading is %r' % (cls, r, want),
                              {'cfg': {k: (v.hex() if isinstance(v, bytes) else v) for k, v in c.items()}, 'wire': w.hex(), 'class': cls})
            lits.append(U.recv_case_at(c, snaps[1], [U.parse_wire(w)], [r[:3]], fs, fc, names=nm))
            meta.append((mode, ver, cls))
        # --- CBC MtE: the sender pads as much as it may (TLS 1.0+)
        if mode == 'cbc' and ver >= (3, 1):
            for rec, p, muts in long_padding_samples(rng, c, snaps[1], quick):
                for cls, mw in muts:
                    r, fs, fc = impl_recv_exc(c, snaps[1], mw)
                    ctx.count('long-padding', 1, [(mode, ver, c['bs'], c['mbs'], cls, (len(mw) - 5) % c['mbs'], p, r[0])])
                    info = {'cfg': {k: (v.hex() if isinstance(v, bytes) else v) for k, v in c.items()},
                            'snap': [snaps[1][0], list(snaps[1][1])], 'wire': mw.hex(), 'rec': [rec[0], rec[1].hex()],
                            'class': cls, 'padding': p}
                    if cls == 'longpad-honest':
                        if r[0] != 0 or (r[1], r[2]) != rec:
                            found = True
                            ctx.violation('next-record-rejected:%s:%s:long-padding' % (mode, ver),
                                          'a record with %d bytes of legal padding was not accepted' % p, info)
                    else:
                        found |= oracle_record(ctx, c, cls, rec, r, info)
                    lits.append(U.recv_case_at(c, snaps[1], [U.parse_wire(mw)], [r[:3]], fs, fc, names=nm))
                    meta.append((mode, ver, cls))
        # --- the early-data tolerance window, every mode and version
        def forged(w):
            m = bytearray(w)
            m[-1] ^= 0x40
            return bytes(m)
        g = outs
        patterns = [([(0, g[0]), (0, g[1]), (1, g[0]), (0, g[2]), (1, g[1])], 4096, True),      # skip, skip, accept, then strict
                    ([(1, g[0]), (0, g[1]), (1, g[1])], 4096, True),                               # closes at the first record
                    ([(0, g[0]), (0, g[0]), (0, g[0]), (1, g[0])], len(g[0]) - 5 + len(g[0]) - 5 + 1, True),   # budget: two fit, third does not
                    ([(0, g[0]), (1, g[0])], 4096, False),                                         # window never opened
                    ([(0, outs2[0]), (0, outs2[1]), (1, g[0]), (0, outs2[2]), (1, g[1])], 4096, True)]   # records under another key
        for pat, maxe, opened in patterns:
            wires_e = [(forged(w) if (not good and w in g) else w) for good, w in pat]
            labelled, gi = [], 0
            for (good, w) in pat:
                if good:
                    labelled.append((True, recs[gi], len(w) - 5))
                    gi += 1
                else:
                    labelled.append((False, None, len(w) - 5))
            got, code, fseq = early_impl(c, snaps[0], wires_e, maxe, opened)
            want, want_err = early_expected(labelled, maxe, opened)
            ctx.count('early-data-window', len(pat), [(mode, ver, tuple(x for x, _ in pat), maxe > 4000, opened, code)])
            if got != want or (code != 0) != want_err:
                found = True
                ctx.violation('early-window:%s:%s' % (mode, ver),
                              'recvRecord with early_data_ok=%s, max_early_data=%d on records %s (1 = genuine next record, 0 = forged): '
                              'delivered %d records, error code %d; the tolerance must end at the first processed record: expected %d '
                              'records and %s' % (opened, maxe, [x for x, _ in pat], len(got), code, len(want), 'a fatal error' if want_err else 'no error'),
                              {'cfg': {k: (v.hex() if isinstance(v, bytes) else v) for k, v in c.items()}, 'snap': [snaps[0][0], list(snaps[0][1])],
                               'wires': [w.hex() for w in wires_e], 'max_early': maxe, 'window_open': opened})
            early_lits.append('(%s, %s, %s, %d, %s, [%s], [%s], %d, %d)' % (
                nm[0], nm[1], U.st_lit(c, snaps[0][0], (snaps[0][1] if snaps[0][1] else None)), maxe, vlib.boollit(opened),
                ';'.join(U.wire_lit(U.parse_wire(w)) for w in wires_e), ';'.join('(%d, %s)' % (t, blit(pl)) for t, pl in got), code, fseq))
        # --- the error path through the real read(): one bad and one good record
        bad = bytearray(outs[0])
        bad[-1] ^= 1
        for w, label in ((bytes(bad), 'bad-last-byte'), (outs[0][:3] + b'\x00\x00', 'empty-body'), (outs[0], 'good'),
                         (bytes([outs[0][0], 3, 3]) + ((c['recv_limit'] + 2049) >> 8).to_bytes(1, 'big') + bytes([(c['recv_limit'] + 2049) & 255]) + bytes(c['recv_limit'] + 2049), 'overflow')):
            eff_jobs.append((dict(c, seq=snaps[0][0]), w, label))
    ctx.log('toy-exact: %d receive cases, direct oracle done' % len(lits))
    eff_lits = []
    for c, w, label in eff_jobs:
        exc, desc, sent, closed, resum, rbuf, out, cw = error_path_impl(c, w)
        ctx.count('error-path', 1, [(c['mode'], tuple(c['ver']), label, exc, desc)])
        if exc == 'TLSLocalAlert':
            d = desc
            if not closed or resum or rbuf or not sent:
                found = True
                ctx.violation('reject-effects:%s:%s:%s' % (c['mode'], c['ver'], label),
                              'rejection left closed=%s resumable=%s buffered=%d alert-bytes=%d' % (closed, resum, len(rbuf), len(sent)),
                              {'cfg': {k: (v.hex() if isinstance(v, bytes) else v) for k, v in c.items()}, 'wire': w.hex()})
        elif exc is None:
            d = -2
            rbuf = out + rbuf            # read() returned the delivered bytes
        else:
            d = -1
            found = True
            ctx.violation('rejected-without-alert:%s:%s:%s:%s' % (c['mode'], c['ver'], label, exc), 'read() raised %s' % exc,
                          {'cfg': {k: (v.hex() if isinstance(v, bytes) else v) for k, v in c.items()}, 'wire': w.hex()})
        eff_lits.append('(%s, %s, %s, %s, %s, %s, %s, %s, %s, %s, %s, %s)' % (
            U.cfg_lit(c), U.prim_lit(c), U.st_lit(c), U.cfg_lit(cw), U.prim_lit(cw), U.st_lit(cw), U.wire_lit(U.parse_wire(w)),
            zlit(d), blit(sent), vlib.boollit(closed), vlib.boollit(resum), blit(rbuf)))

    # ---------------- (b) live attacker ----------------------------------------------------------
    pool = multiprocessing.Pool(vlib.NPROC)
    try:
        setups = pool.starmap(live_probe, [(v, ci, m, e, 17) for v, ci, m, e in LIVE_COMBOS])
        jobs = []
        for (ver, ci, m, e), lens in zip(LIVE_COMBOS, setups):
            if lens is None:
                continue
            if isinstance(lens, tuple) and lens[0] == 'broken':
                found = True
                ctx.violation('live:honest-stream-broken:%s' % ('tls13' if ver >= (3, 4) else ('aead' if m == 'aead' else 'legacy')),
                              '%d.%d %s/%s etm=%s: %s' % (ver[0], ver[1], ci, m, e, lens[1]),
                              {'args': [list(ver), ci, m, e, 17, ['honest', 0]], 'how': 'harness/props/C02.py live_setup(...)'})
                continue
            combos_actions = live_actions(rng, len(lens), lens, quick, ver >= (3, 4))
            if LIVE_KIND.get(ci) == 'cbc' and not e and ver >= (3, 1):
                combos_actions += longpad_actions(quick, m)
            for a in combos_actions:
                jobs.append((ver, ci, m, e, 17, a))
        results = pool.map(live_attack, jobs, chunksize=8)
        # key epochs: two and three consecutive KeyUpdates per direction, replay across epochs, independent HKDF chain
        ku_jobs = [(ci, 23, v) for ci in ('aes128gcm', 'aes256gcm', 'chacha20-poly1305', 'aes128ccm')
                   for v in ('honest', 'replay-prev', 'replay-first-in-third', 'skip-keyupdate')]
        ku_results = pool.map(c02_live2.keyupdate_case, ku_jobs)
        # plaintext fragments injected during the handshake before every record of either flight
        inj_combos = [((3, 0), 'aes128', 'sha', False), ((3, 1), 'aes128', 'sha', True), ((3, 2), '3des', 'sha', False),
                      ((3, 3), 'aes128gcm', 'aead', False), ((3, 3), 'aes128', 'sha256', True), ((3, 4), 'aes128gcm', 'aead', False)]
        if not quick:
            inj_combos += [((3, 1), 'rc4', 'sha', False), ((3, 3), 'chacha20-poly1305', 'aead', False), ((3, 3), 'null', 'sha', False),
                           ((3, 4), 'chacha20-poly1305', 'aead', False)]
        inj_jobs = [(v, ci, m, e, 29, d, k, frag) for (v, ci, m, e) in inj_combos for d in 'cs' for k in range(0, 10)
                    for frag in ('alert1', 'hs1', 'alert2')]
        inj_results = pool.map(c02_live2.inject_case, inj_jobs, chunksize=4)
        # every handshake flavour x reading side x attacker action after completion (which unprotected or forged
        # records are tolerated in which state: after the handshake, none)
        fl_actions = [('honest',)] + [('inject', k) for k in sorted(c02_live2.PLAIN_RECORDS)] + [('flip',), ('flip-then-honest',), ('swap',)]
        fl_jobs = [(fl, vic, a, 31) for fl in c02_live2.FLAVOURS for vic in 'cs' for a in fl_actions]
        # the transport fails exactly on the fatal alert of every rejection path (bad MAC, unprotected record,
        # overflow), several exception types: the connection must still be closed and nothing delivered
        faults = ('timeout', 'epipe', 'reset', 'oserror', 'runtime', 'wouldblock')
        f_actions = [('flip',), ('inject', 'appdata'), ('inject', 'ccs'), ('overflow',), ('inject', 'handshake')]
        if quick:
            fl_jobs += [(fl, vic, a, 37, f) for i, (fl, vic) in enumerate((f2, v2) for f2 in ('tls13', 'tls12', 'tls12-etm-cbc', 'tls10') for v2 in 'cs')
                        for j, a in enumerate(f_actions) for k, f in enumerate(faults) if (i + j + k) % 3 == 0 or f == 'timeout']
        else:
            fl_jobs += [(fl, vic, a, 37, f) for fl in c02_live2.FLAVOURS for vic in 'cs' for a in f_actions for f in faults]
        fl_results = pool.map(c02_live2.flavour_case, fl_jobs, chunksize=4)
    finally:
        pool.close()
        pool.join()
    nlive = 0
    for r in results:
        if r.get('skip'):
            continue
        nlive += 1
        ver, ci, m, e, seed, action = r['args']
        accepted = len(r['got']) > r['want_before']
        ctx.count('live-attack', 1, [(ver, ci, m, e, action[0], r['exc'], r['desc'], accepted)],
                  sample=dict(ver=ver, cipher=ci, action=[str(x) for x in action], exc=r['exc'], desc=r['desc'],
                              closed=r['closed'], resumable=r['resumable'], sent=r['sent']) if nlive % 211 == 0 else None)
        for suffix, text in live_oracle(r):
            found = True
            cls = action[0] if action[0] != 'inject' else 'inject-type-%d' % action[2][0]
            key = 'live:%s:%s:%s' % (suffix, cls, 'tls13' if ver >= (3, 4) else ('aead' if m == 'aead' else 'legacy'))
            if suffix.startswith('accepted-as') and action[0] == 'inject':
                key += ':seq%d' % action[1]
            ctx.violation(key, '%d.%d %s/%s etm=%s: %s' % (ver[0], ver[1], ci, m, e, text),
                          {'args': [list(ver), ci, m, e, seed, [x if not isinstance(x, bytes) else x.hex() for x in action]],
                           'result': {k: (v.hex() if isinstance(v, bytes) else v) for k, v in r.items() if k != 'args'},
                           'how': 'harness/props/C02.py live_attack(args)'})
    for r in ku_results:
        if r.get('skip'):
            continue
        ci, seed, variant = r['args']
        ctx.count('keyupdate-epochs', 1, [(ci, variant, r.get('outcome'))])
        for suffix, text in r['viol']:
            found = True
            ctx.violation('live:%s:keyupdate:%s' % (suffix, variant), 'TLS 1.3 %s: %s' % (ci, text),
                          {'keyupdate_args': list(r['args']), 'result': {k: v for k, v in r.items() if k != 'args'},
                           'how': 'harness/c02_live2.py keyupdate_case(args)'})
    ninj = 0
    for r in inj_results:
        if r.get('skip'):
            continue
        ninj += 1
        ver, ci, m, e, seed, d, k, frag = r['args']
        ctx.count('handshake-injection', 1, [(ver, ci, e, d, k, frag, r.get('client'), r.get('server'))])
        for suffix, text in r['viol']:
            found = True
            ctx.violation('live:%s:handshake-injection:%s:%s' % (suffix, frag, 'tls13' if ver >= (3, 4) else 'legacy'),
                          '%d.%d %s/%s etm=%s, %s-> before record %d: %s' % (ver[0], ver[1], ci, m, e, d, k, text),
                          {'inject_args': [list(ver), ci, m, e, seed, d, k, frag], 'result': {k2: v for k2, v in r.items() if k2 != 'args'},
                           'how': 'harness/c02_live2.py inject_case(args)'})
    nfl = 0
    for r in fl_results:
        if r.get('skip'):
            continue
        nfl += 1
        fl, vic, a, seed = r['args'][:4]
        flt = r['args'][4] if len(r['args']) > 4 else None
        ctx.count('alert-send-fault' if flt else 'flavour-sweep', 1, [(fl, vic, a, flt, r.get('outcome'), r.get('desc'))])
        for suffix, text in r['viol']:
            found = True
            ctx.violation('live:%s:flavour:%s:%s%s' % (suffix, fl, '/'.join(a), ':alert-send-' + flt if flt else ''), text,
                          {'flavour_args': [fl, vic, list(a), seed] + ([flt] if flt else []), 'result': {k: v for k, v in r.items() if k != 'args'},
                           'how': 'harness/c02_live2.py flavour_case(args)'})
    ctx.log('live attacker: %d runs, %d KeyUpdate runs, %d handshake injections, %d flavour runs' % (nlive, len(ku_results), ninj, nfl))
    # key-change sites of /repo against the table the model (no_plaintext_survives_key_change) was written for
    _, key_diffs = c01_sites.diff_sites(vlib.REPO)
    ctx.count('key-change-sites', len(c01_sites.EXPECTED_KEY_SITES) + len(c01_sites.EXPECTED_GUARD_SITES), [('sites', len(key_diffs))])
    if key_diffs:
        tie_broken = 'read-key change sites / defragmenter guards differ from the modelled table: ' + '; '.join(key_diffs[:4])

    # ---------------- model vs implementation -------------------------------------------------------
    if res['model_ok']:
        kinds = (('C02r', 'RecvCase', 'chk_recv', lits, U.PREAMBLE + '\n'.join(defs) + '\n'),
                 ('C02e', 'EffCase', 'chk_eff', eff_lits, EFFECT_PREAMBLE),
                 ('C02w', 'EarlyCase', 'chk_early', early_lits, EARLY_PREAMBLE + '\n'.join(defs) + '\n'))
        from multiprocessing.pool import ThreadPool
        # at most 350 cases per coqc run: memory per shard stays below ~1 GB whatever the tier
        with ThreadPool(2) as tp:
            evals = tp.map(lambda k: vlib.coq_bad_indices(k[0], U.IMPORTS, k[1], k[2], k[3],
                                                          shard=min(350, max(50, (len(k[3]) + 15) // 16)), preamble=k[4]), kinds)
        for (name, ctype, fn, ls, pre), (bad, errs) in zip(kinds, evals):
            ctx.count('model-vs-impl:' + fn, len(ls), [(fn, len(ls) - len(bad))])
            for e in errs:
                tie_broken = 'case evaluation failed (%s): %s' % (fn, e[:300])
            for i in bad[:5]:
                d = '%s %s %s' % meta[i] if fn == 'chk_recv' else ls[i][:260]
                ctx.log('%s disagreement: %s' % (fn, d))
                tie_broken = 'model (%s) disagrees with the implementation on: %s' % (fn, d)
    else:
        tie_broken = 'model does not compile: %s' % res['failing']
    ctx.cov['rule'] = ('toy-exact: per (mode, version) 3 sample records x {bit flips, truncation/extension at every length, length-field '
                       'flips}, 4x4 (state, record) pairs own/foreign keys, keyed forgeries; distinct = (mode, version, class, outcome, index). '
                       'live: per (version, cipher, mac, EtM) every attacker action; distinct = (suite, action, outcome)')
    if tie_broken and not found:
        ctx.violation('tie-broken', tie_broken, {'correspondence': 'Model/C01_RecordPipe.v unprotect / Model/C02_RecordAccept.v recv_step vs '
                                                 'tlslite/recordlayer.py recvRecord, tlsrecordlayer.py', 'detail': tie_broken}, found_input=False)
        found = True
    vlib.broken_proof_verdict(ctx, res, found)


def live_probe(ver, cipher, mac, etm, seed):
    st = live_setup(ver, cipher, mac, etm, seed)
    if st is None:
        return None
    if st[0] == 'broken':
        return st
    return [len(x) for x in st[1]]


def replay(ctx, path):
    import json
    with open(path) as f:
        r = json.load(f)
    if 'args' in r:
        a = r['args']
        act = [bytes.fromhex(x) if isinstance(x, str) and i == 2 and a[5][0] == 'inject' else x for i, x in enumerate(a[5])]
        out = live_attack((tuple(a[0]), a[1], a[2], a[3], a[4], tuple(act)))
        v = live_oracle(out)
        print('result:', {k: v2 for k, v2 in out.items() if k != 'args'})
        print('violations:', v)
        return 1 if v else 0
    if 'keyupdate_args' in r:
        out = c02_live2.keyupdate_case(tuple(r['keyupdate_args']))
        print(out)
        return 1 if out['viol'] else 0
    if 'flavour_args' in r:
        a = r['flavour_args']
        out = c02_live2.flavour_case((a[0], a[1], tuple(a[2]), a[3]) + tuple(a[4:]))
        print(out)
        return 1 if out['viol'] else 0
    if 'inject_args' in r:
        a = r['inject_args']
        out = c02_live2.inject_case((tuple(a[0]),) + tuple(a[1:]))
        print(out)
        return 1 if out['viol'] else 0
    if 'cfg' in r and 'wire' in r:
        c = r['cfg']
        for k in ('enc_key', 'mac_key', 'iv', 'fixed_nonce', 'fixed_iv'):
            c[k] = bytes.fromhex(c[k])
        c['ver'] = tuple(c['ver'])
        if c.get('pad') is not None:
            c['pad'] = tuple(c['pad'])
        snap = r.get('snap', [c['seq'], []])
        out = impl_recv_exc(c, (snap[0], snap[1]), bytes.fromhex(r['wire']))
        print('recvRecord:', out[0])
        return 0
    print(json.dumps(r, indent=1)[:2000])
    return 1
