"""C17: closure, truncation and transport failures are contained and reported faithfully.

Tie: hand model coq/Model/C17_Lifecycle.v + correspondence.  The same event scripts are run on
live tlslite-ng endpoints (in-memory transport with persistent failures, harness/c17_util.FSock)
and on the model (vm_compute inside coqc); outcomes, closed, session.resumable, bytes returned
and the records the peer decrypts are compared.  Theorems: coq/Props/C17.v.
The direct oracle (c17_util.run_hs_fault_case / run_data_case, `viol`) states the property on the
implementation's observable behaviour and does not use the model."""
import json
import multiprocessing
import os
import random

import vlib

LEVEL = 'proof'
META = {
    'text': 'Coq theorems (Props/C17.v) over ARBITRARY event sequences of a hand-written lifecycle model of '
            'TLSRecordLayer/TLSConnection (read/write/close/makefile/handshake steps; data, close_notify, warning and fatal '
            'alerts, EOF, errno on recv, persistent send failure after k writes): orderly close, truncation never reported as '
            'end of data, transport faults contained, fatal alerts surfaced, session.resumable only ever switched off, '
            'closed absorbing for data calls.  The model is tied to /repo on every run by executing the same scripts on live '
            'endpoints: a transport fault at every recv/send call index of every handshake flavour (SSLv3..TLS1.3 x RSA/DHE/'
            'ECDHE/ECDSA/SRP/anon/resumption/client-auth/tickets, both sides), every placement of alerts relative to data, '
            'both ignoreAbruptClose/closeSocket settings, async and blocking API.  Sessions are objects shared by reference '
            '(Model/C17_Sessions.v): failures on RESUMED connections (session ID, TLS 1.2 ticket, TLS 1.3 PSK) are followed by a '
            'SessionCache lookup and a follow-up connection offering the session again.',
    'note': 'Trusted: Coq kernel + vm_compute; the translation of a live run into model events (c17_util.hs_events, from a '
            'reference run of a separately instrumented endpoint); FSock transport semantics (persistent failures; buffered '
            'input stays readable); one-record-per-socket-write (no partial sends in the data scripts); recordSize >= 2.  '
            'The two statements that were _refuted on the original tree (swallowed send failure, write after orderly close) '
            'are full theorems since the fixes 0ab9df1 and 8b57b65 in /repo; so are exception_closes and '
            'post_handshake_fault_contained since fa8f243 (public post-handshake calls close the connection on failure).',
    'technique': 'Rocq/Coq proof over hand-written state machine + live correspondence (vm_compute) + direct property oracle',
}
IMPORTS = ['Model.C17_Lifecycle', 'Model.C17_Sessions', 'Model.C17_Check']
MODEL_TARGETS = ['Model/C17_Lifecycle.vo', 'Model/C17_Sessions.vo', 'Model/C17_Check.vo']


# ------------------------------------------------------------------------------------------
def enc(x):
    if isinstance(x, (bytes, bytearray)):
        return {'hex': bytes(x).hex()}
    if isinstance(x, (list, tuple)):
        return [enc(y) for y in x]
    if isinstance(x, dict):
        return {k: enc(v) for k, v in x.items()}
    return x


def dec(x):
    if isinstance(x, dict) and set(x) == {'hex'}:
        return bytes.fromhex(x['hex'])
    if isinstance(x, list):
        return [dec(y) for y in x]
    if isinstance(x, dict):
        return {k: dec(v) for k, v in x.items()}
    return x


def dec_case(c):
    c = dec(c)
    if 'script' in c:
        c['script'] = [tuple(op) for op in c['script']]
    return c


def slim(r):
    return dict(lit=r['lit'], viol=r['viol'], case=r['case'], triggered=r.get('triggered'), n_peer_records=r.get('n_peer_records'),
                wlit=r.get('wlit'), followup=r.get('followup'),
                outcome=r.get('outcome'), outs=r.get('outs'), blocked=r.get('blocked'), extra=r.get('extra'))


def hs_batch(b):
    """worker: all fault cases of one (flavour, side, chunking, flags)"""
    import c17_util as U
    out = []
    try:
        base = dict(fl=b['fl'], side=b['side'], ign=b['ign'], csock=b['csock'], rchunk=b['rchunk'], schunk=b['schunk'],
                    eager=False, fkind='recv', findex=0, ferr=None, seed=b['seed'])
        r0 = U.run_hs_fault_case(dict(base))
        out.append(slim(r0))
        n_recv, n_send = r0['n_io']
        # (the two data calls after the handshake add at most one recv and one send call)
        for fkind, n, errs in (('recv', n_recv, ('eof', 'reset', 'pipe')), ('send', n_send, ('pipe', 'reset'))):
            for idx in range(b['offset'] % b['step'], n, b['step']):
                for ferr in errs:
                    for eager in b['eager']:
                        if fkind == 'recv' and ferr == 'pipe':
                            continue
                        c = dict(base, fkind=fkind, findex=idx, ferr=ferr, eager=eager)
                        out.append(slim(U.run_hs_fault_case(c)))
        # the peer sends an alert in place of its n-th record (unchunked batches only)
        if b['rchunk'] is None:
            alerts = [(2, 40), (1, 0), (1, 90), (2, 0), (2, 20), (3, 80)]
            for n in range(r0['n_peer_records']):
                sel = alerts if b.get('all_alerts') else [alerts[(n + b['seed']) % 6], alerts[(n + b['seed'] + 3) % 6]]
                for (l, d) in sel:
                    out.append(slim(U.run_hs_fault_case(dict(base, palert=(n, l, d)))))
    except Exception as e:  # noqa
        import traceback
        out.append(dict(error='%s: %s' % (b, traceback.format_exc()[-1500:])))
    return out


def data_batch(cases):
    import c17_util as U
    out = []
    for c in cases:
        try:
            r = U.run_data_case(c)
            s = slim(r)
            if not r['blocked'] and (c.get('both_apis', True)) and not c.get('world'):
                rb = U.run_data_case(c, blocking=True)
                s['extra'] = None if (rb['outs'] == r['outs'] and rb['final'] == r['final']) else (r['outs'], rb['outs'])
                s['blocking_run'] = True
                s['viol'] = s['viol'] + [v for v in rb['viol'] if v not in s['viol']]
            out.append(s)
        except Exception as e:  # noqa
            import traceback
            out.append(dict(error='%s: %s' % (c, traceback.format_exc()[-1500:])))
    return out


# ------------------------------------------------------------------------------------------
def gen_hs_batches(ctx, quick):
    import c17_util as U
    rng = ctx.rng
    out = []
    flags = [(False, True), (True, True), (False, False), (True, False)]
    n = 0
    for name in U.FLAVOURS:
        for side in ('client', 'server'):
            if quick:
                fsel = [flags[n % 4]]
                fsel2 = [flags[(n + 1) % 4]]
            else:
                fsel = fsel2 = flags
            n += 1
            for (ign, csock) in fsel:       # unchunked: few I/O calls, every index, lockstep and eager peer
                out.append(dict(fl=name, side=side, ign=ign, csock=csock, rchunk=None, schunk=None, step=1, offset=0,
                                eager=[False, True], seed=rng.randrange(1 << 30), all_alerts=not quick))
            if quick and (n + ctx.seed) % 2:
                continue                    # quick: chunked sweep for every other (flavour, side); thorough: all
            for (ign, csock) in fsel2:      # chunked: a fault inside every record / flight
                out.append(dict(fl=name, side=side, ign=ign, csock=csock, rchunk=rng.choice([48, 97, 211]),
                                schunk=rng.choice([64, 150, 333]), step=3 if quick else 1, offset=rng.randrange(3),
                                eager=[False], seed=rng.randrange(1 << 30)))
    return out


def gen_data_cases(ctx, quick):
    import c17_util as U
    rng = ctx.rng
    flags = [(False, True), (True, True), (False, False), (True, False)]
    vers = ['ssl3', 'tls10', 'tls11', 'tls12', 'tls13']
    cases = []
    n = 0
    scripts = ([('sys', s) for s in U.systematic_scripts(quick)] + [('send', s) for s in U.send_fault_scripts()]
               + [('wait', s) for s in U.close_wait_scripts()] + [('post', s) for s in U.post_handshake_scripts(quick)])
    t13 = ['tls13-ecdhe', 'tls13-pha', 'tls13-ticket']
    for k, (cls, s) in enumerate(scripts):
        if cls == 'post':       # public post-handshake calls: always a TLS 1.3 flavour, plus one older version
            vsel = ['tls13', vers[k % 4]] if quick else ['tls13', 'tls13', 'tls13'] + vers[:4]
        else:
            vsel = [vers[k % 5], vers[(k + 2) % 5]] if quick else vers
        for vi, v in enumerate(vsel):
            for side in ((['client', 'server'][(k + vi) % 2],) if (quick and cls == 'post') else ('client', 'server')):
                for (ign, csock) in ([flags[n % 4]] if quick else flags):
                    fl = U.DATA_FL[v]
                    if v == 'tls13' and cls == 'post':
                        fl = t13[(k + vi + n) % 3]
                    elif v == 'tls13' and side == 'client' and n % 2:
                        fl = 'tls13-ticket'        # NewSessionTicket messages are waiting when the first read starts
                    cases.append(dict(fl=fl, side=side, ign=ign, csock=csock, recsz=[16384, 16384, 4, 2][n % 4],
                                      script=s, seed=rng.randrange(1 << 30), cls=cls, both_apis=(not quick or n % 2 == 0)))
                    n += 1
    for _ in range(700 if quick else 14000):
        v = rng.choice(vers)
        side = rng.choice(['client', 'server'])
        fl = U.DATA_FL[v]
        if v == 'tls13':
            fl = rng.choice(['tls13-ecdhe', 'tls13-ecdhe', 'tls13-ticket', 'tls13-pha'])
        ign, csock = rng.choice(flags)
        cases.append(dict(fl=fl, side=side, ign=ign, csock=csock, recsz=rng.choice([16384, 16384, 7, 2]),
                          script=U.random_script(rng), seed=rng.randrange(1 << 30), cls='random',
                          both_apis=(not quick or rng.random() < 0.5)))
    return cases


RESUME_FL = ['ssl3-resume', 'tls10-resume', 'tls11-resume', 'tls12-resume', 'tls12-ticket-resume', 'tls13-ticket-resume']


def gen_world_cases(ctx, quick):
    """failures / alerts / orderly ends on RESUMED connections (session ID, TLS 1.2 ticket, TLS 1.3
    PSK) with a SessionCache shared with the first connection; afterwards the cache is asked and the
    session is offered again"""
    import errno
    import c17_util as U
    rng = ctx.rng
    flags = [(False, True), (True, True), (False, False), (True, False)]
    core = [[('palert', 2, 80), ('read', None, 1)], [('palert', 2, 40), ('read', None, 1), ('write', b'w')],
            [('palert', 1, 90), ('read', None, 1)], [('palert', 3, 47), ('read', None, 1)],
            [('reset', errno.ECONNRESET), ('read', None, 1)], [('eof',), ('read', None, 1)],
            [('pdata', b'xy'), ('eof',), ('read', None, 5)], [('trunc', b'CCCCCC', 3), ('read', None, 1)],
            [('pjunk',), ('read', None, 1)], [('palert', 1, 0), ('read', None, 1), ('write', b'w')],
            [('palert', 2, 0), ('read', None, 1)], [('close',)], [('read', None, 1)],
            [('sendbreak', 0, errno.EPIPE), ('write', b'abc')], [('sendbreak', 1, errno.ECONNRESET), ('write', b'abc'), ('write', b'd')],
            [('sendbreak', 0, errno.EPIPE), ('close',)], [('setcsock', False), ('palert', 2, 40), ('close',)],
            [('setcsock', False), ('eof',), ('close',)], [('pdata', b'ab'), ('read', None, 1), ('palert', 2, 80), ('read', None, 1)],
            [('setign', True), ('eof',), ('read', None, 1)], [('write', b'q'), ('palert', 2, 20), ('read', 3, 2)]]
    pool = U.systematic_scripts(quick) + U.send_fault_scripts() + U.close_wait_scripts()
    cases = []
    n = 0
    for fl in RESUME_FL:
        for side in ('server', 'client'):
            extra = [pool[(7 * k + n) % len(pool)] for k in range(10 if quick else 80)]
            extra += [U.random_script(rng) for _ in range(10 if quick else 150)]
            for sc in core + extra:
                for (ign, csock) in ([flags[n % 4]] if quick else flags):
                    cases.append(dict(fl=fl, side=side, ign=ign, csock=csock, recsz=[16384, 16384, 4, 2][n % 4],
                                      script=sc, seed=rng.randrange(1 << 30), cls='world', world=True, both_apis=False))
                    n += 1
    return cases


# ------------------------------------------------------------------------------------------
def run(ctx):
    quick = ctx.tier == 'quick'
    res = vlib.proof_stage(ctx, 'Props/C17.v', model_targets=MODEL_TARGETS)
    ctx.log('proof stage ok=%s failing=%s' % (res['ok'], res['failing']))
    ctx.cov['trusted_base'] = [
        'Coq 8.16.1 kernel + vm_compute (case evaluation)',
        'hand model Model/C17_Lifecycle.v, tied by this correspondence only',
        'c17_util.hs_events: translation of a live faulted handshake into model events, using the step sequence of a '
        'fault-free reference run observed on a separately instrumented endpoint',
        'c17_util.FSock transport semantics (failures are persistent; input that had arrived stays readable; EBADF after close)',
    ]
    ctx.assumptions += ['recordSize >= 2 (alerts are not fragmented)', 'read(max, min) with max None or >= 0',
                        'one socket write per record in data scripts (partial sends only in handshake sweeps)',
                        'handshake scripts never wait for input with records queued in the write buffer '
                        '(checked on every reference script: chk_hs_wf)']
    found = False
    tie_broken = None
    hb = gen_hs_batches(ctx, quick)
    dcases = gen_data_cases(ctx, quick)
    dbatches = [dcases[i::64] for i in range(64)]
    wcases = gen_world_cases(ctx, quick)
    wbatches = [wcases[i::48] for i in range(48)]
    ctx.log('%d handshake batches, %d data scripts, %d scripts on resumed connections' % (len(hb), len(dcases), len(wcases)))
    with multiprocessing.Pool(vlib.NPROC) as pool:
        hres_b = pool.map(hs_batch, hb, chunksize=1)
        dres_b = pool.map(data_batch, dbatches, chunksize=1)
        wres_b = pool.map(data_batch, wbatches, chunksize=1)
    hres = [r for b in hres_b for r in b]
    dres = [r for b in dres_b for r in b]
    wres = [r for b in wres_b for r in b]
    for r in hres + dres + wres:
        if 'error' in r:
            tie_broken = 'harness error: ' + r['error']
    hres = [r for r in hres if 'error' not in r]
    dres = [r for r in dres if 'error' not in r]
    wres = [r for r in wres if 'error' not in r]
    ctx.log('live runs done: %d handshake cases (%d with a fault that fired), %d data scripts'
            % (len(hres), sum(1 for r in hres if r['triggered']), len(dres)))
    # ---- the property on the implementation (needs no Coq)
    import c17_util as U
    for r in hres:
        c = r['case']
        ctx.count('handshake-fault-oracle', 1,
                  [(c['fl'], c['side'], c['fkind'] if r['triggered'] else 'none', c['ferr'] if r['triggered'] else None,
                    c['findex'] if r['triggered'] else -1, c['rchunk'], c['eager'], tuple(c.get('palert') or ()), r['outcome'][0])],
                  sample=enc(c) if c['findex'] == 1 and c['ferr'] == 'eof' else None)
        for key, what in r['viol']:
            if ctx.violation(key, what, {'kind': 'hs', 'case': enc(c),
                                         'how': './check C17 --replay <this file>  (c17_util.run_hs_fault_case)'}):
                found = True          # (a known finding does not count as the explanation of a broken tie)
    for r in dres:
        c = r['case']
        shape = tuple(op[0] if op[0] != 'palert' else 'alert%d/%d' % (op[1], op[2]) for op in c['script'])
        ctx.count('data-script-oracle', 1, [(c['fl'], c['side'], c['ign'], c['csock'], shape)],
                  sample=enc(c) if len(ctx.cov['samples']) < 10 and c['cls'] == 'random' else None)
        if r.get('blocking_run'):
            ctx.count('blocking-vs-async-api', 1, [(c['fl'], c['side'], shape)])
            if r['extra'] is not None:
                tie_broken = 'blocking and async API disagree on %s: %s' % (enc(c), r['extra'])
        for key, what in r['viol']:
            if ctx.violation(key, what, {'kind': 'data', 'case': enc(c),
                                         'how': './check C17 --replay <this file>  (c17_util.run_data_case)'}):
                found = True
    for r in wres:
        c = r['case']
        shape = tuple(op[0] if op[0] != 'palert' else 'alert%d/%d' % (op[1], op[2]) for op in c['script'])
        fu = r.get('followup') or {}
        ctx.count('resumed-connection-oracle', 1,
                  [(c['fl'], c['side'], c['ign'], c['csock'], shape, fu.get('lookup'), fu.get('resumed_id'))],
                  sample=enc(c) if shape[:1] == ('alert2/80',) else None)
        for key, what in r['viol']:
            if ctx.violation(key, what, {'kind': 'data', 'case': enc(c), 'followup': repr(fu),
                                         'how': './check C17 --replay <this file>  (c17_util.run_data_case with world=True: '
                                                'first connection, resumed connection running the script, cache lookup, '
                                                'follow-up connection offering the session again)'}):
                found = True
    # ---- model and implementation on the same scripts
    if res['model_ok']:
        hl = [r['lit'] for r in hres]
        (bad_hs,), errs = vlib.coq_bad_indices('C17h', IMPORTS, 'HsCase', ['chk_hs'], hl,
                                               shard=max(20, (len(hl) + 31) // 32))
        wf = [r['lit'] for r in hres if not r['triggered'] and not r['case'].get('palert')]
        bad_wf, errs2 = vlib.coq_bad_indices('C17w', IMPORTS, 'HsCase', 'chk_hs_wf', wf, shard=max(20, (len(wf) + 15) // 16))
        dl = [r['lit'] for r in dres]
        bad_d, errs3 = vlib.coq_bad_indices('C17d', IMPORTS, 'DataCase', 'chk_data', dl, shard=max(20, (len(dl) + 31) // 32))
        ctx.count('model-vs-impl:handshake-faults', len(hl), [('agree', len(hl) - len(bad_hs))])
        ctx.count('model-vs-impl:script-wellformed', len(wf), [('ok', len(wf) - len(bad_wf))])
        ctx.count('model-vs-impl:data-scripts', len(dl), [('agree', len(dl) - len(bad_d))])
        wl = [r['lit'] for r in wres]
        bad_w1, errs4 = vlib.coq_bad_indices('C17x', IMPORTS, 'DataCase', 'chk_data', wl, shard=max(20, (len(wl) + 15) // 16))
        ww = [r['wlit'] for r in wres if r.get('wlit')]
        bad_w2, errs5 = vlib.coq_bad_indices('C17y', IMPORTS, 'WorldCase', 'chk_world', ww, shard=max(20, (len(ww) + 15) // 16))
        ctx.count('model-vs-impl:resumed-connections', len(wl), [('agree', len(wl) - len(bad_w1))])
        ctx.count('model-vs-impl:shared-session-worlds', len(ww), [('agree', len(ww) - len(bad_w2))])
        if len(ww) != len(wl):
            tie_broken = 'resumed-connection cases without a world literal: %d' % (len(wl) - len(ww))
        for e in errs4 + errs5:
            tie_broken = 'case evaluation failed: ' + e[:400]
        for i in bad_w1[:3]:
            tie_broken = 'model disagrees with implementation on resumed-connection script %s' % json.dumps(enc(wres[i]['case']))
        wwr = [r for r in wres if r.get('wlit')]
        for i in bad_w2[:5]:
            ctx.log('model/impl disagreement (shared session): %s -> %s' % (wwr[i]['case'], wwr[i].get('followup')))
            tie_broken = ('shared-session model (session object shared by reference between the cache and every connection of '
                          'the session) disagrees with implementation on %s: %s'
                          % (json.dumps(enc(wwr[i]['case'])), wwr[i].get('followup')))
        ctx.log('resumed connections: %d scripts, disagreements %d (connection) / %d (shared session)'
                % (len(wl), len(bad_w1), len(bad_w2)))
        for e in errs + errs2 + errs3:
            tie_broken = 'case evaluation failed: ' + e[:400]
        for i in bad_hs[:5]:
            ctx.log('model/impl disagreement (handshake): %s -> %s' % (hres[i]['case'], hres[i]['outcome']))
            tie_broken = 'model disagrees with implementation on handshake-fault case %s' % json.dumps(enc(hres[i]['case']))
        for i in bad_wf[:3]:
            tie_broken = 'a reference handshake script waits for input with queued writes (hypothesis of ' \
                         'transport_fault_contained not met by the code)'
        for i in bad_d[:5]:
            ctx.log('model/impl disagreement (data): %s' % (dres[i]['case'],))
            tie_broken = 'model disagrees with implementation on data script %s' % json.dumps(enc(dres[i]['case']))
        ctx.log('model evaluation: %d+%d+%d cases, disagreements %d/%d/%d'
                % (len(hl), len(wf), len(dl), len(bad_hs), len(bad_wf), len(bad_d)))
    else:
        tie_broken = tie_broken or ('model does not compile: %s' % res['failing'])
    ctx.cov['rule'] = ('handshake cases: flavour x side x fault kind x errno x I/O call index (all indices unchunked; every '
                       '%s index with chunked transport) x peer schedule; data scripts: systematic alert/data/transport-end '
                       'placements, send-failure budgets, close-wait responses, random scripts; distinct = different '
                       '(flavour, side, fault site, outcome) resp. (flavour, side, flags, op/alert shape)'
                       % ('3rd' if quick else '1st'))
    if tie_broken and not found:
        ctx.violation('tie-broken', tie_broken, {'correspondence': 'Model/C17_Lifecycle.v vs live endpoints',
                                                 'detail': tie_broken}, found_input=False)
        found = True
    elif tie_broken:
        ctx.notes.append('tie: ' + tie_broken[:500])
    vlib.broken_proof_verdict(ctx, res, found)


def replay(ctx, path):
    import c17_util as U
    with open(path) as f:
        r = json.load(f)
    c = dec_case(r['case'])
    out = U.run_hs_fault_case(c) if r.get('kind') == 'hs' else U.run_data_case(c)
    if out.get('followup') is not None:
        print('shared session afterwards:', out['followup'])
    print('case:', c)
    print('outcomes:', out.get('outcome'), out.get('outs'))
    print('model literal:', out['lit'][:3000])
    for key, what in out['viol']:
        print('PROPERTY FAILS [%s]: %s' % (key, what))
    rc, txt = vlib.coq_eval('C17replay', IMPORTS, ['%s %s' % ('chk_hs' if r.get('kind') == 'hs' else 'chk_data', out['lit'])])
    print('model agrees with implementation:', txt.strip()[-200:])
    if out.get('wlit'):
        rc, txt = vlib.coq_eval('C17replayw', IMPORTS, ['chk_world %s' % out['wlit']])
        print('shared-session model agrees with implementation:', txt.strip()[-200:])
    return 1 if out['viol'] else 0
