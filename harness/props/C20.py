"""C20: negotiated cipher-suite semantics match the suite's registered (IANA) meaning.

Tie 1 (translator): coq/Gen/Suites.v is regenerated from $VERIF_REPO on every run by
translator/units_suites.py: every CipherSuite.*Suites list and the values of the real
classification functions on every known suite id x version.  Theorems (coq/Props/C20.v) compare
them with the meaning parsed from an independently written registry (coq/Spec/Iana.v), on the
whole finite domain, by vm_compute.
Tie 2 (correspondence): a live handshake for every negotiable suite x version x two
configurations (and every non-negotiable suite x version, which must fail); wire bytes, record
layer objects and primitive calls are compared with the parsed meaning inside Coq
(coq/Model/C20_Live.v).
Search: a direct Python oracle (harness/c20_iana.py, twin of Spec/Iana.v) over the same values."""
import json
import multiprocessing
import os
import sys

import vlib
from vlib import zlit, boollit, listlit, optlit

sys.path.insert(0, os.path.join(vlib.ROOT, 'translator'))
import units  # noqa: E402
import units_suites  # noqa: E402
import c20_iana as iana  # noqa: E402
import c20_live  # noqa: E402

LEVEL = 'proof'
META = {
    'text': 'Coq theorems (Props/C20.v), exhaustive over every suite id the library knows x versions (3,0)..(3,4), about '
            'tables regenerated from tlslite on every run (all CipherSuite.*Suites lists; the values of '
            '_getCipherSettings, _getMacSettings, canonicalCipherName/MacName, the PRF calc_key applies, the TLS 1.3 '
            'key-schedule hash, filterForVersion and the get*Suites filters as the handshake combines them): key '
            'length, IV, cipher, MAC/tag, PRF, key-exchange class, version range and accessor names equal the meaning '
            'parsed from an independently written IANA registry, membership in each *Suites list equals its stated '
            'meaning, and the cipher/MAC/key-exchange/version lists partition the negotiable suites (all full; the MAC '
            'statements were refuted at 0x00A3 until that was fixed in /repo). Every negotiable suite x version is also handshaken '
            'live (two configurations) and the wire/record-layer observations are compared with the parsed meaning '
            'inside Coq; every non-negotiable pair is offered live and must fail.',
    'note': 'Trusted: Coq kernel + vm_compute; Spec/Iana.v (my transcription of the registry and naming conventions; '
            'cross-checked against CipherSuite.ietfNames and a Python twin); translator/units_suites.py (calls the real '
            'functions; the candidate-list composition and the key-exchange dispatch of tlsconnection.py are read from its ast '
            'and additionally tied by the live handshakes); all-permissive '
            'HandshakeSettings; SSLv2 cipher kinds and static (EC)DH suites are never negotiable and only checked as such.',
    'technique': 'Rocq/Coq proof (exhaustive finite domain, vm_compute) over regenerated tables + live-handshake correspondence',
}
VERSIONS = [(3, 0), (3, 1), (3, 2), (3, 3), (3, 4)]
MODEL_TARGETS = ['Gen/Suites.vo', 'Spec/Iana.vo', 'Model/C20_Classify.vo', 'Model/C20_Live.vo']
MAC_KEY = 'mac-classification:0x%04x'


# ------------------------------------------------------------------------------------------
# direct oracle: the property on the implementation's own values, in Python
def is_cipher(c, k):
    return lambda m: m['cipher'] == c and m['keylen'] == k


def is_kx(k, a):
    return lambda m: m['kx'] == k and m['auth'] == a


LIST_SEM = {
    'aes128Suites': is_cipher('AES_CBC', 16), 'aes256Suites': is_cipher('AES_CBC', 32),
    'aes128GcmSuites': is_cipher('AES_GCM', 16), 'aes256GcmSuites': is_cipher('AES_GCM', 32),
    'aes128CcmSuites': is_cipher('AES_CCM', 16), 'aes256CcmSuites': is_cipher('AES_CCM', 32),
    'aes128Ccm_8Suites': is_cipher('AES_CCM_8', 16), 'aes256Ccm_8Suites': is_cipher('AES_CCM_8', 32),
    'chacha20Suites': lambda m: m['cipher'] == 'CHACHA20' and not m['draft'],
    'chacha20draft00Suites': lambda m: m['cipher'] == 'CHACHA20' and m['draft'],
    'tripleDESSuites': is_cipher('3DES', 24), 'rc4Suites': is_cipher('RC4', 16), 'nullSuites': is_cipher('NULL', 0),
    'shaSuites': lambda m: m['mac'] == 'SHA', 'sha256Suites': lambda m: m['mac'] == 'SHA256',
    'sha384Suites': lambda m: m['mac'] == 'SHA384', 'md5Suites': lambda m: m['mac'] == 'MD5',
    'aeadSuites': lambda m: m['mac'] == 'AEAD', 'streamSuites': lambda m: m['kind'] == 'stream',
    'ssl3Suites': lambda m: m['minv'] == (3, 0), 'tls12Suites': lambda m: m['minv'] == (3, 3),
    'tls13Suites': lambda m: m['kx'] == 'TLS13',
    'sha384PrfSuites': lambda m: m['prf'] == 'SHA384',
    'sha256PrfSuites': lambda m: m['minv'] >= (3, 3) and m['prf'] != 'SHA384',
    'certSuites': is_kx('RSA', 'RSA'), 'dheCertSuites': is_kx('DHE', 'RSA'), 'dheDsaSuites': is_kx('DHE', 'DSS'),
    'ecdheCertSuites': is_kx('ECDHE', 'RSA'), 'ecdheEcdsaSuites': is_kx('ECDHE', 'ECDSA'),
    'anonSuites': is_kx('DHE', 'anon'), 'ecdhAnonSuites': is_kx('ECDHE', 'anon'),
    'srpSuites': is_kx('SRP', 'SRP'), 'srpCertSuites': is_kx('SRP', 'RSA'), 'srpDsaSuites': is_kx('SRP', 'DSS'),
    'srpAllSuites': lambda m: m['kx'] == 'SRP', 'dhAllSuites': lambda m: m['kx'] == 'DHE',
    'ecdhAllSuites': lambda m: m['kx'] == 'ECDHE', 'certAllSuites': lambda m: m['auth'] == 'RSA',
}
MAC_LISTS = ('shaSuites', 'sha256Suites', 'sha384Suites', 'md5Suites', 'aeadSuites')
FACTORY = {'NULL': 'None', 'RC4': 'createRC4', '3DES': 'createTripleDES', 'AES_CBC': 'createAES',
           'AES_GCM': 'createAESGCM', 'AES_CCM': 'createAESCCM', 'AES_CCM_8': 'createAESCCM_8',
           'CHACHA20': 'createCHACHA20'}
DIGEST = {'AEAD': None, 'MD5': 'md5', 'SHA': 'sha1', 'SHA256': 'sha256', 'SHA384': 'sha384'}


def negotiable_pairs(d):
    neg = set()
    for per in d['srv'].values():
        for vi, l in enumerate(per):
            neg.update((s, vi) for s in l)
    for per_max in d['cli'].values():
        for per_v in per_max:
            for vi, l in enumerate(per_v):
                neg.update((s, vi) for s in l)
    return neg


def py_oracle(d):
    """-> list of (key, what, replay).  d = units_suites.collect(): the implementation's values."""
    out = []
    neg = negotiable_pairs(d)

    def bad(key, sid, vi, what, **kw):
        r = {'kind': 'direct', 'sid': sid, 'ver': [3, vi], 'name': iana.name_of(sid)}
        r.update(kw)
        out.append((key, '0x%04X %s at (3,%d): %s' % (sid, iana.name_of(sid), vi, what), r))
    for (sid, vi) in sorted(neg):
        m = iana.meaning(sid)
        v = (3, vi)
        if m is None:
            bad('no-registered-meaning:0x%04x' % sid, sid, vi, 'negotiable but the id has no cipher-suite meaning in the registry')
            continue
        r = d['rows'][sid]
        if not iana.defined_in(m, v):
            bad('undefined-version:0x%04x@3.%d' % (sid, vi), sid, vi,
                'negotiable in a version that does not define it (defined for %s..%s)' % (m['minv'], m['maxv']))
        cs = r['cipher_settings']
        want = (m['keylen'], FACTORY[m['cipher']])
        if cs is None or (cs[0], cs[2]) != want or (not m['draft'] and cs[1] != m['fixed_iv']):
            bad('cipher-settings:0x%04x' % sid, sid, vi, '_getCipherSettings gives %r, the name denotes key=%d iv=%d %s'
                % (cs, m['keylen'], m['fixed_iv'], want[1]), fn='_getCipherSettings')
        ms = r['mac_settings']
        if ms != (m['maclen'], DIGEST[m['mac']]):
            bad('mac-settings:0x%04x' % sid, sid, vi, '_getMacSettings gives %r, the name denotes %r'
                % (ms, (m['maclen'], DIGEST[m['mac']])), fn='_getMacSettings')
        if vi <= 3:
            if r['calc_key_prf'][vi] != iana.prf_at(m, v):
                bad('prf:0x%04x@3.%d' % (sid, vi), sid, vi, 'calc_key applies %r, the name denotes %r'
                    % (r['calc_key_prf'][vi], iana.prf_at(m, v)), fn='calc_key')
        else:
            t = r['tls13']
            encname = None if m['cipher'] == 'NULL' else ('chacha20-poly1305' if m['cipher'] == 'CHACHA20' else iana.lib_cipher_name(m))
            want13 = (iana.prf_at(m, v), m['keylen'], encname, m['tag'], 12)
            if t != want13 or r['prf_params'] != (iana.prf_at(m, v), iana.HASHLEN[iana.prf_at(m, v).upper()]):
                bad('tls13-keys:0x%04x' % sid, sid, vi, 'TLS 1.3 pending state %r / _getPRFParams %r, the name denotes %r'
                    % (t, r['prf_params'], want13), fn='calcTLS1_3PendingState')
        if r['canon_cipher'] != iana.lib_cipher_name(m):
            bad('cipher-name:0x%04x' % sid, sid, vi, 'canonicalCipherName/getCipherName() = %r, the name denotes %r'
                % (r['canon_cipher'], iana.lib_cipher_name(m)), fn='canonicalCipherName')
        if not iana.mac_name_agrees(m, r['canon_mac']):
            bad(MAC_KEY % sid, sid, vi, 'canonicalMacName/getMacName() = %r but the suite is %s'
                % (r['canon_mac'], 'AEAD (no HMAC)' if m['mac'] == 'AEAD' else 'HMAC-' + m['mac']), fn='canonicalMacName')
        for ln, members in d['lists'].items():
            sem = LIST_SEM.get(ln)
            if sem is None:
                continue
            if (sid in members) != bool(sem(m)):
                key = (MAC_KEY % sid) if ln in MAC_LISTS else 'list-membership:%s:0x%04x' % (ln, sid)
                bad(key, sid, vi, '%s in CipherSuite.%s although the name says otherwise'
                    % ('is' if sid in members else 'is not', ln), fn='list:' + ln)
        for table, word_of, kind in ((d['by_cipher'], lambda: iana.lib_cipher_name(m), 'cipherNames'),
                                     (d['by_mac'], lambda: 'aead' if m['mac'] == 'AEAD' else iana.lib_mac_name(m), 'macNames'),
                                     (d['by_kx'], lambda: iana.lib_kx_name(m), 'keyExchangeNames')):
            if kind == 'keyExchangeNames' and m['kx'] == 'TLS13':
                continue
            for w, per in table.items():
                if (sid in per[vi]) != (word_of() == w):
                    key = (MAC_KEY % sid) if kind == 'macNames' else 'settings-word:%s=%s:0x%04x' % (kind, w, sid)
                    bad(key, sid, vi, 'settings.%s=[%r] %s the suite' % (kind, w, 'admits' if sid in per[vi] else 'excludes'),
                        fn='_filterSuites', word=[kind, w])
    # filterForVersion on every known id
    for sid in d['all']:
        m = iana.meaning(sid)
        for vi in range(5):
            if d['rows'][sid]['ffv'][vi] and (m is None or not iana.defined_in(m, (3, vi))):
                bad('filterForVersion:0x%04x@3.%d' % (sid, vi), sid, vi, 'filterForVersion keeps the suite in a version that does not define it',
                    fn='filterForVersion')
    unknown = [k for k in d['lists'] if k not in LIST_SEM]
    return out, unknown


# ------------------------------------------------------------------------------------------
def ostr(x):
    return optlit(x, vlib.strlit)


def side_lit(s):
    return ('{| sd_suite := %s; sd_ver := %s; sd_conn_cipher := %s; sd_sess_cipher := %s; sd_sess_mac := %s; '
            'sd_aead := %s; sd_tag := %s; sd_mac_ds := %s; sd_nonce := %s; sd_etm := %s; sd_srv_cert := %s |}' % (
                zlit(s['suite']), zlit(s['ver']), ostr(s['conn_cipher']), ostr(s['sess_cipher']), ostr(s['sess_mac']),
                boollit(s['enc_aead']), zlit(s['enc_tag']), zlit(s['mac_ds']), zlit(s['nonce']), boollit(s['etm']),
                ostr(s['srv_cert'])))


def obs_lit(r):
    w = r['wire']
    return ('{| o_sid := %s; o_ver := %s; o_sh_suite := %s; o_sh_ver := %s; o_wire_cert := %s; o_wire_kx := %s; '
            'o_ske_signed := %s; o_sigalg := %s; o_cli := %s; o_srv := %s; o_fact := %s; o_prfs := %s; o_hkdf := %s; '
            'o_n := %s; o_c2s := %s; o_s2c := %s |}' % (
                zlit(r['sid']), zlit(r['ver']), zlit(w['sh_suite']), zlit(w['sh_ver']), ostr(w['wire_cert']),
                vlib.strlit(w['wire_kx']), boollit(w['ske_signed']), vlib.strlit(w['sigalg']),
                side_lit(r['cli']), side_lit(r['srv']),
                listlit(r['fact'], lambda f: '(%s, %s, %s)' % (vlib.strlit(f[0]), zlit(f[1]), zlit(f[2]))),
                listlit(r['prfs'], vlib.strlit), listlit(r['hkdf'], vlib.strlit),
                zlit(r['n']), listlit(r['c2s'], zlit), listlit(r['s2c'], zlit)))


LIVE_CHECKS = ['chk_ids', 'chk_live_version', 'chk_kx', 'chk_cipher', 'chk_mac', 'chk_prf', 'chk_names_cipher',
               'chk_names_mac', 'chk_sizes']


def meaning_codes(m):
    return [iana.KX[m['kx']], iana.AUTH[m['auth']], iana.CIPH[m['cipher']], m['keylen'],
            {'stream': 0, 'cbc': 1, 'aead': 2}[m['kind']], m['block'], m['tag'], m['fixed_iv'], iana.MAC[m['mac']],
            m['maclen'], iana.PRF[m['prf']], m['minv'][1], m['maxv'][1], 1 if m['draft'] else 0]


def brief(r):
    keep = {k: r.get(k) for k in ('sid', 'ver', 'cfg', 'ok', 'outcome', 'wire', 'cli', 'srv', 'fact', 'prfs', 'hkdf',
                                  'c2s', 's2c', 'n', 'error', 'variant')}
    return keep


def live_cases(ctx, d, quick):
    neg = sorted(negotiable_pairs(d))
    pos, negc = [], []
    for (sid, vi) in neg:
        for cfg in c20_live.CFGS:
            pos.append({'sid': sid, 'ver': (3, vi), 'cfg': cfg, 'seed': ctx.rng.randrange(1 << 30)})
    if not quick:       # more dimensions: other TLS 1.3 credentials, MAC-then-encrypt, payload sizes (1 byte .. 2 records)
        for (sid, vi) in neg:
            if vi == 4:
                for cred in ('ecdsa', 'ed25519', 'rsapss'):
                    for cfg in c20_live.CFGS:
                        pos.append({'sid': sid, 'ver': (3, vi), 'cfg': cfg, 'cred13': cred, 'variant': 'cred13=' + cred,
                                    'seed': ctx.rng.randrange(1 << 30)})
            pos.append({'sid': sid, 'ver': (3, vi), 'cfg': 'client-pinned', 'variant': 'etm-off,n=1', 'etm': False, 'n': 1,
                        'seed': ctx.rng.randrange(1 << 30)})
            pos.append({'sid': sid, 'ver': (3, vi), 'cfg': 'server-pinned', 'variant': 'etm-off,n=1000', 'etm': False,
                        'n': 1000, 'seed': ctx.rng.randrange(1 << 30)})
            pos.append({'sid': sid, 'ver': (3, vi), 'cfg': 'client-pinned', 'variant': 'n=20000', 'n': 20000,
                        'seed': ctx.rng.randrange(1 << 30)})
    negset = set(neg)
    for sid in d['all']:
        if iana.meaning(sid) is None:
            continue
        for vi in range(5):
            if (sid, vi) not in negset:
                for cfg in c20_live.CFGS:
                    negc.append({'sid': sid, 'ver': (3, vi), 'cfg': cfg, 'seed': ctx.rng.randrange(1 << 30)})
    return pos, negc


# ------------------------------------------------------------------------------------------
def run(ctx):
    quick = ctx.tier == 'quick'
    found = False
    tie_broken = None
    ok, msg = units.generate('Suites', vlib.COQ)
    ctx.log('translator: %s' % msg)
    if not ok:
        tie_broken = msg
    res = vlib.proof_stage(ctx, 'Props/C20.v', model_targets=MODEL_TARGETS)
    ctx.log('proof stage ok=%s failing=%s' % (res['ok'], res['failing']))
    ctx.cov['trusted_base'] = [
        'Coq 8.16.1 kernel + vm_compute (finite-domain decisions and case evaluation)',
        'Spec/Iana.v: my transcription of the IANA TLS Cipher Suites registry and of the naming conventions '
        '(cross-checked on every run against CipherSuite.ietfNames and the Python twin harness/c20_iana.py)',
        'translator/units_suites.py: imports tlslite from the tree under test and calls the real functions; reads from the '
        'ast of tlsconnection.py how the get*Suites filters are concatenated (scenario flags: credentials present, group '
        'intersections non-empty) and the key-exchange dispatch chains (fail closed on any other shape)',
        'Model/C20_Classify.v expected_srv_action/expected_cli_action: which KeyExchange class a name calls for',
        'harness/c20_live.py wire parser and passive call recorders',
    ]
    ctx.assumptions += ['all-permissive HandshakeSettings (every cipher, MAC and key-exchange word enabled)',
                        'domain: ids in CipherSuite.ietfNames or any CipherSuite.*Suites list x versions (3,0)..(3,4); '
                        'SSLv2 is out of scope (no SSLv2 handshake in TLSConnection)']
    # ---- implementation values + direct oracle (needs no Coq) ----------------------------
    try:
        d = units_suites.collect()
    except Exception as e:  # noqa
        d = None
        tie_broken = tie_broken or ('cannot evaluate the classification functions: %r' % (e,))
    if d is not None:
        viols, unknown = py_oracle(d)
        neg = negotiable_pairs(d)
        for (sid, vi) in sorted(neg):
            m = iana.meaning(sid)
            ctx.count('direct-oracle(suite x version)', 1,
                      [(m['kx'], m['auth'], m['cipher'], m['keylen'], m['mac'], m['prf'], vi)] if m else [('nomeaning', sid)],
                      sample={'sid': '0x%04X' % sid, 'ver': [3, vi], 'name': iana.name_of(sid)} if (sid + vi) % 41 == 0 else None)
        ctx.count('filterForVersion(all ids x versions)', len(d['all']) * 5, [('ids', len(d['all']))])
        for key, what, rep in viols:
            rep['how'] = ('PYTHONPATH=$VERIF_REPO: compare the named tlslite function on this suite id with the meaning of '
                          'its IANA name (harness/c20_iana.py); ./check C20 --replay <this file>')
            found = ctx.violation(key, what, rep) or found
        for k in unknown:
            tie_broken = tie_broken or ('CipherSuite.%s has no stated meaning in Model/C20_Classify.v list_semantics' % k)
        ctx.log('direct oracle: %d negotiable pairs, %d deviations' % (len(neg), len(viols)))
        # ---- registry cross-checks -----------------------------------------------------------
        for sid in d['all']:
            lib, mine = d['ietf'].get(sid), iana.name_of(sid)
            if lib is None or mine is None:
                if not (lib or '').startswith('SSL_CK_'):
                    ctx.notes.append('id 0x%04X: ietfNames=%r registry=%r' % (sid, lib, mine))
                continue
            if lib != mine:
                if iana.parse_name(lib.replace('_ANON_', '_anon_')) == iana.parse_name(mine) and lib.upper() == mine.upper():
                    if 'case' not in ''.join(ctx.notes):
                        ctx.notes.append('ietfNames spells DH_anon/ECDH_anon as DH_ANON/ECDH_ANON (case only; e.g. %r vs %r)' % (lib, mine))
                else:
                    found = ctx.violation('ietf-name:0x%04x' % sid, 'CipherSuite.ietfNames[0x%04X] = %r but the registered name is %r'
                                          % (sid, lib, mine), {'kind': 'name', 'sid': sid, 'lib': lib, 'registry': mine}) or found
        ctx.notes.append('not in the IANA registry (draft ChaCha20 code points, parsed by the same conventions): '
                         + ', '.join('0x%04X' % s for s in sorted(iana.UNREGISTERED) if s in d['all']))
        ssl3_late = sorted(s for (s, vi) in neg if vi == 0 and (iana.meaning(s) or {}).get('kx') in ('ECDHE', 'SRP'))
        ctx.notes.append('recorded, not raised: %d ECC/SRP suites (RFC 4492/5054 are written for TLS 1.0+) are negotiable '
                         'under SSLv3 with their SSLv3-compatible CBC/stream + HMAC-SHA1 construction; the property asks '
                         'that the version "defines" the suite, which for these suites is a matter of the record/PRF '
                         'construction (identical), so this is treated as library policy' % len(ssl3_late))
    # ---- Coq evaluation: twin registry, then live observations ------------------------------
    if res['model_ok'] and tie_broken is None and d is not None:
        ids = sorted(set(d['all']) | set(iana.REGISTRY) | set(iana.UNREGISTERED))
        lits = []
        for sid in ids:
            m = iana.meaning(sid)
            lits.append('(%d, %s, %s)' % (sid, ostr(iana.name_of(sid)), optlit(None if m is None else meaning_codes(m),
                                                                             lambda c: listlit(c, zlit))))
        badt, errs = vlib.coq_bad_indices('C20t', ['Spec.Iana', 'Model.C20_Live'], 'Z * option string * option (list Z)',
                                          'twin_ok', lits, shard=400)
        ctx.count('registry-twin(Coq vs Python)', len(lits), [('ids', len(lits) - len(badt))])
        for e in errs:
            tie_broken = 'twin evaluation failed: ' + e[:300]
        for i in badt[:3]:
            tie_broken = 'Spec/Iana.v and harness/c20_iana.py disagree on id 0x%04X' % ids[i]
    if d is not None:
        pos, negc = live_cases(ctx, d, quick)
        with multiprocessing.Pool(vlib.NPROC) as pool:
            rpos = pool.map(c20_live.run_case, pos, chunksize=4)
            rneg = pool.map(c20_live.run_case, negc, chunksize=8)
        ctx.log('live: %d positive, %d negative handshakes' % (len(rpos), len(rneg)))
        good = []
        for c, r in zip(pos, rpos):
            r['variant'] = c.get('variant')
            m = iana.meaning(r['sid'])
            key = (m['kx'], m['auth'], m['cipher'], m['keylen'], m['mac'], r['ver'], r['cfg'], c.get('variant'))
            ctx.count('live-handshake(negotiable)', 1, [key], sample=brief(r) if len(good) % 97 == 5 else None)
            crashed = [o for o in (r.get('outcome') or []) if o and o[0] in ('Other', 'Deadlock')]
            if not r['ok'] and crashed:
                # the endpoints' own filters admit the suite, then an endpoint dies outside the documented errors:
                # no key exchange of the kind the name denotes can be performed for a suite the library selects
                sel = (r.get('wire') or {}).get('sh_suite') == r['sid']
                found = ctx.violation('negotiated-but-kx-fails:0x%04x' % r['sid'],
                                      '0x%04X %s at (3,%d) [%s]: admitted by both endpoints\' filters%s, then the handshake dies with %s'
                                      % (r['sid'], iana.name_of(r['sid']), r['ver'], r['cfg'],
                                         ' and selected in the ServerHello' if sel else '', crashed[0][1:]),
                                      {'kind': 'live', 'case': brief(r)}) or found
                continue
            if not r['ok'] or not r.get('app_ok') or r.get('forced_into_offer'):
                # tables say negotiable, the endpoints do not complete it: model and implementation disagree
                tie_broken = tie_broken or ('0x%04X at (3,%d) [%s] is negotiable by the generated tables but the live '
                                            'handshake gives %s %s' % (r['sid'], r['ver'], r['cfg'], r.get('outcome'),
                                                                       r.get('error', '')))
                continue
            good.append(r)
        for c, r in zip(negc, rneg):
            m = iana.meaning(r['sid'])
            ctx.count('live-handshake(non-negotiable must fail)', 1, [(m['kx'], m['auth'], m['cipher'], m['mac'], r['ver'])])
            if r['ok']:
                if not iana.defined_in(m, (3, r['ver'])):
                    found = ctx.violation('undefined-version:0x%04x@3.%d' % (r['sid'], r['ver']),
                                          '0x%04X %s was negotiated live at (3,%d), which does not define it'
                                          % (r['sid'], iana.name_of(r['sid']), r['ver']),
                                          {'kind': 'live', 'case': brief(r)}) or found
                else:
                    tie_broken = tie_broken or ('0x%04X at (3,%d) completes live but the generated tables say not negotiable'
                                                % (r['sid'], r['ver']))
        odd = sorted(set(r['sid'] for r in good if r['ver'] < 4 and iana.meaning(r['sid'])['auth'] in ('RSA', 'DSS', 'ECDSA')
                         and r['srv']['srv_cert'] is None))
        if odd:
            ctx.notes.append('recorded, not raised (session state, not suite semantics): the SERVER-side session.serverCertChain '
                             'is None although a certificate was sent and verified by the client, for '
                             + ', '.join('0x%04X' % x for x in odd)
                             + ' (tlsconnection.py "Create the session object" tests certAllSuites/ecdheEcdsaSuites, not dheDsaSuites)')
        if res['model_ok'] and good:
            lits = [obs_lit(r) for r in good]
            bads, errs = vlib.coq_bad_indices('C20l', ['Spec.Iana', 'Model.C20_Live'], 'obs', LIVE_CHECKS, lits,
                                              shard=max(8, (len(lits) + 15) // 16))
            ctx.count('live-vs-parsed-name(vm_compute)', len(lits) * len(LIVE_CHECKS), [('cases', len(lits))])
            for e in errs:
                tie_broken = tie_broken or ('live case evaluation failed: ' + e[:300])
            for chk, bad in zip(LIVE_CHECKS, bads):
                for i in bad:
                    r = good[i]
                    key = (MAC_KEY % r['sid']) if chk == 'chk_names_mac' else 'live-%s:0x%04x' % (chk[4:], r['sid'])
                    found = ctx.violation(key, 'live handshake 0x%04X %s at (3,%d) [%s]: %s disagrees with the IANA name (getMacName=%r, '
                                  'getCipherName=%r, wire=%s, factory=%s, prf=%s)'
                                  % (r['sid'], iana.name_of(r['sid']), r['ver'], r['cfg'], chk, r['cli']['sess_mac'],
                                     r['cli']['sess_cipher'], r['wire'], r['fact'], r['prfs'] or r['hkdf']),
                                  {'kind': 'live', 'check': chk, 'case': brief(r),
                                   'how': './check C20 --replay <this file> reruns the handshake and prints the observations'}) or found
        elif not res['model_ok']:
            tie_broken = tie_broken or ('model does not compile: %s' % res['failing'])
    ctx.cov['rule'] = ('exhaustive: every suite id x version the tables call negotiable is checked by the direct oracle and '
                       'handshaken live in two configurations (client pinned to the version / server pinned), every other '
                       'id x version with a registered meaning is offered live and must fail; distinct = (key exchange, '
                       'authentication, cipher, key bytes, MAC, PRF, version[, configuration])')
    if tie_broken and not found:
        ctx.violation('tie-broken', tie_broken, {'correspondence': 'Gen/Suites.v / live handshakes vs tlslite', 'detail': tie_broken},
                      found_input=False)
        found = True
    vlib.broken_proof_verdict(ctx, res, found)


def replay(ctx, path):
    with open(path) as f:
        r = json.load(f)
    if r.get('kind') == 'live':
        c = r['case']
        out = c20_live.run_case({'sid': c['sid'], 'ver': (3, c['ver']), 'cfg': c['cfg'], 'seed': r.get('seed', 0)})
        print(json.dumps(brief(out), indent=1, default=str))
        m = iana.meaning(c['sid'])
        print('meaning of %s: %s' % (iana.name_of(c['sid']), m))
        okm = out['ok'] and iana.mac_name_agrees(m, out['cli']['sess_mac']) and out['cli']['sess_cipher'] == iana.lib_cipher_name(m)
        return 0 if okm else 1
    d = units_suites.collect()
    viols, _ = py_oracle(d)
    hits = [v for v in viols if v[0] == r.get('key')]
    for k, w, _ in hits:
        print('still fails: [%s] %s' % (k, w))
    if not hits:
        print('no longer fails: %s' % r.get('key'))
    return 1 if hits else 0
