"""C20: negotiated cipher-suite semantics match the suite's registered (IANA) meaning.

Tie 1 (translator): coq/Gen/Suites.v is regenerated from $VERIF_REPO on every run by
translator/units_suites.py: every CipherSuite.*Suites list and the values of the real
classification functions on every known suite id x version.  Theorems (coq/Props/C20.v) compare
them with the meaning parsed from an independently written registry (coq/Spec/Iana.v), on the
whole finite domain, by vm_compute.
Tie 2 (correspondence): a live handshake for every negotiable suite x version x two
configurations (and every non-negotiable suite x version, which must fail); wire bytes, record
layer objects and primitive calls are compared with the parsed meaning inside Coq
(coq/Model/C20_Live.v).
Search: a direct Python oracle (harness/c20_iana.py, twin of Spec/Iana.v) over the same values."""
import json
import multiprocessing
import os
import sys

import vlib
from vlib import zlit, boollit, listlit, optlit

sys.path.insert(0, os.path.join(vlib.ROOT, 'translator'))
import units  # noqa: E402
import units_suites  # noqa: E402
import c20_iana as iana  # noqa: E402
import c20_live  # noqa: E402

def coq_bad_indices(*a, **kw):
    """vlib.coq_bad_indices, retried once when a coqc worker was killed from outside (shared, loaded machine)"""
    r = vlib.coq_bad_indices(*a, **kw)
    if r[1] and any(('rc=-9' in e or 'rc=137' in e or 'rc=-15' in e or 'rc=143' in e) for e in r[1]):
        r = vlib.coq_bad_indices(*a, **kw)
    return r


LEVEL = 'proof'
META = {
    'text': 'Coq theorems (Props/C20.v), exhaustive over every suite id the library knows x versions (3,0)..(3,4), about '
            'tables regenerated from tlslite on every run (all CipherSuite.*Suites lists; the values of '
            '_getCipherSettings, _getMacSettings, canonicalCipherName/MacName, the PRF calc_key applies for every label, '
            'the exporter, the TLS 1.3 key-schedule hash, the TLS 1.3 KeyUpdate derivation in all four role wrappers, '
            'filterForVersion and the get*Suites filters as the handshake combines them): key '
            'length, IV, cipher, MAC/tag, PRF, key-exchange class, version range and accessor names equal the meaning '
            'parsed from an independently written IANA registry, membership in each *Suites list equals its stated '
            'meaning, and the cipher/MAC/key-exchange/version lists partition the negotiable suites (all full; the MAC '
            'statements were refuted at 0x00A3 until that was fixed in /repo). Every suite with a registered meaning x version is '
            'offered live (two configurations, plus clients restricted by each single settings word): every ServerHello on '
            'the wire is judged, completed handshakes are compared with the parsed meaning inside Coq (and by a Python twin) '
            'including, for TLS 1.3, a KeyUpdate each way checked against an independent hashlib/hmac HKDF chain and '
            'wire-level decryption, post-handshake authentication, PSK resumption and the exporter; TLS<=1.2 resumption by '
            'session ID and ticket incl. a server answering with another suite and a client offering only another suite; '
            'TLS 1.3 external PSKs of one or both hashes in both orders; negative authentication per suite (wrong signing/decryption '
            'key, empty signature, wrong SRP password/verifier, wrong PSK) must be rejected; non-negotiable pairs must fail. The live stage runs even when the translator refuses or the proof breaks.',
    'note': 'Trusted: Coq kernel + vm_compute; Spec/Iana.v (my transcription of the registry and naming conventions; '
            'cross-checked against CipherSuite.ietfNames and a Python twin); translator/units_suites.py (calls the real '
            'functions; the candidate-list composition and the key-exchange dispatch of tlsconnection.py are read from its ast '
            'and additionally tied by the live handshakes); all-permissive '
            'HandshakeSettings; SSLv2 cipher kinds and static (EC)DH suites are never negotiable and only checked as such.',
    'technique': 'Rocq/Coq proof (exhaustive finite domain, vm_compute) over regenerated tables + live-handshake correspondence',
}
VERSIONS = [(3, 0), (3, 1), (3, 2), (3, 3), (3, 4)]
MODEL_TARGETS = ['Gen/Suites.vo', 'Spec/Iana.vo', 'Model/C20_Classify.vo', 'Model/C20_Live.vo']
MAC_KEY = 'mac-classification:0x%04x'


# ------------------------------------------------------------------------------------------
# direct oracle: the property on the implementation's own values, in Python
def is_cipher(c, k):
    return lambda m: m['cipher'] == c and m['keylen'] == k


def is_kx(k, a):
    return lambda m: m['kx'] == k and m['auth'] == a


LIST_SEM = {
    'aes128Suites': is_cipher('AES_CBC', 16), 'aes256Suites': is_cipher('AES_CBC', 32),
    'aes128GcmSuites': is_cipher('AES_GCM', 16), 'aes256GcmSuites': is_cipher('AES_GCM', 32),
    'aes128CcmSuites': is_cipher('AES_CCM', 16), 'aes256CcmSuites': is_cipher('AES_CCM', 32),
    'aes128Ccm_8Suites': is_cipher('AES_CCM_8', 16), 'aes256Ccm_8Suites': is_cipher('AES_CCM_8', 32),
    'chacha20Suites': lambda m: m['cipher'] == 'CHACHA20' and not m['draft'],
    'chacha20draft00Suites': lambda m: m['cipher'] == 'CHACHA20' and m['draft'],
    'tripleDESSuites': is_cipher('3DES', 24), 'rc4Suites': is_cipher('RC4', 16), 'nullSuites': is_cipher('NULL', 0),
    'shaSuites': lambda m: m['mac'] == 'SHA', 'sha256Suites': lambda m: m['mac'] == 'SHA256',
    'sha384Suites': lambda m: m['mac'] == 'SHA384', 'md5Suites': lambda m: m['mac'] == 'MD5',
    'aeadSuites': lambda m: m['mac'] == 'AEAD', 'streamSuites': lambda m: m['kind'] == 'stream',
    'ssl3Suites': lambda m: m['minv'] == (3, 0), 'tls12Suites': lambda m: m['minv'] == (3, 3),
    'tls13Suites': lambda m: m['kx'] == 'TLS13',
    'sha384PrfSuites': lambda m: m['prf'] == 'SHA384',
    'sha256PrfSuites': lambda m: m['minv'] >= (3, 3) and m['prf'] != 'SHA384',
    'certSuites': is_kx('RSA', 'RSA'), 'dheCertSuites': is_kx('DHE', 'RSA'), 'dheDsaSuites': is_kx('DHE', 'DSS'),
    'ecdheCertSuites': is_kx('ECDHE', 'RSA'), 'ecdheEcdsaSuites': is_kx('ECDHE', 'ECDSA'),
    'anonSuites': is_kx('DHE', 'anon'), 'ecdhAnonSuites': is_kx('ECDHE', 'anon'),
    'srpSuites': is_kx('SRP', 'SRP'), 'srpCertSuites': is_kx('SRP', 'RSA'), 'srpDsaSuites': is_kx('SRP', 'DSS'),
    'srpAllSuites': lambda m: m['kx'] == 'SRP', 'dhAllSuites': lambda m: m['kx'] == 'DHE',
    'ecdhAllSuites': lambda m: m['kx'] == 'ECDHE', 'certAllSuites': lambda m: m['auth'] == 'RSA',
}
MAC_LISTS = ('shaSuites', 'sha256Suites', 'sha384Suites', 'md5Suites', 'aeadSuites')
FACTORY = {'NULL': 'None', 'RC4': 'createRC4', '3DES': 'createTripleDES', 'AES_CBC': 'createAES',
           'AES_GCM': 'createAESGCM', 'AES_CCM': 'createAESCCM', 'AES_CCM_8': 'createAESCCM_8',
           'CHACHA20': 'createCHACHA20'}
DIGEST = {'AEAD': None, 'MD5': 'md5', 'SHA': 'sha1', 'SHA256': 'sha256', 'SHA384': 'sha384'}


def negotiable_pairs(d):
    neg = set()
    for per in d['srv'].values():
        for vi, l in enumerate(per):
            neg.update((s, vi) for s in l)
    for per_max in d['cli'].values():
        for per_v in per_max:
            for vi, l in enumerate(per_v):
                neg.update((s, vi) for s in l)
    return neg


def py_oracle(d):
    """-> list of (key, what, replay).  d = units_suites.collect(): the implementation's values."""
    out = []
    neg = negotiable_pairs(d)

    def bad(key, sid, vi, what, **kw):
        r = {'kind': 'direct', 'sid': sid, 'ver': [3, vi], 'name': iana.name_of(sid)}
        r.update(kw)
        out.append((key, '0x%04X %s at (3,%d): %s' % (sid, iana.name_of(sid), vi, what), r))
    for (sid, vi) in sorted(neg):
        m = iana.meaning(sid)
        v = (3, vi)
        if m is None:
            bad('no-registered-meaning:0x%04x' % sid, sid, vi, 'negotiable but the id has no cipher-suite meaning in the registry')
            continue
        r = d['rows'][sid]
        if not iana.defined_in(m, v):
            bad('undefined-version:0x%04x@3.%d' % (sid, vi), sid, vi,
                'negotiable in a version that does not define it (defined for %s..%s)' % (m['minv'], m['maxv']))
            continue        # what the suite would mean in a version that does not define it is not a question
        cs = r['cipher_settings']
        want = (m['keylen'], FACTORY[m['cipher']])
        if cs is None or (cs[0], cs[2]) != want or (not m['draft'] and cs[1] != m['fixed_iv']):
            bad('cipher-settings:0x%04x' % sid, sid, vi, '_getCipherSettings gives %r, the name denotes key=%d iv=%d %s'
                % (cs, m['keylen'], m['fixed_iv'], want[1]), fn='_getCipherSettings')
        ms = r['mac_settings']
        if ms != (m['maclen'], DIGEST[m['mac']]):
            bad('mac-settings:0x%04x' % sid, sid, vi, '_getMacSettings gives %r, the name denotes %r'
                % (ms, (m['maclen'], DIGEST[m['mac']])), fn='_getMacSettings')
        if vi <= 3:
            if r['calc_key_prf'][vi] != iana.prf_at(m, v):
                bad('prf:0x%04x@3.%d' % (sid, vi), sid, vi, 'calc_key applies %r, the name denotes %r'
                    % (r['calc_key_prf'][vi], iana.prf_at(m, v)), fn='calc_key')
        else:
            t = r['tls13']
            encname = None if m['cipher'] == 'NULL' else ('chacha20-poly1305' if m['cipher'] == 'CHACHA20' else iana.lib_cipher_name(m))
            want13 = (iana.prf_at(m, v), m['keylen'], encname, m['tag'], 12)
            if t != want13 or r['prf_params'] != (iana.prf_at(m, v), iana.HASHLEN[iana.prf_at(m, v).upper()]):
                bad('tls13-keys:0x%04x' % sid, sid, vi, 'TLS 1.3 pending state %r / _getPRFParams %r, the name denotes %r'
                    % (t, r['prf_params'], want13), fn='calcTLS1_3PendingState')
        want_h = iana.prf_at(m, v)
        if vi <= 3:
            for li, lb in enumerate(('key expansion', 'master secret', 'extended master secret', 'client finished', 'server finished')):
                if vi == 0 and li == 2:
                    continue
                if r['labels'][vi][li] != want_h:
                    bad('prf:%s:0x%04x@3.%d' % (lb.replace(' ', '-'), sid, vi), sid, vi,
                        'calc_key(label=%r) applies %r, the name denotes %r' % (lb, r['labels'][vi][li], want_h), fn='calc_key')
        if vi >= 1 and r['exporter'][vi - 1] != want_h:
            bad('exporter:0x%04x@3.%d' % (sid, vi), sid, vi, 'keyingMaterialExporter uses %r, the name denotes %r'
                % (r['exporter'][vi - 1], want_h), fn='keyingMaterialExporter')
        if vi == 3:
            for fn_, k in r['deprecated']:
                if k != want_h:
                    bad('prf:%s:0x%04x' % (fn_, sid), sid, vi, 'mathtls.%s uses %r, the name denotes %r' % (fn_, k, want_h), fn=fn_)
        if vi == 4:
            ku = r['keyupdate']
            hl = iana.HASHLEN[want_h.upper()]
            encname = 'chacha20-poly1305' if m['cipher'] == 'CHACHA20' else iana.lib_cipher_name(m)
            wantku = ((want_h, hl, want_h, m['keylen'], want_h, 12, encname, m['tag']), [want_h] * 4)
            if ku is None or (tuple(ku[0]), list(ku[1])) != wantku:
                bad('keyupdate:0x%04x' % sid, sid, vi,
                    'RecordLayer._calcTLS1_3KeyUpdate / calcTLS1_3KeyUpdate_sender/_reciever derive (secret hash, len, key hash, '
                    'len, iv hash, len, cipher, tag), roles = %r; the name denotes %r' % (ku, wantku), fn='_calcTLS1_3KeyUpdate')
        if m['kx'] == 'TLS13':
            fit = [True] * 6
        elif m['auth'] == 'RSA':
            fit = [True, m['kx'] != 'RSA', False, False, False, False]
        elif m['auth'] == 'ECDSA':
            fit = [False, False, True, True, False, False]
        elif m['auth'] == 'DSS':
            fit = [False, False, False, False, True, False]
        else:
            fit = [False, False, False, False, False, True]
        if r['filter_cert'] != fit:
            bad('filter-for-certificate:0x%04x' % sid, sid, vi, 'filter_for_certificate admits the suite for server certificates '
                '[rsa, rsa-pss, ecdsa, Ed25519, dsa, none] = %r, the name denotes %r' % (r['filter_cert'], fit), fn='filter_for_certificate')
        if r['canon_cipher'] != iana.lib_cipher_name(m):
            bad('cipher-name:0x%04x' % sid, sid, vi, 'canonicalCipherName/getCipherName() = %r, the name denotes %r'
                % (r['canon_cipher'], iana.lib_cipher_name(m)), fn='canonicalCipherName')
        if not iana.mac_name_agrees(m, r['canon_mac']):
            bad(MAC_KEY % sid, sid, vi, 'canonicalMacName/getMacName() = %r but the suite is %s'
                % (r['canon_mac'], 'AEAD (no HMAC)' if m['mac'] == 'AEAD' else 'HMAC-' + m['mac']), fn='canonicalMacName')
        for ln, members in d['lists'].items():
            sem = LIST_SEM.get(ln)
            if sem is None:
                continue
            if (sid in members) != bool(sem(m)):
                key = (MAC_KEY % sid) if ln in MAC_LISTS else 'list-membership:%s:0x%04x' % (ln, sid)
                bad(key, sid, vi, '%s in CipherSuite.%s although the name says otherwise'
                    % ('is' if sid in members else 'is not', ln), fn='list:' + ln)
        for table, word_of, kind in ((d['by_cipher'], lambda: iana.lib_cipher_name(m), 'cipherNames'),
                                     (d['by_mac'], lambda: 'aead' if m['mac'] == 'AEAD' else iana.lib_mac_name(m), 'macNames'),
                                     (d['by_kx'], lambda: iana.lib_kx_name(m), 'keyExchangeNames')):
            if kind == 'keyExchangeNames' and m['kx'] == 'TLS13':
                continue
            for w, per in table.items():
                if (sid in per[vi]) != (word_of() == w):
                    key = (MAC_KEY % sid) if kind == 'macNames' else 'settings-word:%s=%s:0x%04x' % (kind, w, sid)
                    bad(key, sid, vi, 'settings.%s=[%r] %s the suite' % (kind, w, 'admits' if sid in per[vi] else 'excludes'),
                        fn='_filterSuites', word=[kind, w])
    # filterForVersion on every known id
    for sid in d['all']:
        m = iana.meaning(sid)
        for vi in range(5):
            if d['rows'][sid]['ffv'][vi] and (m is None or not iana.defined_in(m, (3, vi))):
                bad('filterForVersion:0x%04x@3.%d' % (sid, vi), sid, vi, 'filterForVersion keeps the suite in a version that does not define it',
                    fn='filterForVersion')
    unknown = [k for k in d['lists'] if k not in LIST_SEM]
    return out, unknown


RECORD_LAYER_LISTS = ['aes128Suites', 'aes256Suites', 'aes128GcmSuites', 'aes256GcmSuites', 'aes128CcmSuites',
                      'aes256CcmSuites', 'aes128Ccm_8Suites', 'aes256Ccm_8Suites', 'chacha20Suites', 'chacha20draft00Suites',
                      'tripleDESSuites', 'rc4Suites', 'nullSuites', 'shaSuites', 'sha256Suites', 'sha384Suites', 'md5Suites',
                      'aeadSuites', 'streamSuites', 'sha384PrfSuites', 'sha256PrfSuites', 'ssl3Suites', 'tls12Suites', 'tls13Suites']
CIPHER_LISTS, VERSION_LISTS = RECORD_LAYER_LISTS[:13], RECORD_LAYER_LISTS[-3:]


def static_defects(d):
    """beyond the property: EVERY known id with a registered meaning (negotiable or not) whose record-layer
    settings, accessor names or membership in the lists the record layer / key derivation / version filter
    consult deviate from its name.  -> {sid: [reasons]}  (twin of Model/C20_Classify.v chk_static)"""
    out = {}
    for sid in d['all']:
        m = iana.meaning(sid)
        if m is None:
            continue
        r, why = d['rows'][sid], []
        cs = r['cipher_settings']
        if cs is None or (cs[0], cs[2]) != (m['keylen'], FACTORY[m['cipher']]) or (not m['draft'] and cs[1] != m['fixed_iv']):
            why.append('_getCipherSettings %s' % ('raises' if cs is None else 'gives %r' % (cs,)))
        if r['mac_settings'] != (m['maclen'], DIGEST[m['mac']]):
            why.append('_getMacSettings %s' % ('raises AssertionError' if r['mac_settings'] is None else 'gives %r' % (r['mac_settings'],)))
        if r['canon_cipher'] != iana.lib_cipher_name(m):
            why.append('canonicalCipherName = %r' % r['canon_cipher'])
        if not iana.mac_name_agrees(m, r['canon_mac']):
            why.append('canonicalMacName = %r' % r['canon_mac'])
        for ln in RECORD_LAYER_LISTS:
            if ln in d['lists'] and (sid in d['lists'][ln]) != bool(LIST_SEM[ln](m)):
                why.append('%s %s' % ('in' if sid in d['lists'][ln] else 'not in', ln))
        for nm, group in (('cipher', CIPHER_LISTS), ('MAC', MAC_LISTS), ('version', VERSION_LISTS)):
            k = sum(1 for ln in group if sid in d['lists'].get(ln, ()))
            if k != 1:
                why.append('in %d %s lists' % (k, nm))
        if why:
            out[sid] = why
    return out


# ------------------------------------------------------------------------------------------
def ostr(x):
    return optlit(x, vlib.strlit)


def side_lit(s):
    return ('{| sd_suite := %s; sd_ver := %s; sd_conn_cipher := %s; sd_sess_cipher := %s; sd_sess_mac := %s; '
            'sd_aead := %s; sd_tag := %s; sd_mac_ds := %s; sd_nonce := %s; sd_etm := %s; sd_srv_cert := %s |}' % (
                zlit(s['suite']), zlit(s['ver']), ostr(s['conn_cipher']), ostr(s['sess_cipher']), ostr(s['sess_mac']),
                boollit(s['enc_aead']), zlit(s['enc_tag']), zlit(s['mac_ds']), zlit(s['nonce']), boollit(s['etm']),
                ostr(s['srv_cert'])))


def obs_lit(r):
    w = r['wire']
    return ('{| o_sid := %s; o_ver := %s; o_sh_suite := %s; o_sh_ver := %s; o_wire_cert := %s; o_wire_kx := %s; '
            'o_ske_signed := %s; o_sigalg := %s; o_cli := %s; o_srv := %s; o_fact := %s; o_prfs := %s; o_hkdf := %s; '
            'o_n := %s; o_c2s := %s; o_s2c := %s; o_exp_same := %s; o_exp_kind := %s; o_post := %s; o_resumed := %s |}' % (
                zlit(r['sid']), zlit(r['ver']), zlit(w['sh_suite']), zlit(w['sh_ver']), ostr(w['wire_cert']),
                vlib.strlit(w['wire_kx']), boollit(w['ske_signed']), vlib.strlit(w['sigalg']),
                side_lit(r['cli']), side_lit(r['srv']),
                listlit(r['fact'], lambda f: '(%s, %s, %s)' % (vlib.strlit(f[0]), zlit(f[1]), zlit(f[2]))),
                listlit(r['prfs'], vlib.strlit), listlit(r['hkdf'], vlib.strlit),
                zlit(r['n']), listlit(r['c2s'], zlit), listlit(r['s2c'], zlit),
                boollit((r.get('exporter') or {}).get('same', False)), vlib.strlit((r.get('exporter') or {}).get('kind', '')),
                optlit(r.get('post'), post_lit), boollit(is_resumed(r))))


def is_resumed(r):
    return bool((r.get('resume') or {}).get('resumed', [False])[0])


def psk_lit(r):
    k = r['psk']
    return '{| k_suite := %s; k_configured := %s; k_selected := %s; k_srv := %s; k_cli := %s |}' % (
        zlit(r['wire']['sh_suite']), listlit(r['psks'], vlib.strlit), optlit(k.get('selected'), zlit),
        listlit(k['srv'], vlib.strlit), listlit(k['cli'], vlib.strlit))


def py_psk(r):
    """twin of chk_pskobs: reasons why a TLS 1.3 external-PSK handshake disagrees with the suite's name"""
    m = iana.meaning(r['wire']['sh_suite'])
    if m is None:
        return ['no meaning']
    h, k, why = iana.prf_at(m, (3, 4)), r['psk'], []
    i = k.get('selected')
    if i is not None and (i >= len(r['psks']) or r['psks'][i] != h):
        why.append('ServerHello selects PSK identity %d, provisioned for %s' % (i, r['psks'][i] if i < len(r['psks']) else '?'))
    if k['srv'] != [h]:
        why.append('server key schedule/binder check used %s' % k['srv'])
    if k['cli'] != [h]:
        why.append('client key schedule used %s' % k['cli'])
    return why


def post_ok_flags(p):
    rs = p.get('resume') or {}
    agree = bool(p.get('agree0') and p.get('agree_client') and p.get('agree_server') and p.get('flows') and p.get('wire_open'))
    resume = bool(rs.get('ok') and rs.get('psk') and rs.get('flows') and rs.get('suite') == p.get('_sid'))
    return agree, bool(p.get('pha')), resume


def post_lit(p):
    agree, pha, resume = post_ok_flags(p)
    return '{| p_agree := %s; p_steps := %s; p_lens := %s; p_pha := %s; p_resume := %s |}' % (
        boollit(agree), listlit(p.get('steps', []), vlib.strlit), listlit(p.get('lens', []), zlit), boollit(pha), boollit(resume))


# ------------------------------------------------------------------------------------------
# Python twin of Model/C20_Live.v (used when Coq cannot evaluate, and cross-checked against it otherwise)
PRF_FN = {'ssl3': 'PRF_SSL', 'md5sha1': 'PRF', 'sha256': 'PRF_1_2', 'sha384': 'PRF_1_2_SHA384'}


def sizes_ok(m, v, etm, n, lens):
    k, total = len(lens), sum(lens)
    if v == 4:
        eiv = 0
    elif m['kind'] == 'stream':
        eiv = 0
    elif m['kind'] == 'cbc':
        eiv = m['block'] if v >= 2 else 0
    else:
        eiv = 0 if m['cipher'] == 'CHACHA20' else 8
    if m['kind'] == 'stream':
        return total == n + k * m['maclen']
    if m['kind'] == 'aead':
        return total == n + k * (eiv + m['tag'] + (1 if v == 4 else 0))
    bs, fixed = m['block'], eiv + m['maclen']
    return all((l - eiv - (m['maclen'] if etm else 0)) % bs == 0 for l in lens) and \
        n + k * (fixed + 1) <= total <= n + k * (fixed + bs)


def py_live(r):
    """names of the checks of Model/C20_Live.v that fail on observation r"""
    m = iana.meaning(r['sid'])
    if m is None:
        return ['no-meaning']
    v, w, bad = r['ver'], r['wire'], []
    cert = {'RSA': 'rsa', 'DSS': 'dsa', 'ECDSA': 'ecdsa'}.get(m['auth'])
    enc = None if m['cipher'] == 'NULL' else ('chacha20-poly1305' if m['cipher'] == 'CHACHA20' else iana.lib_cipher_name(m))
    if not (w['sh_suite'] == r['sid'] and w['sh_ver'] == v and all(r[s]['suite'] == r['sid'] and r[s]['ver'] == v for s in ('cli', 'srv'))):
        bad.append('chk_ids')
    if not iana.defined_in(m, (3, w['sh_ver'])):
        bad.append('chk_live_version')
    kxw = {'RSA': 'rsa', 'DHE': 'dhe', 'ECDHE': 'ecdhe', 'SRP': 'srp', 'TLS13': 'tls13'}.get(m['kx'], 'static')
    signed = m['kx'] not in ('RSA', 'TLS13') and m['auth'] not in ('anon', 'SRP')
    if is_resumed(r):
        if w['wire_kx'] != 'resumed':
            bad.append('chk_kx')
    elif not (w['wire_kx'] == kxw and (v == 4 or (w['ske_signed'] == signed and w['wire_cert'] == cert
                                                 and r['cli']['srv_cert'] == cert and w['sigalg'] in ('', cert)))):
        bad.append('chk_kx')
    okc = True
    for sd in ('cli', 'srv'):
        x = r[sd]
        okc = okc and x['enc_aead'] == (m['kind'] == 'aead') and x['enc_tag'] == m['tag'] and x['conn_cipher'] == enc
        if m['kind'] == 'aead':
            okc = okc and (m['draft'] or x['nonce'] == iana.fixed_iv_at(m, (3, v)))
        else:
            okc = okc and x['nonce'] == 0
    fact = [tuple(f) for f in r['fact']]
    if m['cipher'] == 'NULL':
        okc = okc and fact == []
    else:
        okc = okc and fact == [(FACTORY[m['cipher']], m['keylen'], -1 if m['kind'] == 'aead' else m['fixed_iv'])]
    if not okc:
        bad.append('chk_cipher')
    if not all(r[sd]['mac_ds'] == m['maclen'] for sd in ('cli', 'srv')):
        bad.append('chk_mac')
    h = iana.prf_at(m, (3, v))
    if not ((r['prfs'] == [] and r['hkdf'] == [h]) if v == 4 else (r['prfs'] == [PRF_FN[h]] and r['hkdf'] == [])):
        bad.append('chk_prf')
    if not all(r[sd]['sess_cipher'] == iana.lib_cipher_name(m) for sd in ('cli', 'srv')):
        bad.append('chk_names_cipher')
    if not all(iana.mac_name_agrees(m, r[sd]['sess_mac']) for sd in ('cli', 'srv')):
        bad.append('chk_names_mac')
    if not (r['c2s'] and r['s2c'] and sizes_ok(m, v, r['cli']['etm'], r['n'], r['c2s'])
            and sizes_ok(m, v, r['srv']['etm'], r['n'], r['s2c'])):
        bad.append('chk_sizes')
    if v >= 1:
        e = r.get('exporter') or {}
        if not (e.get('same') and e.get('kind') == h):
            bad.append('chk_exporter')
    if v == 4:
        p = r.get('post')
        if p is None:
            bad.append('chk_post')
        else:
            agree, pha, resume = post_ok_flags(p)
            if not (agree and pha and resume and p.get('steps') == [h] * 4 and p.get('lens') == [iana.HASHLEN[h.upper()]] * 6):
                bad.append('chk_post')
    return bad


LIVE_CHECKS = ['chk_ids', 'chk_live_version', 'chk_kx', 'chk_cipher', 'chk_mac', 'chk_prf', 'chk_names_cipher',
               'chk_names_mac', 'chk_sizes', 'chk_exporter', 'chk_post']


def meaning_codes(m):
    return [iana.KX[m['kx']], iana.AUTH[m['auth']], iana.CIPH[m['cipher']], m['keylen'],
            {'stream': 0, 'cbc': 1, 'aead': 2}[m['kind']], m['block'], m['tag'], m['fixed_iv'], iana.MAC[m['mac']],
            m['maclen'], iana.PRF[m['prf']], m['minv'][1], m['maxv'][1], 1 if m['draft'] else 0]


def brief(r):
    keep = {k: r.get(k) for k in ('sid', 'ver', 'cfg', 'ok', 'outcome', 'wire', 'cli', 'srv', 'fact', 'prfs', 'hkdf',
                                  'c2s', 's2c', 'n', 'error', 'variant', 'exporter', 'post', 'words', 'cred', 'asked',
                                  'resume', 'psk', 'psks', 'case', 'negauth', 'completed', 'sig_emptied', 'client_view', 'multi')}
    return keep


WORD_FIELDS = (('cipherNames', ['chacha20-poly1305', 'aes256gcm', 'aes128gcm', 'aes256ccm', 'aes128ccm', 'aes256',
                                 'aes128', '3des', 'chacha20-poly1305_draft00', 'aes128ccm_8', 'aes256ccm_8', 'rc4', 'null']),
               ('macNames', ['sha', 'sha256', 'sha384', 'aead', 'md5']),
               ('keyExchangeNames', ['ecdhe_ecdsa', 'rsa', 'dhe_rsa', 'ecdhe_rsa', 'srp_sha', 'srp_sha_rsa', 'ecdh_anon',
                                     'dh_anon', 'dhe_dsa']))


def live_cases(ctx, d, quick):
    """All (suite with a registered meaning) x version x configuration, from the registry alone; the generated
    tables (when there are any) only say which of them are expected to complete."""
    ids = sorted(s for s in (set(iana.REGISTRY) | set(iana.UNREGISTERED) | set(d['all'] if d else ())) if iana.meaning(s))
    negset = negotiable_pairs(d) if d else None
    cases = []
    for sid in ids:
        for vi in range(5):
            exp = None if negset is None else ((sid, vi) in negset)
            for cfg in c20_live.CFGS:
                cases.append({'sid': sid, 'ver': (3, vi), 'cfg': cfg, 'expect': exp, 'seed': ctx.rng.randrange(1 << 30)})
            if not quick and exp:   # more dimensions: other TLS 1.3 credentials, MAC-then-encrypt, payloads 1 byte .. 2 records
                if vi == 4:
                    for cred in ('ecdsa', 'ed25519', 'rsapss'):
                        for cfg in c20_live.CFGS:
                            cases.append({'sid': sid, 'ver': (3, vi), 'cfg': cfg, 'cred13': cred, 'variant': 'cred13=' + cred,
                                          'expect': exp, 'seed': ctx.rng.randrange(1 << 30)})
                cases.append({'sid': sid, 'ver': (3, vi), 'cfg': 'client-pinned', 'variant': 'etm-off,n=1', 'etm': False,
                              'n': 1, 'expect': exp, 'seed': ctx.rng.randrange(1 << 30)})
                cases.append({'sid': sid, 'ver': (3, vi), 'cfg': 'server-pinned', 'variant': 'etm-off,n=1000', 'etm': False,
                              'n': 1000, 'expect': exp, 'seed': ctx.rng.randrange(1 << 30)})
                cases.append({'sid': sid, 'ver': (3, vi), 'cfg': 'client-pinned', 'variant': 'n=20000', 'n': 20000,
                              'expect': exp, 'seed': ctx.rng.randrange(1 << 30)})
    # TLS <= 1.2 resumption of every negotiable pair: honest by session ID and by ticket; a server that answers with
    # another offered suite (its cache entry rewritten); a client that offers the session but only another suite
    for sid in ids:
        m = iana.meaning(sid)
        if m['kx'] not in ('RSA', 'DHE', 'ECDHE', 'SRP'):
            continue
        for vi in range(4):
            exp = None if negset is None else ((sid, vi) in negset)
            if exp is False or not iana.defined_in(m, (3, vi)):
                continue
            alts = [x for x in ids if x != sid and (iana.meaning(x)['kx'], iana.meaning(x)['auth']) == (m['kx'], m['auth'])
                    and iana.defined_in(iana.meaning(x), (3, vi)) and (negset is None or (x, vi) in negset)]
            alts.sort(key=lambda x: ((iana.meaning(x)['cipher'], iana.meaning(x)['keylen']) == (m['cipher'], m['keylen']), x))
            alt = alts[0] if alts else None
            for mode in ('sid', 'ticket') + (('srv-deviates', 'cli-deviates') if alt is not None else ()):
                cases.append({'sid': sid, 'ver': (3, vi), 'cfg': 'client-pinned', 'resume': mode, 'alt': alt, 'expect': exp,
                              'seed': ctx.rng.randrange(1 << 30)})
    # negative authentication: the peer satisfies everything except the one authentication the NAME denotes
    for sid in ids:
        m = iana.meaning(sid)
        cert = m['auth'] in ('RSA', 'DSS', 'ECDSA')
        if m['kx'] == 'RSA':
            variants = ['wrong-key', 'other-cert-type']
        elif m['kx'] in ('DHE', 'ECDHE') and cert:
            variants = ['wrong-key', 'empty-sig', 'other-cert-type']
        elif m['kx'] == 'SRP':
            variants = (['wrong-key', 'empty-sig', 'other-cert-type'] if cert else []) + ['wrong-password', 'wrong-verifier']
        elif m['kx'] == 'TLS13':
            variants = ['wrong-key', 'empty-sig', 'wrong-psk']
        else:
            continue            # anonymous: nothing is authenticated; static (EC)DH: not negotiable
        for vi in range(5):
            exp = None if negset is None else ((sid, vi) in negset)
            if exp is False or not iana.defined_in(m, (3, vi)):
                continue
            for var in variants:
                cases.append({'sid': sid, 'ver': (3, vi), 'cfg': 'client-pinned', 'negauth': var, 'post': False, 'expect': exp,
                              'seed': ctx.rng.randrange(1 << 30)})
    # TLS 1.3 with externally provisioned PSKs bound to one hash or to both, in both orders, with and without a certificate
    for sid in ids:
        if iana.meaning(sid)['kx'] != 'TLS13':
            continue
        for psks in (['sha256'], ['sha384'], ['sha256', 'sha384'], ['sha384', 'sha256']):
            for cert in (True, False):
                cases.append({'sid': sid, 'ver': (3, 4), 'cfg': 'client-pinned', 'psks': psks, 'cert': cert, 'post': False,
                              'expect': None, 'seed': ctx.rng.randrange(1 << 30)})
    # servers with several key pairs (primary + settings.virtual_hosts), every ordered pair of key types, the primary made
    # unusable for each reason; and the same with a server that picks the suite for the primary but sends the alternative
    # pair (the client must refuse a certificate whose key type does not fit the suite)
    for vi in ((3, 1) if quick else (3, 2, 1, 0)):
        for pr in ('rsa', 'ecdsa', 'dsa'):
            for al in ('rsa', 'ecdsa', 'dsa'):
                if pr == al:
                    continue
                for skip in ('sigalgs', 'suites'):
                    for dev in (False, True):
                        cases.append({'multi': pr, 'alt_cred': al, 'skip': skip, 'deviate': dev, 'ver': (3, vi), 'expect': None,
                                      'seed': ctx.rng.randrange(1 << 30)})
    # clients restricted by one settings word, every version allowed on both sides, nothing cut from the offer
    for field, words in WORD_FIELDS:
        for w in words:
            for cred in ('rsa', 'ecdsa', 'dsa', 'anon', 'srp'):
                cases.append({'words': (field, w), 'cred': cred, 'expect': None, 'seed': ctx.rng.randrange(1 << 30)})
    return cases


# ------------------------------------------------------------------------------------------
def run(ctx):
    quick = ctx.tier == 'quick'
    found = False
    tie_broken = None
    ok, msg = units.generate('Suites', vlib.COQ)
    ctx.log('translator: %s' % msg)
    if not ok:
        tie_broken = msg
    res = vlib.proof_stage(ctx, 'Props/C20.v', model_targets=MODEL_TARGETS)
    ctx.log('proof stage ok=%s failing=%s' % (res['ok'], res['failing']))
    ctx.cov['trusted_base'] = [
        'Coq 8.16.1 kernel + vm_compute (finite-domain decisions and case evaluation)',
        'Spec/Iana.v: my transcription of the IANA TLS Cipher Suites registry and of the naming conventions '
        '(cross-checked on every run against CipherSuite.ietfNames and the Python twin harness/c20_iana.py)',
        'translator/units_suites.py: imports tlslite from the tree under test and calls the real functions; reads from the '
        'ast of tlsconnection.py how the get*Suites filters are concatenated (scenario flags: credentials present, group '
        'intersections non-empty) and the key-exchange dispatch chains (fail closed on any other shape)',
        'Model/C20_Classify.v expected_srv_action/expected_cli_action: which KeyExchange class a name calls for',
        'harness/c20_live.py wire parser and passive call recorders',
    ]
    ctx.assumptions += ['all-permissive HandshakeSettings (every cipher, MAC and key-exchange word enabled)',
                        'domain: ids in CipherSuite.ietfNames or any CipherSuite.*Suites list x versions (3,0)..(3,4); '
                        'SSLv2 is out of scope (no SSLv2 handshake in TLSConnection)']
    # ---- implementation values + direct oracle (needs no Coq) ----------------------------
    try:
        if os.environ.get('C20_NO_TABLES'):     # validation aid: behave as if the translator had refused
            raise RuntimeError('C20_NO_TABLES set')
        d = units_suites.collect()
    except Exception as e:  # noqa
        d = None
        tie_broken = tie_broken or ('cannot evaluate the classification functions: %r' % (e,))
    if d is not None:
        viols, unknown = py_oracle(d)
        neg = negotiable_pairs(d)
        for (sid, vi) in sorted(neg):
            m = iana.meaning(sid)
            ctx.count('direct-oracle(suite x version)', 1,
                      [(m['kx'], m['auth'], m['cipher'], m['keylen'], m['mac'], m['prf'], vi)] if m else [('nomeaning', sid)],
                      sample={'sid': '0x%04X' % sid, 'ver': [3, vi], 'name': iana.name_of(sid)} if (sid + vi) % 41 == 0 else None)
        ctx.count('filterForVersion(all ids x versions)', len(d['all']) * 5, [('ids', len(d['all']))])
        for key, what, rep in viols:
            rep['how'] = ('PYTHONPATH=$VERIF_REPO: compare the named tlslite function on this suite id with the meaning of '
                          'its IANA name (harness/c20_iana.py); ./check C20 --replay <this file>')
            found = ctx.violation(key, what, rep) or found
        for k in unknown:
            tie_broken = tie_broken or ('CipherSuite.%s has no stated meaning in Model/C20_Classify.v list_semantics' % k)
        ctx.log('direct oracle: %d negotiable pairs, %d deviations' % (len(neg), len(viols)))
        # ---- table defects on ids that cannot be negotiated: recorded, and tied to the Coq evaluation --------
        sd = static_defects(d)
        ctx.count('static-classification(all known ids)', len([x for x in d['all'] if iana.meaning(x)]), [('defects', len(sd))])
        for sid, why in sorted(sd.items()):
            if any((sid, vi) in neg for vi in range(5)):
                continue        # negotiable: already a violation above
            ctx.notes.append('table defect on a never-negotiable id (recorded, not a C20 violation): 0x%04X %s: %s'
                             % (sid, iana.name_of(sid), '; '.join(why)))
        if res['model_ok'] and tie_broken is None:
            import re
            rc, out_ = vlib.coq_eval('C20s', ['Gen.Suites', 'Spec.Iana', 'Model.C20_Classify'], ['static_defects'])
            mm = re.search(r'=\s*\[(.*?)\]\s*:\s*list Z', out_, flags=re.S)
            coq_sd = sorted(int(x) for x in re.findall(r'\d+', mm.group(1))) if (rc == 0 and mm) else None
            if coq_sd != sorted(sd):
                tie_broken = 'static_defects: Coq %r vs Python twin %r' % (coq_sd, sorted(sd))
        # ---- registry cross-checks -----------------------------------------------------------
        for sid in d['all']:
            lib, mine = d['ietf'].get(sid), iana.name_of(sid)
            if lib is None or mine is None:
                if not (lib or '').startswith('SSL_CK_'):
                    ctx.notes.append('id 0x%04X: ietfNames=%r registry=%r' % (sid, lib, mine))
                continue
            if lib != mine:
                if iana.parse_name(lib.replace('_ANON_', '_anon_')) == iana.parse_name(mine) and lib.upper() == mine.upper():
                    if 'case' not in ''.join(ctx.notes):
                        ctx.notes.append('ietfNames spells DH_anon/ECDH_anon as DH_ANON/ECDH_ANON (case only; e.g. %r vs %r)' % (lib, mine))
                else:
                    found = ctx.violation('ietf-name:0x%04x' % sid, 'CipherSuite.ietfNames[0x%04X] = %r but the registered name is %r'
                                          % (sid, lib, mine), {'kind': 'name', 'sid': sid, 'lib': lib, 'registry': mine}) or found
        ctx.notes.append('not in the IANA registry (draft ChaCha20 code points, parsed by the same conventions): '
                         + ', '.join('0x%04X' % s for s in sorted(iana.UNREGISTERED) if s in d['all']))
        ssl3_late = sorted(s for (s, vi) in neg if vi == 0 and (iana.meaning(s) or {}).get('kx') in ('ECDHE', 'SRP'))
        ctx.notes.append('recorded, not raised: %d ECC/SRP suites (RFC 4492/5054 are written for TLS 1.0+) are negotiable '
                         'under SSLv3 with their SSLv3-compatible CBC/stream + HMAC-SHA1 construction; the property asks '
                         'that the version "defines" the suite, which for these suites is a matter of the record/PRF '
                         'construction (identical), so this is treated as library policy' % len(ssl3_late))
    # ---- Coq evaluation: twin registry, then live observations ------------------------------
    if res['model_ok'] and tie_broken is None and d is not None:
        ids = sorted(set(d['all']) | set(iana.REGISTRY) | set(iana.UNREGISTERED))
        lits = []
        for sid in ids:
            m = iana.meaning(sid)
            lits.append('(%d, %s, %s)' % (sid, ostr(iana.name_of(sid)), optlit(None if m is None else meaning_codes(m),
                                                                             lambda c: listlit(c, zlit))))
        badt, errs = coq_bad_indices('C20t', ['Spec.Iana', 'Model.C20_Live'], 'Z * option string * option (list Z)',
                                          'twin_ok', lits, shard=400)
        ctx.count('registry-twin(Coq vs Python)', len(lits), [('ids', len(lits) - len(badt))])
        for e in errs:
            tie_broken = 'twin evaluation failed: ' + e[:300]
        for i in badt[:3]:
            tie_broken = 'Spec/Iana.v and harness/c20_iana.py disagree on id 0x%04X' % ids[i]
    # ---- live stage: independent of the generated tables (they only say what is expected to complete) ----
    cases = live_cases(ctx, d, quick)
    with multiprocessing.Pool(vlib.NPROC) as pool:
        results = pool.map(c20_live.run_case, cases, chunksize=4)
    plain = [c for c in cases if not (c.get('resume') or c.get('psks') or c.get('words') or c.get('negauth') or c.get('multi'))]
    ctx.log('live: %d cases (%d expected to complete, %d expected to fail, %d judged from the registry alone; %d word clients, '
            '%d resumption sequences, %d external-PSK handshakes, %d negative-authentication handshakes)'
            % (len(results), sum(1 for c in plain if c['expect'] is True), sum(1 for c in plain if c['expect'] is False),
               sum(1 for c in plain if c['expect'] is None), sum(1 for c in cases if c.get('words')),
               sum(1 for c in cases if c.get('resume')), sum(1 for c in cases if c.get('psks')),
               sum(1 for c in cases if c.get('negauth'))))
    good = []
    psk_results, resume_notes = [], {}
    for c, r in zip(cases, results):
        r['variant'] = c.get('variant')
        r['asked'] = {'sid': c.get('sid'), 'ver': list(c['ver']) if c.get('ver') else None}
        r['case'] = {k: (list(v) if isinstance(v, tuple) else v) for k, v in c.items() if k != 'expect'}
        w = r.get('wire') or {}
        if c.get('resume') and r.get('resume') is None:
            continue            # the first connection did not complete: the plain case of this pair reports on that
        # (a) whatever ServerHello the server put on the wire, completed handshake or not
        if w.get('sh_suite', -1) >= 0:
            m2 = iana.meaning(w['sh_suite'])
            if m2 is None or not iana.defined_in(m2, (3, w['sh_ver'])):
                found = ctx.violation('undefined-version:0x%04x@3.%d' % (w['sh_suite'], w['sh_ver']),
                                      'the server answered [%s] with a ServerHello of version (3,%d) carrying 0x%04X %s, which that '
                                      'version does not define%s' % (r['cfg'], w['sh_ver'], w['sh_suite'], iana.name_of(w['sh_suite']),
                                                                     '' if r['ok'] else ' (the client then aborted: %s)' % (r.get('outcome') or ['?'])[0]),
                                      {'kind': 'live', 'case': brief(r), 'how': './check C20 --replay <this file>'}) or found
        if c.get('negauth'):
            var = c['negauth']
            ctx.count('live(negative authentication)', 1, [(r['sid'], r['ver'], var, tuple(r.get('completed') or ()))])
            if r.get('error') and not r.get('outcome'):
                tie_broken = tie_broken or ('negative-authentication case %s 0x%04X could not be run: %s' % (var, r['sid'], r['error']))
            elif var == 'empty-sig' and not r.get('sig_emptied'):
                tie_broken = tie_broken or ('0x%04X at (3,%d): no ServerKeyExchange/CertificateVerify passed the server\'s send path '
                                            '(deviation not applied); outcome %s' % (r['sid'], r['ver'], r.get('outcome')))
            elif any(r.get('completed') or ()):
                mm = iana.meaning(r['sid'])
                found = ctx.violation('auth-not-enforced:%s:0x%04x' % (var, r['sid']),
                                      '0x%04X %s at (3,%d): the handshake completed (client %s, server %s) although the peer failed the '
                                      'one authentication the name denotes (%s/%s): %s; client session reports %s'
                                      % (r['sid'], iana.name_of(r['sid']), r['ver'], r['completed'][0], r['completed'][1], mm['kx'], mm['auth'],
                                         {'wrong-key': 'server signs / decrypts with a private key that does not belong to its certificate',
                                          'empty-sig': 'server sends an empty %s signature' % r.get('sig_emptied'),
                                          'wrong-password': 'SRP client uses a wrong password',
                                          'wrong-verifier': 'SRP server holds the verifier of another password',
                                          'wrong-psk': 'server holds another secret for the PSK identity, no certificate',
                                          'other-cert-type': 'server holds a certificate and key of another key type than the name denotes'}[var],
                                         r.get('client_view')),
                                      {'kind': 'live', 'case': brief(r), 'how': './check C20 --replay <this file>'}) or found
            continue
        if c.get('psks'):
            ctx.count('live(TLS 1.3 external PSKs)', 1, [(r['sid'], tuple(c['psks']), c['cert'], r['ok'], (r.get('psk') or {}).get('selected'))])
            psk_results.append(r)
            continue
        if c.get('resume'):
            info = r['resume']
            mode = info['mode']
            ctx.count('live(TLS<=1.2 resumption)', 1, [(r['sid'], r['ver'], mode, r['ok'], tuple(info.get('resumed', ())))])
            if not r['ok']:
                if mode in ('sid', 'ticket'):
                    k_ = (mode, str(r.get('outcome')))
                    resume_notes[k_] = resume_notes.get(k_, 0) + 1
                continue
            res_c, res_s = info['resumed']
            if (res_c or res_s) and (w.get('sh_suite') != info['session_suite'] or mode == 'cli-deviates'):
                found = ctx.violation('resumed-under-other-suite:0x%04x' % info['session_suite'],
                                      'a session of 0x%04X %s at (3,%d) was resumed [%s] with 0x%04X %s in the ServerHello '
                                      '(client resumed=%s, server resumed=%s); connection.getCipherName()=%r, '
                                      'connection.session.getCipherName()=%r, session suite 0x%04X, cipher object built by %s'
                                      % (info['session_suite'], iana.name_of(info['session_suite']), r['ver'], mode,
                                         w.get('sh_suite', -1), iana.name_of(w.get('sh_suite')), res_c, res_s,
                                         r['cli']['conn_cipher'], r['cli']['sess_cipher'], r['cli']['suite'], r['fact']),
                                      {'kind': 'live', 'case': brief(r), 'how': './check C20 --replay <this file>'}) or found
            if r.get('app_ok'):
                good.append(r)
            else:
                tie_broken = tie_broken or ('resumed connection 0x%04X at (3,%d) [%s]: no application data' % (r['sid'], r['ver'], mode))
            continue
        CERT_OF = {'RSA': ('rsa', 'rsa-pss'), 'DSS': ('dsa',), 'ECDSA': ('ecdsa', 'Ed25519', 'Ed448')}
        if w.get('sh_suite', -1) >= 0 and w.get('sh_ver', 4) < 4 and w.get('wire_cert') not in (None, 'empty'):
            m2 = iana.meaning(w['sh_suite'])
            if m2 is not None and w['wire_cert'] not in CERT_OF.get(m2['auth'], ()):
                if c.get('deviate'):
                    # the harness made the server do this; the question is whether the CLIENT went along
                    if r['ok']:
                        found = ctx.violation('client-accepts-other-cert-type',
                                              'the client completed 0x%04X %s at (3,%d) although the server authenticated with a %s '
                                              'certificate (ServerKeyExchange signature: %s) [%s]'
                                              % (w['sh_suite'], iana.name_of(w['sh_suite']), w['sh_ver'], w['wire_cert'],
                                                 w.get('sigalg') or 'pre-TLS-1.2', r['cfg']),
                                              {'kind': 'live', 'case': brief(r), 'how': './check C20 --replay <this file>'}) or found
                    ctx.count('live(multi-credential server)', 1, [(tuple(c['ver']), c['multi'], c['alt_cred'], c['skip'], True, r['ok'])])
                    continue
                found = ctx.violation('server-sends-other-cert-type:0x%04x' % w['sh_suite'],
                                      'the server answered [%s] with 0x%04X %s at (3,%d) and a %s certificate (ServerKeyExchange '
                                      'signature: %s); handshake %s'
                                      % (r['cfg'], w['sh_suite'], iana.name_of(w['sh_suite']), w['sh_ver'], w['wire_cert'],
                                         w.get('sigalg') or 'pre-TLS-1.2', 'completed' if r['ok'] else r.get('outcome')),
                                      {'kind': 'live', 'case': brief(r), 'how': './check C20 --replay <this file>'}) or found
        if c.get('multi'):
            ctx.count('live(multi-credential server)', 1, [(tuple(c['ver']), c['multi'], c['alt_cred'], c['skip'], bool(c.get('deviate')), r['ok'])])
            if c.get('deviate') or not r['ok']:
                continue
            if r.get('app_ok'):
                good.append(r)
            continue
        m = iana.meaning(r['sid']) if r['sid'] >= 0 else None
        stream = ('live(word-restricted client)' if c.get('words') else
                  'live(expected to complete)' if c['expect'] else 'live(expected to fail)' if c['expect'] is False
                  else 'live(judged from the registry)')
        key = ((m['kx'], m['auth'], m['cipher'], m['keylen'], m['mac']) if m else ('none',)) + (r['ver'], r['cfg'], c.get('variant'), r['ok'])
        ctx.count(stream, 1, [key], sample=brief(r) if (len(good) % 131 == 7 and r['ok']) else None)
        crashed = [o for o in (r.get('outcome') or []) if o and o[0] in ('Other', 'Deadlock')]
        if r.get('error') and not r.get('outcome'):
            tie_broken = tie_broken or ('live case %s could not be run: %s' % (r['cfg'], r['error']))
            continue
        if not r['ok']:
            if crashed and c['expect'] is not False:
                # the endpoints' own filters admit the suite, then an endpoint dies outside the documented errors:
                # no key exchange of the kind the name denotes can be performed for a suite the library selects
                sel = w.get('sh_suite') == r['sid'] and r['sid'] >= 0
                if c['expect'] or sel:
                    found = ctx.violation('negotiated-but-kx-fails:0x%04x' % max(r['sid'], 0),
                                          '0x%04X %s at (3,%d) [%s]: admitted by the endpoints\' filters%s, then the handshake dies with %s'
                                          % (max(r['sid'], 0), iana.name_of(r['sid']), r['ver'], r['cfg'],
                                             ' and selected in the ServerHello' if sel else '', crashed[0][1:]),
                                          {'kind': 'live', 'case': brief(r)}) or found
            elif c['expect']:
                tie_broken = tie_broken or ('0x%04X at (3,%d) [%s] is negotiable by the generated tables but the live '
                                            'handshake gives %s %s' % (r['sid'], r['ver'], r['cfg'], r.get('outcome'), r.get('error', '')))
            continue
        # (b) completed handshakes
        if c['expect'] is False and iana.defined_in(m, (3, r['ver'])):
            tie_broken = tie_broken or ('0x%04X at (3,%d) completes live but the generated tables say not negotiable' % (r['sid'], r['ver']))
        if not r.get('app_ok') or r.get('forced_into_offer'):
            tie_broken = tie_broken or ('0x%04X at (3,%d) [%s]: application data did not flow / suite was not in the client\'s own offer'
                                        % (r['sid'], r['ver'], r['cfg']))
            continue
        if c.get('words') and m is not None:
            field, word = c['words']
            have = {'cipherNames': iana.lib_cipher_name(m), 'macNames': 'aead' if m['mac'] == 'AEAD' else iana.lib_mac_name(m),
                    'keyExchangeNames': iana.lib_kx_name(m)}[field]
            if have != word and not (field == 'keyExchangeNames' and m['kx'] == 'TLS13'):
                key_ = (MAC_KEY % r['sid']) if field == 'macNames' else 'settings-word:%s=%s:0x%04x' % (field, word, r['sid'])
                found = ctx.violation(key_, 'a client with settings.%s=[%r] negotiated 0x%04X %s (whose name denotes %r) at (3,%d)'
                                      % (field, word, r['sid'], iana.name_of(r['sid']), have, r['ver']),
                                      {'kind': 'live', 'case': brief(r)}) or found
        good.append(r)
    for (mode, outc), n in sorted(resume_notes.items()):
        ctx.notes.append('recorded, not raised (resumption itself is C13): %d honest %s-resumptions did not complete: %s' % (n, mode, outc))
    # TLS 1.3 external PSKs: the selected identity's hash and every hash in use must be the suite's
    psk_done = [r for r in psk_results if r['ok'] and r.get('psk')]
    psk_flag = {}
    for i, r in enumerate(psk_results):
        if r.get('error') and not r.get('outcome'):
            tie_broken = tie_broken or ('PSK case %s could not be run: %s' % (r['cfg'], r['error']))
            continue
        if (r.get('wire') or {}).get('sh_suite', -1) < 0 or not r.get('psk'):
            continue
        why = py_psk(r) if r['ok'] else [x for x in py_psk(r) if x.startswith('ServerHello selects')]
        if why:
            psk_flag[id(r)] = (r, why)
    if psk_done and (res['model_ok'] or vlib.coq_make(['Spec/Iana.vo', 'Model/C20_Live.vo'])[0]):
        badk, errs = coq_bad_indices('C20k', ['Spec.Iana', 'Model.C20_Live'], 'pskobs', 'chk_pskobs',
                                          [psk_lit(r) for r in psk_done], shard=64)
        ctx.count('psk-vs-parsed-name(vm_compute)', len(psk_done), [('cases', len(psk_done))])
        for e in errs:
            tie_broken = tie_broken or ('PSK case evaluation failed: ' + e[:300])
        coq_ids = set(id(psk_done[i]) for i in badk)
        py_ids = set(k for k, (r, _) in psk_flag.items() if r['ok'])
        if not errs and coq_ids != py_ids:
            tie_broken = tie_broken or 'chk_pskobs and its Python twin disagree'
        for i in badk:
            psk_flag.setdefault(id(psk_done[i]), (psk_done[i], ['chk_pskobs (Coq)']))
    for r, why in psk_flag.values():
        sh = r['wire']['sh_suite']
        found = ctx.violation('psk-hash:0x%04x' % sh,
                              'TLS 1.3, PSKs provisioned for %s (both ends, in this order)%s, client offering only 0x%04X %s: %s; '
                              'the name denotes %s (server hashes %s, client hashes %s, handshake %s)'
                              % (r['psks'], '' if r['case'].get('cert', True) else ', server without certificate', sh, iana.name_of(sh),
                                 '; '.join(why), iana.prf_at(iana.meaning(sh), (3, 4)) if iana.meaning(sh) else '?',
                                 r['psk']['srv'], r['psk']['cli'], 'completed' if r['ok'] else r.get('outcome')),
                              {'kind': 'live', 'case': brief(r), 'how': './check C20 --replay <this file>'}) or found
    odd = sorted(set(r['sid'] for r in good if r['ver'] < 4 and iana.meaning(r['sid'])['auth'] in ('RSA', 'DSS', 'ECDSA')
                     and r['srv']['srv_cert'] is None))
    if odd:
        ctx.notes.append('recorded, not raised (session state, not suite semantics): the SERVER-side session.serverCertChain '
                         'is None although a certificate was sent and verified by the client, for '
                         + ', '.join('0x%04X' % x for x in odd)
                         + ' (tlsconnection.py "Create the session object" tests certAllSuites/ecdheEcdsaSuites, not dheDsaSuites)')
    # judge the completed handshakes against the parsed name: Python twin always, Coq whenever Spec/Model compile
    flagged = {}
    for i, r in enumerate(good):
        for chk in py_live(r):
            flagged.setdefault((i, chk), set()).add('python')
    live_model_ok = res['model_ok']
    if not live_model_ok:       # Model/C20_Live.v needs only Spec/Iana.v, not the generated tables
        live_model_ok = vlib.coq_make(['Spec/Iana.vo', 'Model/C20_Live.vo'])[0]
    if live_model_ok and good:
        lits = [obs_lit(r) for r in good]
        bads, errs = coq_bad_indices('C20l', ['Spec.Iana', 'Model.C20_Live'], 'obs', LIVE_CHECKS, lits,
                                          shard=max(8, (len(lits) + 15) // 16))
        ctx.count('live-vs-parsed-name(vm_compute)', len(lits) * len(LIVE_CHECKS), [('cases', len(lits))])
        for e in errs:
            tie_broken = tie_broken or ('live case evaluation failed: ' + e[:300])
        for chk, bad in zip(LIVE_CHECKS, bads):
            for i in bad:
                flagged.setdefault((i, chk), set()).add('coq')
        if not errs:
            for (i, chk), who in sorted(flagged.items()):
                if len(who) == 1:
                    tie_broken = tie_broken or ('Model/C20_Live.v and its Python twin disagree on %s for 0x%04X at (3,%d) (%s only)'
                                                % (chk, good[i]['sid'], good[i]['ver'], list(who)[0]))
    else:
        ctx.notes.append('Coq could not evaluate the live observations (model does not build); judged by the Python twin only')
    ctx.count('live-vs-parsed-name(python twin)', len(good) * len(LIVE_CHECKS), [('cases', len(good))])
    for (i, chk), who in sorted(flagged.items()):
        r = good[i]
        key = (MAC_KEY % r['sid']) if chk == 'chk_names_mac' else 'live-%s:0x%04x' % (chk[4:], r['sid'])
        found = ctx.violation(key, 'live handshake 0x%04X %s at (3,%d) [%s]: %s disagrees with the IANA name (getMacName=%r, '
                              'getCipherName=%r, wire=%s, factory=%s, prf=%s, exporter=%s, post=%s)'
                              % (r['sid'], iana.name_of(r['sid']), r['ver'], r['cfg'], chk, r['cli']['sess_mac'],
                                 r['cli']['sess_cipher'], r['wire'], r['fact'], r['prfs'] or r['hkdf'], r.get('exporter'),
                                 {k: v for k, v in (r.get('post') or {}).items() if k in ('steps', 'lens', 'wire_open', 'flows', 'pha', 'resume')}),
                              {'kind': 'live', 'check': chk, 'case': brief(r),
                               'how': './check C20 --replay <this file> reruns the handshake and prints the observations'}) or found
    if not res['model_ok'] and tie_broken is None:
        tie_broken = 'model does not compile: %s' % res['failing']
    ctx.cov['rule'] = ('exhaustive: every suite id with a registered meaning x version is offered live in two configurations '
                       '(client pinned to the version / server pinned); the pairs the tables call negotiable must complete and '
                       'agree with the parsed name (incl. TLS 1.3 KeyUpdate both ways, PHA, PSK resumption, exporter), the others '
                       'must fail; every ServerHello on the wire is judged, completed or not; plus clients restricted by each '
                       'single settings word x 5 credential kinds; distinct = (key exchange, authentication, cipher, key bytes, '
                       'MAC, version, configuration, variant, completed)')
    if tie_broken and not found:
        ctx.violation('tie-broken', tie_broken, {'correspondence': 'Gen/Suites.v / live handshakes vs tlslite', 'detail': tie_broken},
                      found_input=False)
        found = True
    vlib.broken_proof_verdict(ctx, res, found)


def replay(ctx, path):
    with open(path) as f:
        r = json.load(f)
    if r.get('kind') == 'live':
        c = r['case']
        if c.get('case') and c['case'].get('multi'):
            cc = dict(c['case'])
            cc['ver'] = tuple(cc['ver'])
            out = c20_live.run_case(cc)
            print(json.dumps(brief(out), indent=1, default=str))
            w = out.get('wire') or {}
            m2 = iana.meaning(w.get('sh_suite', -1))
            okc = {'RSA': ('rsa', 'rsa-pss'), 'DSS': ('dsa',), 'ECDSA': ('ecdsa', 'Ed25519', 'Ed448')}
            bad = []
            if m2 and w.get('wire_cert') and w['wire_cert'] not in okc.get(m2['auth'], ()) and (out['ok'] or not cc.get('deviate')):
                bad.append('certificate key type %s under %s' % (w['wire_cert'], iana.name_of(w['sh_suite'])))
            print('failing checks: %s' % bad)
            return 1 if bad else 0
        if c.get('case') and c['case'].get('negauth'):
            cc = dict(c['case'])
            cc['ver'] = tuple(cc['ver'])
            out = c20_live.run_case(cc)
            print(json.dumps(brief(out), indent=1, default=str))
            bad = ['auth-not-enforced'] if any(out.get('completed') or ()) else []
            print('failing checks: %s' % bad)
            return 1 if bad else 0
        if c.get('case') and (c['case'].get('resume') or c['case'].get('psks')):
            cc = dict(c['case'])
            cc['ver'] = tuple(cc['ver'])
            out = c20_live.run_case(cc)
            print(json.dumps(brief(out), indent=1, default=str))
            bad = []
            w = out.get('wire') or {}
            if cc.get('psks'):
                if w.get('sh_suite', -1) >= 0 and out.get('psk'):
                    out['psks'] = cc['psks']
                    bad = py_psk(out) if out['ok'] else [x for x in py_psk(out) if x.startswith('ServerHello selects')]
            elif out.get('resume') and out['ok']:
                info = out['resume']
                if any(info['resumed']) and (w.get('sh_suite') != info['session_suite'] or info['mode'] == 'cli-deviates'):
                    bad.append('resumed-under-other-suite')
                bad += py_live(out)
            print('failing checks: %s' % bad)
            return 1 if bad else 0
        if c.get('words'):
            out = c20_live.run_case({'words': tuple(c['words']), 'cred': c.get('cred', 'rsa'), 'seed': r.get('seed', 0)})
        else:
            a = c.get('asked') or {}
            out = c20_live.run_case({'sid': a.get('sid') or c['sid'], 'ver': tuple(a.get('ver') or (3, c['ver'])), 'cfg': c['cfg'],
                                     'seed': r.get('seed', 0)})
        print(json.dumps(brief(out), indent=1, default=str))
        w = out.get('wire') or {}
        bad = []
        if w.get('sh_suite', -1) >= 0:
            m2 = iana.meaning(w['sh_suite'])
            print('ServerHello: (3,%d) 0x%04X %s -> %s' % (w['sh_ver'], w['sh_suite'], iana.name_of(w['sh_suite']), m2))
            if m2 is None or not iana.defined_in(m2, (3, w['sh_ver'])):
                bad.append('undefined-version')
        if out['ok']:
            bad += py_live(out)
        print('failing checks: %s' % bad)
        return 1 if bad else 0
    d = units_suites.collect()
    viols, _ = py_oracle(d)
    hits = [v for v in viols if v[0] == r.get('key')]
    for k, w, _ in hits:
        print('still fails: [%s] %s' % (k, w))
    if not hits:
        print('no longer fails: %s' % r.get('key'))
    return 1 if hits else 0
