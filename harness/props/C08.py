"""C08: malformed peer input fails cleanly, promptly and within bounded memory.

Stages (see design/C08.md):
 1. translator/crashlite.py regenerates the crash-analysis model of the ClientHello checks
    (Gen/ChChecks.v) and its proof script (Gen/ChChecksProof.v) from /repo;
 2. proof stage: Props/C08.v (hello crash analysis, error funnel, parser work/allocation);
 3. DIRECT PROPERTY ORACLE (needs no Coq): grammar-aware mutation of the peer's traffic against
    live endpoints, c08_fuzz.py;
 4. correspondence of the three models with the implementation: c08_hello.py (crash model vs live
    server + replay of the refutation witnesses), c08_funnel.py, c08_work.py;
 5. the decompressor contract assumed by alloc_bounded, measured on the real call (tracemalloc).
"""
import json
import multiprocessing
import os
import sys
import time
import tracemalloc

import vlib
import loop
import c08_fuzz
import c08_hello
import c08_resume
import c08_strings

sys.path.insert(0, os.path.join(vlib.ROOT, 'translator'))
import units  # noqa: E402

LEVEL = 'proof'
META = {
    'text': 'Coq theorems (Props/C08.v): (1) FULL crash-freedom of the Gallina crash models regenerated on every run from the '
            'ClientHello checks of _serverGetClientHello, the ServerHello checks and the HelloRetryRequest handling of _clientGetServerHello (the latter under a hypothesis on the own hello) and the validation of the second ClientHello after HRR (every partial '
            'Python operation an explicit Crash outcome; for EVERY abstract parsed message, settings, oracle); (2) hand model '
            'of the error funnel (_getMsg/_sendError/_shutdown/read/write/close/handshake wrapper incl. its protocol-error '
            'alert clauses): any raising call leaves closed=true, resumable=false, mapped classes write the fatal alert '
            'first, only documented classes for specified exceptions, exact residue of classes that still escape without '
            'alert; (3) parser loops strictly consume input, work and allocation linear in the input, decompression bounded '
            'under the decompressor contract (measured to hold for zlib on the real call). Each model is compared with the '
            'running implementation (vm_compute); the direct oracle mutates the peer traffic of 28 handshake flavours (incl. the second message of HRR/resumption/PSK exchanges) in '
            'both roles against live endpoints.',
    'note': 'Partial: crash-freedom is proved only for the two translated hello regions; the rest of the handshake '
            'coroutines is covered by the live mutation search only (no known finding remains on HEAD 7b4ef0e). Trusted: Coq kernel + '
            'vm_compute; translator/crashlite.py and the schema of parsed values (validated against the real parser and '
            'endpoints on every run); hand models C08_Funnel / C08_Work tied by correspondence only; decompressor contract '
            'is a premise (measured on the zlib call; brotli/zstd bindings not installed); work/memory thresholds are '
            'empirical constants.',
    'technique': 'Rocq/Coq proof over translator-regenerated crash model + hand models, vm_compute correspondence, '
                 'live grammar-aware mutation oracle',
}

HOW = 'cd /verif && ./check C08 --replay <this file>   (PYTHONPATH=/repo:/verif/harness; harness/c08_fuzz.py worker(case))'


# ------------------------------------------------------------------------------------------
def jcase(c):
    def conv(v):
        if isinstance(v, (bytes, bytearray)):
            return {'hex': bytes(v).hex()}
        if isinstance(v, tuple):
            return [conv(x) for x in v]
        if isinstance(v, dict):
            return {k: conv(x) for k, x in v.items()}
        if isinstance(v, list):
            return [conv(x) for x in v]
        return v
    return conv(c)


def fuzz_stage(ctx, quick, pool):
    fl = c08_fuzz.get_flavours()
    keys = [(i, r) for i in range(len(fl)) for r in ('server', 'client')]
    profiles = {}
    for k, b, pts in pool.map(c08_fuzz.profile_task, keys, chunksize=1):
        profiles[k] = (b, pts)
        name = '%s/%s' % (fl[k[0]]['name'], k[1])
        if 'error' in b:
            ctx.violation('harness-profile:' + name, 'honest run of flavour failed in the harness: ' + b['error'][-300:],
                          {'flavour': name}, found_input=False)
        elif b['outcome'] != ('ok',) or b['problems']:
            # an honest but incompatible peer is also "whatever bytes a peer sends": the oracle applies
            ctx.notes.append('honest flavour %s ends with %s %s' % (name, b['outcome'], [p[0] for p in b['problems']]))
            for key, text in b['problems']:
                ctx.violation(key, '%s [flavour %s, %s under test, unmodified peer]' % (text, name, k[1]),
                              {'case': {'flavour': k[0], 'role': k[1], 'seed': 12345, 'level': 'msg', 'mut': None,
                                        'phase': 'post', 'target': None}, 'how': HOW})
        ctx.count('honest-flavours', 1, [name])
    n = 800 if quick else 16000
    cases = c08_fuzz.gen_cases(ctx.rng, n)
    cases += c08_fuzz.bomb_cases(ctx.rng, [8] if quick else [8, 64, 200])
    cases += c08_fuzz.ecpoint_cases(ctx.rng)
    second = c08_fuzz.second_step_cases(ctx.rng, profiles, quick)
    second += c08_fuzz.cv_scheme_cases(ctx.rng, profiles)
    second += c08_fuzz.cert_cases(ctx.rng, profiles)
    sig = c08_fuzz.sigalg_cases(ctx.rng, profiles, quick)
    ctx.cov['sigalg_cross_product_cases'] = len(sig)
    second += sig
    second += c08_fuzz.pha_cases(ctx.rng, profiles)
    alerts = c08_fuzz.alert_cases(ctx.rng, profiles, quick)
    ctx.cov['alert_value_cases'] = len(alerts)
    second += alerts
    strs = c08_strings.string_cases(ctx.rng, profiles, [f['name'] for f in fl], quick)
    ctx.cov['string_field_cases'] = len(strs)
    second += strs
    for i, c in enumerate(cases):
        c08_fuzz.resolve_target(c, profiles)
        c.setdefault('mem', i % 6 == 0)
    # corpus first: one concrete case per past finding (independent of the seed)
    corpus = []
    try:
        with open(os.path.join(vlib.ROOT, 'corpus', 'C08', 'cases.json')) as f:
            for e in json.load(f):
                c = dict(e['case'])
                if c.get('mut') is not None:
                    c['mut'] = tuple(c['mut'])
                if c['flavour'] < len(fl):
                    b = profiles[(c['flavour'], c['role'])][0]
                    c['base'] = dict(calls=b.get('calls', 0), peak=b.get('peak', 0))
                    c['corpus'] = e['key']
                    corpus.append(c)
    except OSError:
        pass
    cases = corpus + second + cases
    for c in cases:
        if 'base' in c:
            c['base'].setdefault('cpu', profiles[(c['flavour'], c['role'])][0].get('cpu'))
    ctx.cov['second_step_cases'] = len(second)
    t0 = time.time()
    results = pool.map(c08_fuzz.worker, cases, chunksize=4)
    ctx.log('fuzz: %d cases in %.1fs' % (len(cases), time.time() - t0))
    found = False
    n_applied = 0
    counts = {}
    for r in results:
        c = r['case']
        name = fl[c['flavour']]['name']
        if 'harness_error' in r:
            ctx.violation('harness-error:fuzz', 'mutation harness failed: ' + r['harness_error'][-400:], {'case': jcase(c)},
                          found_input=False)
            continue
        n_applied += bool(r['applied'])
        what = r['what'] or ('post:' + str(c.get('post_extra')) if c['phase'] == 'post' else 'none')
        cls = what.split(':')[0] + ':' + what.split(':')[-1].split('@')[0].split('(')[0]
        ctx.count('live-mutation', 1, [(name, c['role'], cls, r['outcome'][0])],
                  sample={'flavour': name, 'role': c['role'], 'mutation': what, 'outcome': list(r['outcome'])[:2],
                          'bytes_in': r['bytes_in'], 'calls': r['calls']} if len(ctx.cov['samples']) < 8 else None)
        for key, text in r['problems']:
            found = True
            counts[key] = counts.get(key, 0) + 1
            if counts[key] > 1:
                continue
            ctx.violation(key, '%s [flavour %s, %s under test, mutation %s]' % (text, name, c['role'], what),
                          {'case': jcase(c), 'outcome': list(r['outcome']), 'peer': r['peer'], 'bytes_in': r['bytes_in'],
                           'calls': r['calls'], 'peak': r['peak'], 'how': HOW})
    ctx.cov['fuzz'] = {'cases': len(cases), 'mutation_applied': n_applied, 'flavours': len(fl), 'problem_counts': counts,
                       'work_bound': 'calls <= %d*bytes_in + 2*honest_calls(flavour,role) + %d' % (c08_fuzz.WORK_C, c08_fuzz.WORK_C0),
                       'cpu_bound': 'process CPU time <= %d*honest_cpu(flavour,role) + %.0f s + %.0e*bytes_in (cases without tracemalloc)' % (
                           c08_fuzz.CPU_K, c08_fuzz.CPU_C0, c08_fuzz.CPU_C),
                       'mem_bound': 'tracemalloc peak <= %d*bytes_in + 2*honest_peak(flavour,role) + %d' % (
                           c08_fuzz.MEM_C, c08_fuzz.MEM_C0)}
    return found


# ------------------------------------------------------------------------------------------
def regex_stage(ctx, pool):
    """every regular expression of the code under test, on its own pathological inputs: CPU time linear in the length"""
    t0 = time.time()
    sites = c08_strings.regex_sites(vlib.REPO)
    found = False
    seen = set()
    shown = []
    for r in pool.map(c08_strings.site_worker, sites, chunksize=1):
        path, line, func, fn, pat, flags = r['site']
        shown.append({'site': '%s:%d %s re.%s' % (path, line, func, fn), 'pattern': repr(pat), 'inputs_timed': r['calls'],
                      'unanalysed': r['unanalysed']})
        if r['unanalysed']:
            ctx.notes.append('regular expression at %s:%d (%s) not analysed: %s' % (path, line, func, r['unanalysed']))
            ctx.assumptions.append('regular expression at %s:%d (%s) is linear-time (not analysed: %s)'
                                   % (path, line, func, r['unanalysed']))
        ctx.count('regex-site', 1, [('%s:%s' % (os.path.basename(path), func), 'analysed' if not r['unanalysed'] else 'not-analysed')])
        for key, text, detail in r['problems']:
            found = True
            if key in seen:
                continue
            seen.add(key)
            ctx.violation(key, text, {'regex_case': detail, 'site': [path, line, func, fn],
                                      'how': 'harness/c08_strings.py site_worker(site): re.compile(pattern, flags).<call>(input)'})
    ctx.cov['regex_sites'] = shown
    ctx.cov['regex_bound'] = 'cpu(n) <= %.2f s + %.0e s * n, n up to 65535, per call' % (c08_strings.RX_C0, c08_strings.RX_C)
    ctx.log('regex work: %d call sites of re.* in tlslite, %d inputs timed, %.1fs' % (
        len(sites), sum(x['inputs_timed'] for x in shown), time.time() - t0))
    return found


def witness_hellos():
    """Concrete ClientHello bytes for the abstract values of Proofs/C08_Hello.v that refuted
    crash-freedom before /repo b10bb95 / 5fb1773 (site, exception they used to raise, bytes).  On the
    fixed code the model says `Alert 50` for each (hello_checks_former_witnesses)."""
    from tlslite.messages import ClientHello
    from tlslite.extensions import (TLSExtension, SupportedVersionsExtension, SupportedGroupsExtension,
                                    ClientKeyShareExtension, KeyShareEntry, PskKeyExchangeModesExtension,
                                    PreSharedKeyExtension, PskIdentity)
    sv = SupportedVersionsExtension().create([(3, 4)])
    gr = SupportedGroupsExtension().create([29, 23])
    ks = ClientKeyShareExtension().create([KeyShareEntry().create(29, bytearray(range(1, 33)))])
    pm = PskKeyExchangeModesExtension().create([1])

    def psk(identity, binder):
        return PreSharedKeyExtension().create([PskIdentity().create(bytearray(identity), 0)], [bytearray(binder)])

    def hello(cv, exts):
        return bytes(ClientHello().create(cv, bytearray(32), bytearray(0), [0x1301, 0xc02f, 0x002f], extensions=exts).write())
    empty_sv = TLSExtension(extType=43).create(bytearray(0))
    return [
        ('AlertDescription.decoder_error#1', 'AttributeError', hello((3, 3), [sv, gr, ks, pm, psk(b'', b'\x07' * 32)])),
        ('AlertDescription.decoder_error#2', 'AttributeError', hello((3, 3), [sv, gr, ks, pm, psk(b'id', b'')])),
        ('iter:ext.versions#1', 'TypeError', hello((3, 3), [empty_sv])),
        ('in:ver_ext.versions#1', 'TypeError', hello((3, 1), [empty_sv])),
    ]


def crash_key(exc):
    fn, line = c08_fuzz.innermost_tlslite_frame(exc)
    return c08_fuzz.crash_key(exc), fn, line


def witness_stage(ctx):
    """Replay the FORMER refutation witnesses on the live server: each must now end in decode_error.
    Also replays corpus/C08/hellos.json (ClientHellos that crashed the server OUTSIDE the translated
    region in earlier runs)."""
    tie = None
    found = False
    try:
        with open(os.path.join(vlib.ROOT, 'corpus', 'C08', 'hellos.json')) as f:
            hellos = json.load(f)
    except OSError:
        hellos = []
    for h in hellos:
        ch = bytes.fromhex(h['client_hello_handshake_message_hex'])
        vers = h.get('settings_versions')
        st = loop.settings(minVersion=tuple(vers[0]), maxVersion=tuple(vers[1])) if vers else loop.settings()
        exc = c08_hello.run_server_exc(ch, st)
        ctx.count('hello-corpus-replay', 1, [h['key']])
        if exc is not None and loop.classify(('exc', exc))[0] == 'Other':
            key, fn, line = crash_key(exc)
            found = True
            ctx.violation(key, 'handshakeServer raises %s: %s (in %s: `%s`) for a syntactically valid ClientHello (corpus)'
                          % (type(exc).__name__, str(exc)[:120], fn, line),
                          {'client_hello_handshake_message_hex': ch.hex(), 'settings_versions': vers,
                           'how': './check C08 --replay <this file>'})
    for site, kind, ch in witness_hellos():
        exc = c08_hello.run_server_exc(ch, loop.settings())
        ctx.count('former-witness-replay', 1, [site])
        cls = loop.classify(('exc', exc)) if exc is not None else ('waiting',)
        if cls[0] == 'Other':
            key, fn, line = crash_key(exc)
            found = True
            ctx.violation(key, 'handshakeServer raises %s: %s (in %s: `%s`) for a syntactically valid ClientHello '
                               '(former refutation witness for model site %s)' % (type(exc).__name__, str(exc)[:120], fn, line, site),
                          {'client_hello_handshake_message_hex': ch.hex(), 'site': site,
                           'how': 'send the bytes as one handshake record to TLSConnection.handshakeServer(certChain, privateKey); '
                                  './check C08 --replay <this file>'})
        elif cls != ('LocalAlert', 50):
            tie = tie or ('former witness for site %s: the model says Alert 50 (hello_checks_former_witnesses) but the live '
                          'server ends with %r' % (site, cls))
    return tie, found


# ------------------------------------------------------------------------------------------
def decompress_contract(ctx, quick):
    """The contract assumed by alloc_bounded: decompress(data, limit) never produces/allocates more
    than the limit (+ slack proportional to the input).  Measured on the real call."""
    import zlib
    from tlslite.messages import CompressedCertificate
    from tlslite.constants import CertificateType, CertificateCompressionAlgorithm as CCA
    from tlslite.utils.compression import compression_algo_impls as impls
    found = False
    algos = [('zlib', CCA.zlib, lambda b: zlib.compress(b, 9))]
    if impls.get('brotli_compress') and impls.get('brotli_decompress'):
        algos.append(('brotli', CCA.brotli, impls['brotli_compress']))
    if impls.get('zstd_compress') and impls.get('zstd_decompress'):
        algos.append(('zstd', CCA.zstd, impls['zstd_compress']))
    ctx.cov['decompressors_present'] = [a[0] for a in algos]
    measured = {}
    for name, code, comp in algos:
        for mb in ([16] if quick else [16, 64, 256]):
            data = bytes(comp(bytes(mb * 1024 * 1024)))
            for declared in (10, 4096):
                m = CompressedCertificate(CertificateType.x509)
                m.compression_algo = code
                tracemalloc.start()
                tracemalloc.reset_peak()
                base = tracemalloc.get_traced_memory()[0]
                try:
                    out = m._decompress(bytearray(data), declared)
                    res = 'returned %d bytes' % len(out)
                    bad_len = len(out) != declared
                except Exception as e:  # noqa
                    res = type(e).__name__
                    bad_len = False
                peak = tracemalloc.get_traced_memory()[1] - base
                tracemalloc.stop()
                limit = c08_fuzz.MEM_C * (len(data) + declared) + c08_fuzz.MEM_C0
                ctx.count('decompress-contract', 1, [(name, mb, declared, peak > limit)])
                m = measured.setdefault(name, {'calls': 0, 'max_peak': 0, 'holds': True})
                m['calls'] += 1
                m['max_peak'] = max(m['max_peak'], peak)
                m['holds'] = m['holds'] and not (peak > limit or bad_len)
                m['last'] = '%d compressed bytes of %d MiB zeros declared as %d: %s, peak %d <= limit %d' % (
                    len(data), mb, declared, res, peak, limit)
                if peak > limit or bad_len:
                    found = True
                    ctx.violation('mem:decompress:%s' % name,
                                  'CompressedCertificate._decompress(%s): %d compressed bytes declaring %d uncompressed bytes '
                                  'allocate %d bytes before the message is rejected (%s); limit %d = %d*(input+declared)+%d'
                                  % (name, len(data), declared, peak, res, limit, c08_fuzz.MEM_C, c08_fuzz.MEM_C0),
                                  {'algorithm': name, 'compressed_len': len(data), 'declared': declared, 'zeros_mb': mb,
                                   'peak': peak, 'how': 'CompressedCertificate(x509)._decompress(compress(bytes(%d MB)), %d) '
                                                        'under tracemalloc' % (mb, declared)})
    # the contract premise of alloc_bounded ("output/allocation never exceeds the limit passed in"), as measured
    ctx.cov['decompressor_contract_measured'] = measured
    return found


# ------------------------------------------------------------------------------------------
def run(ctx):
    quick = ctx.tier == 'quick'
    tie_broken = None
    for name in ('ChChecks', 'ChChecksProof', 'ShChecks', 'ShChecksProof', 'HrrChChecks', 'HrrChChecksProof',
                 'HrrShChecks', 'HrrShChecksProof'):
        ok, msg = units.generate(name, vlib.COQ)
        ctx.log('translator %s: %s' % (name, msg))
        if not ok:
            tie_broken = tie_broken or msg
    res = vlib.proof_stage(ctx, 'Props/C08.v',
                           model_targets=['Base/C08_Lib.vo', 'Gen/ChChecks.vo', 'Gen/ShChecks.vo', 'Gen/HrrChChecks.vo',
                                          'Gen/HrrShChecks.vo', 'Model/C08_Funnel.vo',
                                          'Model/C08_Work.vo'])
    ctx.log('proof stage ok=%s failing=%s' % (res['ok'], res['failing']))
    ctx.cov['trusted_base'] = [
        'Coq 8.16.1 kernel + vm_compute (case evaluation)',
        'translator/crashlite.py + schema of parsed values in translator/units_c08.py (validated on every run: real parser '
        'output converted to the schema, model prediction compared with the live server)',
        'hand models Model/C08_Funnel.v, Model/C08_Work.v: tied to the code by correspondence only',
        'decompressor contract "output/allocation never exceeds the limit passed in" (assumption of alloc_bounded; measured)',
        'CPython: sys.setprofile call counts and tracemalloc peaks as the measure of work and memory',
    ]
    ctx.assumptions += ['abstract ClientHello values are those of the schema (parser output); settings are validated settings',
                        'work/memory thresholds: see coverage.fuzz.work_bound / mem_bound (empirical, with margin)',
                        'funnel model: wf_event excludes GeneratorExit/pre-try/fault-injection holes listed as hole_* theorems']
    found = False
    ctx_mp = multiprocessing.get_context('fork')
    with ctx_mp.Pool(vlib.NPROC) as pool:
        # ---- the property itself on the implementation (direct oracle; independent of Coq)
        found |= fuzz_stage(ctx, quick, pool)
        found |= decompress_contract(ctx, quick)
        found |= regex_stage(ctx, pool)
        # ---- observable resumability after a failure (three-connection histories)
        t0 = time.time()
        rcases = c08_resume.gen_cases(ctx.rng, quick)
        rres = pool.map(c08_resume.worker, rcases, chunksize=2)
        seen_r = set()
        for r in rres:
            c = r['case']
            ctx.count('resume-after-failure', 1, [(c['kind'], c['role'], c['on'], c['fail'], r['status'])])
            if r['status'] == 'harness-error':
                ctx.violation('harness-error:resume', 'resumption history harness failed: ' + r['error'][-300:], {'case': c},
                              found_input=False)
            for key, text, enforced in r['problems']:
                if not enforced:
                    ctx.count('resume-after-failure(not-required)', 1, [key])
                    continue
                found = True
                if key in seen_r:
                    continue
                seen_r.add(key)
                ctx.violation(key, text, {'resume_case': c, 'second': r.get('second'), 'third': r.get('third'),
                                          'how': 'harness/c08_resume.py run_resume_case(case); ./check C08 --replay <this file>'})
        ctx.log('resume-after-failure: %d histories in %.1fs' % (len(rcases), time.time() - t0))
        # ---- crash models vs implementation
        model_ok = res['model_ok'] and tie_broken is None and os.path.exists(os.path.join(vlib.COQ, 'Gen', 'ChChecks.vo'))
        t0 = time.time()
        tie, crashes = c08_hello.run_stage(ctx, quick, model_ok, pool)
        ctx.log('hello correspondence: %.1fs tie=%s live crashes=%d' % (time.time() - t0, tie, len(crashes)))
        tie_broken = tie_broken or tie
        seen = set()
        for label, code, cls, hexbytes, vers, key, text in crashes:
            found = True
            if key in seen:
                continue
            seen.add(key)
            ctx.violation(key, 'handshakeServer: %s for a syntactically valid ClientHello (%s)' % (text, label),
                          {'client_hello_handshake_message_hex': hexbytes, 'settings_versions': vers,
                           'how': './check C08 --replay <this file>'})
        t0 = time.time()
        sh_ok = model_ok and os.path.exists(os.path.join(vlib.COQ, 'Gen', 'ShChecks.vo'))
        tie, crashes = c08_hello.run_stage_sh(ctx, quick, sh_ok, pool)
        ctx.log('ServerHello correspondence: %.1fs tie=%s live crashes=%d' % (time.time() - t0, tie, len(crashes)))
        tie_broken = tie_broken or tie
        for label, code, cls, hexbytes, vers, key, text in crashes:
            found = True
            if key in seen:
                continue
            seen.add(key)
            ctx.violation(key, 'handshakeClientCert: %s for a syntactically valid ServerHello (%s)' % (text, label),
                          {'server_hello_handshake_message_hex': hexbytes, 'sh_case_seed': vers,
                           'how': 'start handshakeClientCert, answer its ClientHello with this ServerHello handshake message'})
        # ---- two-step exchanges: second ClientHello after HelloRetryRequest (server), HelloRetryRequest (client)
        for title, fn, vo, who in (('second ClientHello after HRR', c08_hello.run_stage_hrr, 'HrrChChecks.vo', 'handshakeServer'),
                                   ('HelloRetryRequest handling', c08_hello.run_stage_hrrsh, 'HrrShChecks.vo',
                                    'handshakeClientCert')):
            t0 = time.time()
            ok_ = model_ok and os.path.exists(os.path.join(vlib.COQ, 'Gen', vo))
            tie, crashes = fn(ctx, quick, ok_, pool)
            ctx.log('%s correspondence: %.1fs tie=%s live crashes=%d' % (title, time.time() - t0, tie, len(crashes)))
            tie_broken = tie_broken or tie
            for label, code, cls, hexbytes, extra, key, text in crashes:
                found = True
                if key in seen:
                    continue
                seen.add(key)
                rep = {'second_message_hex': hexbytes, 'how': './check C08 --replay <this file>'}
                if who == 'handshakeServer':
                    rep.update({'first_client_hello_hex': extra, 'second_client_hello_hex': hexbytes,
                                'server_settings': "eccCurves=['secp256r1'], keyShares=['secp256r1']"})
                else:
                    rep['hrrsh_case_seed'] = extra
                ctx.violation(key, '%s: %s (%s, %s)' % (who, text, title, label), rep)
    wtie, wfound = witness_stage(ctx)
    found |= wfound
    tie_broken = tie_broken or wtie
    # ---- funnel model vs implementation
    if res['model_ok']:
        import c08_funnel
        t0 = time.time()
        fcases = c08_funnel.cases(ctx.rng, quick)
        bad, obss, errs, cerrs = c08_funnel.compare(fcases, seed=ctx.rng.randrange(1 << 20), tag='C08f', procs=vlib.NPROC)
        ctx.log('funnel correspondence: %d cases, %d disagreements, %.1fs' % (len(fcases), len(bad), time.time() - t0))
        for k, c in enumerate(fcases):
            ctx.count('funnel-model-vs-impl', 1, [c08_funnel.case_key(c)])
        for k, e in errs[:3]:
            tie_broken = tie_broken or 'funnel observation failed: %s' % e[:300]
        for e in cerrs[:3]:
            tie_broken = tie_broken or 'funnel case evaluation failed: %s' % e[:300]
        for k in bad[:5]:
            ctx.log('funnel model/impl disagreement: %s observed %s' % (c08_funnel.case_key(fcases[k]), obss[k]))
            tie_broken = tie_broken or 'funnel model disagrees with the implementation on %s (observed %r)' % (
                c08_funnel.case_key(fcases[k]), obss[k])
        # ---- work model vs implementation
        import c08_work
        t0 = time.time()
        n_before = len(ctx.violations) + len(ctx.known_hits)
        try:
            wt = c08_fuzz.with_watchdog(c08_work.run_stage, ctx, quick, _seconds=600 if quick else 3600)     # CPU seconds of this process (coqc children do not count)
        except c08_fuzz.HangTimeout as e:
            sys.settrace(None)
            fn, line = c08_fuzz.hang_frame(e)
            wt = None
            ctx.violation('hang:%s:%s' % (fn, c08_fuzz._norm(line)),
                          'parser work stage: a parse call does not return (spinning in %s: `%s`)' % (fn, line),
                          {'where': fn, 'line': line})
        ctx.log('work correspondence: %.1fs tie=%s' % (time.time() - t0, wt))
        tie_broken = tie_broken or wt
        found |= (len(ctx.violations) + len(ctx.known_hits)) > n_before
    else:
        tie_broken = tie_broken or 'model files do not compile: %s' % res['failing']
    ctx.cov['rule'] = ('live-mutation: distinct = (flavour, role, mutated message/record type + mutation class, outcome class); '
                       'hello-region-live: distinct = (region outcome, client_version class, supported_versions shape); '
                       'funnel: distinct = (layer, depth, exception class, injection); work: per parser kind and size')
    # "found" = the search reported a NEW failing input (known findings do not count)
    found_new = len(ctx.violations) > 0
    if tie_broken and not found_new:
        ctx.violation('tie-broken', tie_broken, {'detail': tie_broken}, found_input=False)
    elif tie_broken:
        ctx.notes.append('tie broken: ' + tie_broken)
    vlib.broken_proof_verdict(ctx, res, len(ctx.violations) > 0)


def replay(ctx, path):
    with open(path) as f:
        r = json.load(f)
    if 'client_hello_handshake_message_hex' in r:
        ch = bytes.fromhex(r['client_hello_handshake_message_hex'])
        vers = r.get('settings_versions')
        st = loop.settings(minVersion=tuple(vers[0]), maxVersion=tuple(vers[1])) if vers else loop.settings()
        exc = c08_hello.run_server_exc(ch, st)
        print('handshakeServer outcome:', repr(exc))
        return 1 if exc is not None and loop.classify(('exc', exc))[0] == 'Other' else 0
    if 'resume_case' in r:
        o = c08_resume.run_resume_case(r['resume_case'])
        print('status:', o['status'], 'second:', o.get('second'), 'third:', o.get('third'))
        return 1 if o['problems'] else 0
    if 'second_client_hello_hex' in r:
        from tlslite.messages import RecordHeader3
        pair = loop.Pair()
        cert, key = loop.creds('rsa')
        gen = pair.server.handshakeServerAsync(certChain=cert, privateKey=key,
                                               settings=loop.settings(eccCurves=['secp256r1'], keyShares=['secp256r1']))
        for hx in (r['first_client_hello_hex'], r['second_client_hello_hex']):
            m = bytes.fromhex(hx)
            pair.ssock.inbuf += RecordHeader3().create((3, 3), 22, len(m)).write() + m
            res = loop.run_gen(gen, max_steps=3000)
        cls = loop.classify(res)
        print('handshakeServer outcome after the second ClientHello:', cls, repr(res[1])[:200])
        return 1 if cls[0] == 'Other' else 0
    if 'hrrsh_case_seed' in r:
        o = c08_hello.hrrsh_case(r['hrrsh_case_seed'])
        print('handshakeClientCert outcome:', o.get('cls'), o.get('crash'))
        return 1 if o.get('crash') else 0
    if 'sh_case_seed' in r:
        o = c08_hello.sh_case(r['sh_case_seed'])
        print('handshakeClientCert outcome:', o.get('cls'), o.get('crash'))
        return 1 if o.get('crash') else 0
    if 'case' in r:
        def unconv(v):
            if isinstance(v, dict) and set(v) == {'hex'}:
                return bytes.fromhex(v['hex'])
            if isinstance(v, dict):
                return {k: unconv(x) for k, x in v.items()}
            if isinstance(v, list):
                return [unconv(x) for x in v]
            return v
        case = unconv(r['case'])
        if case.get('mut') is not None:
            case['mut'] = tuple(case['mut'])
        for k in ('cset',):
            case.pop(k, None)
        out = c08_fuzz.worker(case)
        print('outcome:', out.get('outcome'), 'peer:', out.get('peer'), 'mutation:', out.get('what'))
        print('closed:', out.get('closed'), 'resumable:', out.get('resumable'), 'bytes_in:', out.get('bytes_in'),
              'calls:', out.get('calls'), 'peak:', out.get('peak'))
        for k, t in out.get('problems', []):
            print('PROBLEM', k, '--', t)
        return 1 if out.get('problems') else 0
    if 'algorithm' in r:
        return 1 if decompress_contract(ctx, True) else 0
    print('nothing to replay in', path, '(proof/tie failure: see log_tail / detail in the file)')
    return 1
