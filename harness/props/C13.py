"""C13: resumption reproduces the original session's security, or falls back cleanly.

Tie: hand model coq/Model/C13_Resume.v (server acceptance for session-ID / ticket / TLS 1.3
PSK, client offer and "did the server resume?" decision, SessionCache as a finite map with
expiry, invalidation) vs live endpoints on the same histories (vm_compute).
Theorems: coq/Props/C13.v.  Direct property oracle: harness/c13_live.py Live.oracle."""
import json
import multiprocessing
import os

import vlib
import c13_live as L
import c13_scen

LEVEL = 'proof'
META = {
    'text': 'Coq theorems (Props/C13.v) over ALL histories of connections (induction over an event list: connection attempts '
            'with any offered session, closes clean/fatal/abrupt, clock, configuration and ticket-key changes, cache eviction, '
            'ticket alteration/forgery, deviating clients) about a hand model of tlslite-ng resumption: the server resumes only '
            'from a completed, still-resumable, unexpired session found in the cache or under a current ticket key with a '
            'consistent ClientHello; the resumed connection has the original parameters; altered/forged/foreign tickets never '
            'resume (ideal AEAD, stated as section hypotheses); invalidated sessions never resume; when the server declines both '
            'ends complete a full handshake (full theorem for session ID, TLS<=1.2 ticket and TLS 1.3 PSK since the client repair '
            '/repo 51120a0).  TLS 1.3 PSK soundness is complete since /repo e172bf7 (lifetime); preservation of server name and '
            'suite under TLS 1.3 is refuted with a witness (RFC-permitted, known finding); '
            'server-side invalidation is proved for the session-ID path and refuted for stateless tickets.  The model is run by '
            'vm_compute on the same random and systematic histories as live TLSConnection pairs and compared per connection; '
            'a direct oracle written from the property text judges every live connection.',
    'note': 'Trusted: Coq kernel + vm_compute; the hand model (tied by correspondence only, not by translation); symbolic AEAD/PRF '
            '(hypotheses open_seal/open_other_key/open_tamper/open_junk, binder = equality of secrets); suite negotiation of a full '
            'handshake and the acceptable-suite list are oracles taken from the implementation; certificate, SRP and anonymous '
            'handshakes (no external PSK), TLS 1.0-1.3, no HelloRetryRequest, no renegotiation.',
    'technique': 'Rocq/Coq proof over hand model + vm_compute correspondence on live connection histories',
}
KEYNOTE = 'replay: ./check C13 --replay <file>  (re-runs the stored history on live endpoints and prints the oracle verdicts)'


def _job(job):
    try:
        return L.run_history(job)
    except Exception as e:  # noqa
        import traceback
        return {'seed': job['seed'], 'error': traceback.format_exc(), 'job': job}


def slim_events(events):
    out = []
    for e in events:
        out.append({k: v for k, v in e.items() if k not in ('suites', 'acc', 'fsuite', 'fcbc', 'fhash', 'falert')})
    return out


def run_jobs(jobs):
    with multiprocessing.Pool(vlib.NPROC) as pool:
        return pool.map(_job, jobs, chunksize=max(1, len(jobs) // (vlib.NPROC * 8)))


def run(ctx):
    quick = ctx.tier == 'quick'
    res = vlib.proof_stage(ctx, 'Props/C13.v', model_targets=['Model/C13_Resume.vo'])
    ctx.log('proof stage ok=%s failing=%s' % (res['ok'], res['failing']))
    ctx.cov['trusted_base'] = [
        'Coq 8.16.1 kernel + vm_compute (history evaluation)',
        'hand model coq/Model/C13_Resume.v, tied to /repo only by the correspondence below',
        'symbolic AEAD for tickets and collision-free binders (H-ideal-AEAD / H-ideal-PRF), explicit section hypotheses',
        'oracles taken from the implementation per connection: acceptable suites of the server, suite/alert of a full negotiation',
        'harness/loop.py in-memory endpoints, FakeClock, DetRandom',
    ]
    ctx.assumptions += ['clock monotone, multiples of 0.25 s', 'certificate, SRP and anonymous handshakes (no external PSK)',
                        'one client application keeping its Session objects; one SessionCache + settings per server configuration']
    # ---- histories: systematic first (corpus), then random
    jobs = []
    for i, (name, cfgs, events) in enumerate(c13_scen.scenarios(thorough=not quick)):
        jobs.append({'seed': 1000000 + i, 'cfgs': cfgs, 'events': events, 'name': name})
    n_sys = len(jobs)
    n_rand = 150 if quick else 3000
    mc, me = (6, 18) if quick else (10, 30)
    for _ in range(n_rand):
        jobs.append({'seed': ctx.rng.randrange(1 << 30), 'max_conns': mc, 'max_events': me})
    ctx.log('running %d systematic + %d random histories on live endpoints' % (n_sys, n_rand))
    results = run_jobs(jobs)
    ctx.log('live histories done')
    found = False
    tie_broken = None
    good = []
    for job, r in zip(jobs, results):
        if 'error' in r:
            tie_broken = 'harness failed on history seed=%s: %s' % (r['seed'], r['error'].splitlines()[-1])
            ctx.log(r['error'])
            continue
        good.append((job, r))
        stream = 'live-systematic' if 'name' in job else 'live-random'
        ctx.count(stream + ':connections', len(r['obs']), r['conn_classes'],
                  sample={'name': job.get('name'), 'events': slim_events(r['events']), 'obs': r['obs']}
                  if (len(good) % 37 == 1) else None)
        ctx.count(stream + ':histories', 1)
        for key, what, detail in r['verdicts']:
            if key.startswith('tie:'):
                tie_broken = '%s (%s)' % (what, key)
                continue
            if ctx.violation(key, what, {'cfgs': r['cfgs'], 'events': r['events'], 'seed': r['seed'],
                                         'name': job.get('name'), 'detail': detail, 'how': KEYNOTE}):
                found = True
    # ---- the same histories on the Coq model
    if res['model_ok']:
        lits = [L.history_lit(r) for _, r in good]
        bad, errs = vlib.coq_bad_indices(
            'C13', ['Model.C13_Resume'], 'list scfg * list event * list (list Z)',
            'chk_hist', lits, shard=max(4, (len(lits) + 15) // 16) if quick else 60,
            timeout=900 if quick else 3000)
        ctx.log('model vs implementation: %d histories, %d disagree, %d evaluation errors'
                % (len(lits), len(bad), len(errs)))
        ctx.count('model-vs-impl(vm_compute):histories', len(lits), [('agree', len(lits) - len(bad))])
        for e in errs:
            tie_broken = 'history evaluation failed: ' + e[:400]
            ctx.log(e[-1200:])
        for i in bad[:5]:
            job, r = good[i]
            rc, out = vlib.coq_eval('C13dbg', ['Model.C13_Resume'], ['sobserve %s' % _hl(r)])
            ctx.log('model/impl disagreement on history seed=%s name=%s\n impl: %s\n model: %s'
                    % (r['seed'], job.get('name'), r['obs'], ' '.join(out.split())[-1500:]))
            if not found:
                tie_broken = 'model disagrees with implementation on history seed=%s name=%s' % (r['seed'], job.get('name'))
                ctx.write_replay({'cfgs': r['cfgs'], 'events': r['events'], 'seed': r['seed'], 'impl_obs': r['obs'],
                                  'model': ' '.join(out.split())[-3000:], 'kind': 'model-impl-disagreement'})
    else:
        tie_broken = tie_broken or ('model does not compile: %s' % res['failing'])
    ctx.cov['rule'] = ('history = systematic scenario (every acceptance condition and every event kind around one resumption attempt, '
                       'per version and path) or random history (<=%d connections, <=%d events, 1-2 server configurations); '
                       'distinct non-trivial = per connection (version class, mechanism offered on the wire, outcome, failed '
                       'session conditions, failed hello-consistency conditions)' % (mc, me))
    if tie_broken and not found:
        ctx.violation('tie-broken', tie_broken, {'correspondence': 'Model/C13_Resume.v vs live endpoints', 'detail': tie_broken},
                      found_input=False)
        found = True
    vlib.broken_proof_verdict(ctx, res, found)


def _hl(r):
    lit = L.history_lit(r)
    # (cfgs, events, expected) -> "cfgs events"
    import re
    m = re.match(r'\((\[.*?\]),\n (\[.*\]),\n (\[.*\])\)$', lit, flags=re.S)
    return '%s %s' % (m.group(1), m.group(2))


def replay(ctx, path):
    with open(path) as f:
        r = json.load(f)
    if 'events' not in r:
        print('nothing to replay (no history stored):', r.get('what'))
        return 1
    out = L.run_history({'seed': r.get('seed', 1), 'cfgs': r['cfgs'], 'events': r['events']})
    for c in out['cfgs']:
        print('server configuration:', c)
    for e in slim_events(out['events']):
        print('  event:', e)
    print('observations per connection (see Model/C13_Resume.v observe):')
    for o in out['obs']:
        print('  ', o)
    for key, what, detail in out['verdicts']:
        print('ORACLE: [%s] %s' % (key, what))
    return 1 if out['verdicts'] else 0
