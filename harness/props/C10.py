"""C10: signatures and key agreement are sound, strict and never emitted when faulty.

Proof: coq/Props/C10.v (RSA PKCS#1 v1.5 / PSS over a hash oracle, blinded CRT private operation,
FFDH, X25519/X448 all-zero check, sign-then-verify at every signing site).
Tie:   translator/units_c10.py regenerates Gen/C10_Tables.v (DigestInfo prefixes, table of signing
       sites, fingerprints of the modelled functions) on every run; the hand-written models are
       evaluated by vm_compute on the same inputs as the implementation.
Direct oracle (runs even when Coq is broken): openssl CLI as independent signer/verifier for every
key type of /repo/tests, mutations, crafted non-canonical RSA blocks, invalid key shares against the
key-exchange classes and in live handshakes, fault injection into every private-key operation of
live handshakes."""
import hashlib
import json
import multiprocessing as mp
import os
import random
import sys

import vlib
from vlib import blit, zlit

sys.path.insert(0, os.path.join(vlib.ROOT, 'translator'))
import units  # noqa: E402

LEVEL = 'proof'
META = {
    'text': 'Coq theorems (Props/C10.v): RSA verify accepts exactly the canonical PKCS#1 v1.5 encodings (one per hash, two for SHA-1), '
            'signatures made with the blinded CRT private operation verify for every valid key, EMSA-PSS verification accepts iff all six '
            'checks pass and signing then verifying succeeds for every salt, FFDH agreement and the exact set of refused shares, the '
            'X25519/X448 all-zero check, and: at every signing site of keyexchange.py/tlsconnection.py/tlsrecordlayer.py a signature that '
            'fails verification under the signer\'s own key never reaches message construction.  Tables regenerated from /repo on each run; '
            'models evaluated by vm_compute against the implementation; independent verifier: openssl CLI; fault injection in live handshakes.',
    'note': 'Trusted: Coq kernel + vm_compute; hash functions as oracles (hashlib); H-rsa-key as hypothesis (instance proved for a small key); '
            'python-ecdsa (ECDSA/EdDSA arithmetic, ECDH point validation) is external: only cross-checked against openssl; X25519/X448 ladder is '
            'modelled and validated (RFC 7748 vectors, implementation), not proved; hand-written models tied by evaluation and by source '
            'fingerprints, not by translation.',
    'technique': 'Rocq/Coq proof over hand models + regenerated tables + vm_compute correspondence + openssl cross-check + fault injection',
}
MODEL_TARGETS = ['Gen/C10_Tables.vo', 'Model/C10_RsaMath.vo', 'Model/C10_RsaSig.vo', 'Model/C10_Dh.vo', 'Model/C10_Dsa.vo',
                 'Model/C10_SignSites.vo', 'Spec/C10_DigestInfo.vo']
CORPUS = os.path.join(vlib.ROOT, 'corpus', 'C10')


# ------------------------------------------------------------------------------------------
# worker: sign/verify cross-check, mutations, crafted blocks for one (key, scheme)
def der_seq(r, s, lead_zero=False, long_len=False, trailing=b''):
    def enc_int(v, lz=False):
        b = v.to_bytes((v.bit_length() + 8) // 8 or 1, 'big')
        if lz:
            b = b'\x00' + b
        return b'\x02' + bytes([len(b)]) + b
    body = enc_int(r, lead_zero) + enc_int(s) + trailing
    if long_len or len(body) > 127:
        ln = b'\x81' + bytes([len(body)]) if len(body) < 256 else b'\x82' + len(body).to_bytes(2, 'big')
        if long_len and len(body) <= 127:
            ln = b'\x81' + bytes([len(body)])
        return b'\x30' + ln + body
    return b'\x30' + bytes([len(body)]) + body


def der_parse(sig):
    from ecdsa.util import sigdecode_der
    return sigdecode_der(sig, 1 << 2000)


def sig_worker(args):
    import c10_util as U
    kname, kfile, kind, scheme, h, slen, seed, nflips, ossl_on_mut = args
    rng = random.Random(seed)
    out = []
    ossl = U.OpenSSL()
    try:
        key = U.load_key(kfile)
        if kind == 'rsa-pss-restricted':
            kind = 'rsa-pss'
        want_type = {'rsa': ('rsa',), 'rsa-pss': ('rsa-pss',), 'ecdsa': ('ecdsa',), 'eddsa': ('Ed25519', 'Ed448'), 'dsa': ('dsa',)}[kind]
        if key.key_type not in want_type:
            raise RuntimeError('key %s has type %s, the harness table says %s' % (kfile, key.key_type, kind))
        # (openssl pkeyutl -rawin cannot read an empty file: EdDSA messages are non-empty)
        msg = bytes(rng.randrange(256) for _ in range(rng.choice([0 if kind != 'eddsa' else 3, 1, 31, 32, 64, 100, 200])))
        base = dict(kname=kname, kind=kind, scheme=scheme, hash=h, slen=slen, msg=msg.hex())

        def rec(cls, want, got, **kw):
            d = dict(base)
            d.update(cls=cls, want=want, got=got)
            d.update(kw)
            out.append(d)
        if scheme == 'pss' and (int(key.n).bit_length() - 1 + 7) // 8 < U.HLEN[h] + slen + 2:
            # RFC 8017 9.1.1 step 3: "encoding error"; both implementations must refuse
            try:
                U.tl_sign(key, kind, msg, scheme, h, slen)
                got = 'signed'
            except Exception as e:  # noqa
                got = type(e).__name__
            rec('pss-hash-and-salt-do-not-fit', True, True if got == 'EncodingError' else got,
                openssl_signs=ossl.sign(kfile, kind, msg, scheme, h, slen) is not None)
            return out
        sig = U.tl_sign(key, kind, msg, scheme, h, slen)
        base['sig'] = sig.hex()
        rec('self-verify', True, U.tl_verify(key, kind, sig, msg, scheme, h, slen))
        rec('openssl-verifies-tlslite-sig', True, ossl.verify(kfile, kind, sig, msg, scheme, h, slen))
        osig = ossl.sign(kfile, kind, msg, scheme, h, slen)
        if osig is None:
            rec('openssl-sign', True, 'openssl-could-not-sign')
        else:
            rec('tlslite-verifies-openssl-sig', True, U.tl_verify(key, kind, osig, msg, scheme, h, slen), osig=osig.hex())
        # ---- the same key object signs again (blinding state, nonce handling): still verifiable by both
        for j in (1, 2):
            mj = msg + bytes([j])
            sj = U.tl_sign(key, kind, mj, scheme, h, slen)
            rec('repeat-sign-%d-self-verify' % j, True, U.tl_verify(key, kind, sj, mj, scheme, h, slen), sig=sj.hex(), msg=mj.hex())
            rec('repeat-sign-%d-openssl' % j, True, ossl.verify(kfile, kind, sj, mj, scheme, h, slen), sig=sj.hex(), msg=mj.hex())
        # ---- mutations: all must be rejected
        muts = []
        nb = len(sig) * 8
        pos = {0, 7, nb - 1, nb - 8} | {rng.randrange(nb) for _ in range(nflips)} if nflips < nb else set(range(nb))
        for b in sorted(pos):
            m = bytearray(sig)
            m[b // 8] ^= 0x80 >> (b % 8)
            muts.append(('sig-bitflip', bytes(m), msg, scheme, h, slen, 'bit%d' % b))
        muts += [('sig-truncated', sig[:-1], msg, scheme, h, slen, ''), ('sig-extended', sig + b'\x00', msg, scheme, h, slen, ''),
                 ('sig-leading-zero', b'\x00' + sig, msg, scheme, h, slen, ''), ('sig-empty', b'', msg, scheme, h, slen, ''),
                 ('sig-all-zero', bytes(len(sig)), msg, scheme, h, slen, ''),
                 ('sig-all-ff', b'\xff' * len(sig), msg, scheme, h, slen, '')]
        m2 = bytearray(msg or b'\x00')
        m2[rng.randrange(len(m2))] ^= 1 << rng.randrange(8)
        muts += [('msg-bitflip', sig, bytes(m2), scheme, h, slen, ''), ('msg-extended', sig, msg + b'\x00', scheme, h, slen, '')]
        if h is not None:
            for h2 in ('sha1', 'sha256', 'sha384', 'sha512', 'md5', 'sha224'):
                if h2 != h and not (kind != 'rsa' and h2 in ('md5', 'sha224')) and not (scheme == 'pss' and h2 in ('md5', 'sha224')):
                    muts.append(('hash-swap', sig, msg, scheme, h2, U.HLEN[h2] if scheme == 'pss' and slen == U.HLEN[h] else slen, h2))
        if kind in ('rsa', 'rsa-pss'):
            other = 'pss' if scheme == 'pkcs1' else 'pkcs1'
            muts.append(('scheme-swap', sig, msg, other, h, U.HLEN[h] if other == 'pss' else 0, other))
            if scheme == 'pss':
                for s2 in (0, 1, 20, 32, slen + 1, max(slen - 1, 0)):
                    if s2 != slen:
                        muts.append(('saltlen-swap', sig, msg, scheme, h, s2, str(s2)))
        if kind in ('ecdsa', 'dsa'):
            try:
                r, s = der_parse(sig)
                muts += [('der-int-leading-zero', der_seq(r, s, lead_zero=True), msg, scheme, h, slen, ''),
                         ('der-long-length', der_seq(r, s, long_len=True), msg, scheme, h, slen, ''),
                         ('der-trailing-in-seq', der_seq(r, s, trailing=b'\x05\x00'), msg, scheme, h, slen, ''),
                         ('der-trailing-after-seq', sig + b'\x05\x00', msg, scheme, h, slen, ''),
                         ('r-zero', der_seq(0, s), msg, scheme, h, slen, ''), ('s-zero', der_seq(r, 0), msg, scheme, h, slen, '')]
                if kind == 'ecdsa':
                    order = int(key.public_key.curve.order)
                    muts += [('r-plus-order', der_seq(r + order, s), msg, scheme, h, slen, ''),
                             ('s-equals-order', der_seq(r, order), msg, scheme, h, slen, '')]
                else:
                    muts += [('r-plus-q', der_seq(r + int(key.q), s), msg, scheme, h, slen, ''),
                             ('s-plus-q', der_seq(r, s + int(key.q)), msg, scheme, h, slen, '')]
            except Exception as e:  # noqa
                rec('der-parse', True, 'exc:' + type(e).__name__)
        for cls, sg, mm, sc, hh, sl, detail in muts:
            if sg == sig and mm == msg and sc == scheme and hh == h and sl == slen:
                continue
            got = U.tl_verify(key, kind, sg, mm, sc, hh, sl)
            ov = None
            if ossl_on_mut and cls in ('sig-bitflip', 'der-int-leading-zero', 'der-long-length', 'msg-bitflip'):
                ov = ossl.verify(kfile, kind, sg, mm, sc, hh, sl)
            rec('mut:' + cls, False, got, detail=detail, mut_sig=sg.hex() if sg != sig else None,
                mut_msg=mm.hex() if mm != msg else None, v_scheme=sc, v_hash=hh, v_slen=sl, openssl=ov)
        # ---- algebraic edge values of each verifier (not reachable by bit flips): r, s in {0, 1, q-1, q, q+1, +q},
        #      negative / padded DER integers, (r, q-s); EdDSA S+L, S=L, S=0; RSA 0, 1, n-1, n, s+n (same length).
        #      Expected verdict: reference verifiers written from FIPS 186-4 / RFC 8032 / RFC 8017 (harness/c05_refsig.py)
        import c05_refsig as R
        kt = key.key_type
        dg = None if kind == 'eddsa' else hashlib.new(h, msg).digest()
        ref_in = msg if kind == 'eddsa' else (dg[:key.public_key.curve.baselen] if kind == 'ecdsa' else dg)

        def ref(sg, m_in=None):
            if kind in ('rsa', 'rsa-pss') and scheme == 'pss' and slen != U.HLEN[h]:
                return False if sg != sig else True       # (the reference knows salt length = hash length only)
            return R.ref_verify(key, kt, h, scheme, ref_in if m_in is None else m_in, sg)
        for name in R.edge_names(kt):
            try:
                sg = R.edge_signature(key, kt, sig, name)
            except Exception:  # noqa
                continue
            want_e = bool(ref(sg))
            got = U.tl_verify(key, kind, sg, msg, scheme, h, slen)
            rec('edge:' + name, want_e, got, mut_sig=sg.hex(), v_scheme=scheme, v_hash=h, v_slen=slen,
                openssl=ossl.verify(kfile, kind, sg, msg, scheme, h, slen) if ossl_on_mut or name in ('q-s', 'sig+n', 'r1-s0', 'S+L') else None)
        if kind in ('rsa', 'rsa-pss'):
            # RFC 8017 5.2.2 step 1: a signature representative >= n is out of range.  s+n has the same byte
            # length only when s < 256^k - n: search messages until it fits (always for the 8k+1-bit key)
            k = (int(key.n).bit_length() + 7) // 8
            for t in range(64):
                mt = msg if t == 0 else msg + b'|' + str(t).encode()
                st = sig if t == 0 else U.tl_sign(key, kind, mt, scheme, h, slen)
                v = int.from_bytes(st, 'big') + int(key.n)
                if v < 256 ** k:
                    sg = v.to_bytes(k, 'big')
                    rec('edge:sig+n-same-length', False, U.tl_verify(key, kind, sg, mt, scheme, h, slen), mut_sig=sg.hex(),
                        mut_msg=mt.hex() if mt != msg else None, v_scheme=scheme, v_hash=h, v_slen=slen,
                        detail='found after %d signature(s)' % (t + 1), openssl=ossl.verify(kfile, kind, sg, mt, scheme, h, slen))
                    break
                if int(key.n) >> (8 * k - 4) >= 14 and t >= 5:
                    break          # modulus 0xE.../0xF...: s+n almost never fits in k bytes
        # ---- an rsa-pss key must not verify PKCS#1 v1.5 even when such a signature was made with it
        if kind == 'rsa-pss' and scheme == 'pss' and slen == U.HLEN[h]:
            try:
                s1 = bytes(key.hashAndSign(bytearray(msg), 'pkcs1', h, 0))
                rec('mut:pkcs1-made-with-pss-key', False, U.tl_verify(key, kind, s1, msg, 'pkcs1', h, 0), mut_sig=s1.hex(),
                    v_scheme='pkcs1', v_hash=h, v_slen=0)
            except Exception as e:  # noqa
                rec('mut:pkcs1-made-with-pss-key', False, False, detail='sign raised ' + type(e).__name__)
        # ---- crafted blocks (made with the private key)
        if kind == 'rsa' and scheme == 'pkcs1':
            digest = hashlib.new(h, msg).digest()
            for cls, sg, accept in U.crafted_pkcs1(key, h, digest, rng):
                got = U.tl_verify(key, kind, sg, msg, scheme, h, slen)
                rec('crafted:' + cls, accept, got, mut_sig=sg.hex(), v_scheme=scheme, v_hash=h, v_slen=slen,
                    openssl=ossl.verify(kfile, kind, sg, msg, scheme, h, slen))
        if kind in ('rsa', 'rsa-pss') and scheme == 'pss':
            mhash = hashlib.new(h, msg).digest()
            for cls, sg, vs, accept in U.crafted_pss(key, h, mhash, slen, rng):
                got = U.tl_verify(key, kind, sg, msg, scheme, h, vs)
                rec('crafted-pss:' + cls, accept, got, mut_sig=sg.hex(), v_scheme=scheme, v_hash=h, v_slen=vs,
                    openssl=ossl.verify(kfile, kind, sg, msg, scheme, h, vs))
    except Exception as e:  # noqa
        import traceback
        out.append(dict(kname=kname, kind=kind, scheme=scheme, hash=h, slen=slen, cls='worker-error', want=True,
                        got='exc:%s:%s' % (type(e).__name__, e), tb=traceback.format_exc()[-1200:]))
    finally:
        ossl.close()
    return out


def concurrency_case(kfile, kind, variant, nthreads):
    """make_case() for c10_sched.explore: `nthreads` threads sign with ONE key object; judge = every
    signature verifies under the public key (independently re-encoded for PKCS#1), a signature made
    AFTERWARDS with the same object verifies too, and the RSA blinding pair still satisfies its invariant."""
    import c10_util as U

    def make():
        key = U.load_key(kfile if not kfile.startswith('corpus:') else os.path.join(CORPUS, kfile[7:]))
        msgs = [b'thread %d message' % i for i in range(nthreads + 1)]
        if variant == 'warm':
            U.tl_sign(key, kind, b'warm-up', 'pkcs1' if kind == 'rsa' else 'pss' if kind == 'rsa-pss' else None,
                      'sha256' if kind != 'eddsa' else None, 32 if kind == 'rsa-pss' else 0)
        specs = []
        for i in range(nthreads + 1):
            if kind == 'rsa':
                specs.append(('pkcs1', 'sha256', 0) if i % 2 == 0 else ('pss', 'sha256', 32))
            elif kind == 'rsa-pss':
                specs.append(('pss', 'sha256', 32))
            elif kind == 'eddsa':
                specs.append((None, None, None))
            else:
                specs.append((None, 'sha256', None))
        thunks = [(lambda i=i: U.tl_sign(key, kind, msgs[i], *specs[i])) for i in range(nthreads)]

        def judge(results):
            for i, r in enumerate(results):
                if r[0] != 'ok':
                    return 'thread %d: signing ended with %s' % (i, r[1])
                v = U.tl_verify(key, kind, r[1], msgs[i], *specs[i])
                if v is not True:
                    return 'the signature made by thread %d (%s) does not verify under the public key: %s' % (i, specs[i][0], v)
                if kind == 'rsa' and specs[i][0] == 'pkcs1':
                    k = (int(key.n).bit_length() + 7) // 8
                    T = U.digestinfo('sha256', hashlib.sha256(msgs[i]).digest())
                    em = b'\x00\x01' + b'\xff' * (k - len(T) - 3) + b'\x00' + T
                    if pow(int.from_bytes(r[1], 'big'), int(key.e), int(key.n)) != int.from_bytes(em, 'big'):
                        return 'thread %d: sig^e mod n is not the EMSA-PKCS1-v1_5 encoding' % i
            j = nthreads
            later = U.tl_sign(key, kind, msgs[j], *specs[j])
            if U.tl_verify(key, kind, later, msgs[j], *specs[j]) is not True:
                return 'a signature made with the same key object AFTER the concurrent calls does not verify (state left corrupted)'
            if kind in ('rsa', 'rsa-pss') and int(key.blinder) and \
                    (int(key.blinder) * pow(int(key.unblinder), int(key.e), int(key.n))) % int(key.n) != 1:
                return 'blinding invariant blinder * unblinder^e = 1 (mod n) no longer holds'
            return None
        return key, thunks, judge
    return make


def concurrency_worker(args):
    import c10_sched
    kfile, kind, variant, nthreads, max_runs = args
    try:
        r = c10_sched.explore(concurrency_case(kfile, kind, variant, nthreads), max_runs=max_runs)
        r.update(kfile=kfile, kind=kind, variant=variant, nthreads=nthreads)
        return r
    except Exception as e:  # noqa
        import traceback
        return dict(kfile=kfile, kind=kind, variant=variant, nthreads=nthreads, error='%s: %s' % (type(e).__name__, e),
                    tb=traceback.format_exc()[-1000:])


SPELLINGS = ['pkcs1', 'PKCS1', 'Pkcs1', 'pss', 'PSS']
SIG_OIDS = {'sha1': [0x2a, 0x86, 0x48, 0x86, 0xf7, 0xd, 0x1, 0x1, 0x5], 'sha256': [0x2a, 0x86, 0x48, 0x86, 0xf7, 0xd, 0x1, 0x1, 0xb]}


def twin_keys(kfile):
    """(rsa-typed key, rsa-pss-typed key) over the SAME modulus and private exponent"""
    import c10_util as U
    from tlslite.utils.python_rsakey import Python_RSAKey
    k = U.load_key(kfile)
    mk = lambda t: Python_RSAKey(int(k.n), int(k.e), int(k.d), int(k.p), int(k.q), int(k.dP), int(k.dQ), int(k.qInv), key_type=t)
    return mk('rsa'), mk('rsa-pss')


def dispatch_calls(key, sig, msg, h, slen):
    """every public verification entry point x spelling: (entry, spelling, thunk)"""
    import hashlib as hl
    from tlslite.signed import SignedObject
    digest = hl.new(h, msg).digest()
    out = []
    for sp in SPELLINGS:
        out.append(('verify', sp, lambda sp=sp: key.verify(bytearray(sig), bytearray(digest), sp, h, slen)))
        out.append(('hashAndVerify', sp, lambda sp=sp: key.hashAndVerify(bytearray(sig), bytearray(msg), sp, h, slen)))
        out.append(('hashAndVerify-kw', sp, lambda sp=sp: key.hashAndVerify(bytearray(sig), bytearray(msg), rsaScheme=sp, hAlg=h.upper(), sLen=slen)))
    out.append(('hashAndVerify-default-scheme', 'PKCS1', lambda: key.hashAndVerify(bytearray(sig), bytearray(msg), hAlg=h)))
    if h == 'sha1':
        out.append(('hashAndVerify-all-defaults', 'PKCS1', lambda: key.hashAndVerify(bytearray(sig), bytearray(msg))))

    def so():
        o = SignedObject()
        o.tbs_data, o.signature, o.signature_alg = bytearray(msg), bytearray(sig), SIG_OIDS[h]
        return o.verify_signature(key)
    out.append(('SignedObject.verify_signature', 'PKCS1', so))
    return out


def dispatch_worker(args):
    """key_type x entry point x spelling of the scheme name x scheme the signature was made with.
    Oracle (from the property): a signature verifies only under the scheme it was made with and only if
    the key type allows that scheme (an rsa-pss key: PSS only); hashAndVerify and SignedObject must also
    ACCEPT the matching scheme in any spelling; verify() must accept the exact lower-case name."""
    kfile, seed = args
    rng = random.Random(seed)
    out = []
    try:
        k_rsa, k_pss = twin_keys(kfile)
        msg = bytes(rng.randrange(256) for _ in range(rng.choice([1, 20, 77])))
        for h in ('sha256', 'sha1'):
            slen = 32 if h == 'sha256' else 20
            sigs = {'pkcs1': bytes(k_rsa.hashAndSign(bytearray(msg), 'pkcs1', h, 0)),
                    'pss': bytes(k_rsa.hashAndSign(bytearray(msg), 'pss', h, slen))}
            for ktype, key in (('rsa', k_rsa), ('rsa-pss', k_pss)):
                for made, sig in sigs.items():
                    for entry, sp, thunk in dispatch_calls(key, sig, msg, h, slen):
                        try:
                            got = bool(thunk())
                        except Exception as e:  # noqa
                            got = 'exc:' + type(e).__name__
                        asked = sp.lower()
                        allowed = (asked == made) and not (ktype == 'rsa-pss' and made == 'pkcs1')
                        must_accept = allowed and (entry != 'verify' or sp == asked)
                        out.append(dict(kfile=kfile, key_type=ktype, entry=entry, spelling=sp, made_with=made, hash=h, slen=slen,
                                        got=got, must_accept=must_accept, must_reject=not allowed, msg=msg.hex(), sig=sig.hex()))
    except Exception as e:  # noqa
        import traceback
        out.append(dict(kfile=kfile, error='%s: %s' % (type(e).__name__, e), tb=traceback.format_exc()[-800:]))
    return out


def dsa_generate_worker(seed):
    """Python_DSAKey.generate(): do the generated parameters satisfy the hypotheses of
    dsa_sign_verifies, and do signatures made with the generated key verify?"""
    import loop
    from tlslite.utils.python_dsakey import Python_DSAKey
    import tlslite.utils.python_dsakey as pdk
    rnd = loop.DetRandom(seed).install()
    draws = []
    saved = pdk.getRandomNumber

    def rec_rand(lo, hi):
        v = saved(lo, hi)
        draws.append((lo, hi, v))
        return v
    pdk.getRandomNumber = rec_rand
    try:
        k = Python_DSAKey.generate(1024, 160)
        pdk.getRandomNumber = saved
        # the construction of Model/C10_Dsa.v dsa_gen_key, recomputed here from the recorded draws:
        # ... (k_i for p)*, (index for g)+, x
        p_, q_ = int(k.p), int(k.q)
        kk = (p_ - 1) // (2 * q_)
        ks = [v for lo, hi, v in draws if hi == (1 << 1024) // (2 * q_)]
        idx = [v for lo, hi, v in draws if (lo, hi) == (2, p_ - 1)]
        xs = [v for lo, hi, v in draws if (lo, hi) == (1, q_ - 1)]
        as_modelled = bool(ks and ks[-1] == kk and p_ == 2 * kk * q_ + 1 and idx and int(k.g) == pow(idx[-1], (p_ - 1) // q_, p_)
                           and xs and int(k.private_key) == xs[-1] and int(k.public_key) == pow(int(k.g), xs[-1], p_)
                           and pow(idx[-1], p_ - 1, p_) == 1)
        ok = 0
        msgs = [b'generated key message %d' % i for i in range(4)]
        for m in msgs:
            try:
                ok += bool(k.hashAndVerify(k.hashAndSign(m, 'sha1'), m, 'sha1'))
            except Exception:  # noqa
                pass
        return dict(p=int(k.p), q=int(k.q), g=int(k.g), x=int(k.private_key), y=int(k.public_key),
                    q_divides_p_minus_1=(int(k.p) - 1) % int(k.q) == 0, g_order_divides_q=pow(int(k.g), int(k.q), int(k.p)) == 1,
                    verified=ok, signed=len(msgs), seed=seed, as_modelled=as_modelled)
    except Exception as e:  # noqa
        return dict(error='%s: %s' % (type(e).__name__, e), seed=seed)
    finally:
        pdk.getRandomNumber = saved
        rnd.uninstall()


def odd_key_worker(which):
    """The two unusual-modulus keys of corpus/C10 (former findings 1 and 2): returns records"""
    import c10_util as U
    out = []
    ossl = U.OpenSSL()
    try:
        msg = b'corpus message for C10'
        if which == 'rsa704':
            kf = os.path.join(CORPUS, 'rsa704.pem')
            key = U.load_key(kf)
            k = (int(key.n).bit_length() + 7) // 8
            # 88-byte modulus, SHA-512 DigestInfo (83 bytes): PS would have 2 bytes; RFC 8017 9.2 step 3 refuses
            d = dict(key='rsa704', cls='short-ps-small-modulus', msg=msg.hex(), ps_len=k - 83 - 3)
            try:
                sig = bytes(key.hashAndSign(bytearray(msg), 'pkcs1', 'sha512', 0))
                d.update(signed=True)
            except Exception as e:  # noqa
                d.update(signed=False, exc=type(e).__name__)
                # the block the old code would have produced, made with the private key
                T = U.digestinfo('sha512', hashlib.sha512(msg).digest())
                sig = U.rsa_private_raw(key, b'\x00\x01' + b'\xff' * (k - len(T) - 3) + b'\x00' + T)
            d.update(sig=sig.hex(), tlslite_accepts=U.tl_verify(key, 'rsa', sig, msg, 'pkcs1', 'sha512', 0),
                     openssl_accepts=ossl.verify(kf, 'rsa', sig, msg, 'pkcs1', 'sha512', 0))
            # control: a hash that leaves >= 8 bytes of padding works both ways
            s2 = bytes(key.hashAndSign(bytearray(msg), 'pkcs1', 'sha256', 0))
            d.update(control_ok=U.tl_verify(key, 'rsa', s2, msg, 'pkcs1', 'sha256', 0) is True and
                     ossl.verify(kf, 'rsa', s2, msg, 'pkcs1', 'sha256', 0))
            out.append(d)
        else:
            kf = os.path.join(CORPUS, 'rsa1025.pem')
            key = U.load_key(kf)
            d = dict(key='rsa1025', cls='pss-modbits-1-mod-8', msg=msg.hex())
            try:
                sig = bytes(key.hashAndSign(bytearray(msg), 'pss', 'sha256', 32))
                d.update(signed=True, sig=sig.hex(), self_verify=U.tl_verify(key, 'rsa', sig, msg, 'pss', 'sha256', 32),
                         openssl_accepts=ossl.verify(kf, 'rsa', sig, msg, 'pss', 'sha256', 32))
            except Exception as e:  # noqa
                d.update(signed=False, exc=type(e).__name__)
            osig = ossl.sign(kf, 'rsa', msg, 'pss', 'sha256', 32)
            if osig is not None:
                d.update(osig=osig.hex(), openssl_self=ossl.verify(kf, 'rsa', osig, msg, 'pss', 'sha256', 32),
                         tlslite_accepts_openssl_sig=U.tl_verify(key, 'rsa', osig, msg, 'pss', 'sha256', 32))
            # a well-formed EM behind a NON-zero leading byte (value still below n) must be rejected
            mh = hashlib.sha256(msg).digest()
            em, emlen = U.pss_em(key, mh, 'sha256', bytes(32))
            bad = U.rsa_private_raw(key, b'\x01' + em)
            if bad is not None:
                d.update(lead_sig=bad.hex(), leading_byte_accepted=U.tl_verify(key, 'rsa', bad, msg, 'pss', 'sha256', 32),
                         leading_byte_openssl=ossl.verify(kf, 'rsa', bad, msg, 'pss', 'sha256', 32))
            s1 = bytes(key.hashAndSign(bytearray(msg), 'pkcs1', 'sha256', 0))
            d.update(pkcs1_ok=U.tl_verify(key, 'rsa', s1, msg, 'pkcs1', 'sha256', 0) is True and
                     ossl.verify(kf, 'rsa', s1, msg, 'pkcs1', 'sha256', 0))
            out.append(d)
    finally:
        ossl.close()
    return out


# ------------------------------------------------------------------------------------------
# worker: key-exchange classes against invalid / valid shares (direct calls)
def kex_worker(args):
    import c10_util as U
    what, seed = args
    rng = random.Random(seed)
    from tlslite.keyexchange import FFDHKeyExchange, ECDHKeyExchange
    from tlslite.mathtls import RFC7919_GROUPS, goodGroupParameters
    from tlslite.constants import GroupName
    from tlslite.errors import TLSIllegalParameterException, TLSDecodeError
    out = []

    def attempt(f):
        try:
            return ('ok', bytes(f()))
        except (TLSIllegalParameterException, TLSDecodeError) as e:
            return ('refused', type(e).__name__)
        except Exception as e:  # noqa
            return ('exc', type(e).__name__ + ':' + str(e)[:80])
    if what[0] == 'ffdh':
        _, gi, ver = what
        g, p = (RFC7919_GROUPS[gi] if gi < 10 else goodGroupParameters[gi - 10])
        kex = FFDHKeyExchange(None, ver, g, p)
        x = kex.get_random_private_key()
        n = (p.bit_length() + 7) // 8
        for cls, y in U.ffdh_bad_shares(p):
            share = y
            if ver >= (3, 4):
                if y < 0:
                    continue
                share = bytearray(y.to_bytes(max(n, (y.bit_length() + 7) // 8), 'big'))
            out.append(dict(what='ffdh', group=gi, ver=ver, cls=cls, want='refused', got=attempt(lambda: kex.calc_shared_key(x, share))))
        if ver >= (3, 4):
            for cls, b in (('short', bytearray(b'\x02' * (n - 1))), ('long', bytearray(b'\x00' + b'\x02' * n)), ('empty', bytearray())):
                out.append(dict(what='ffdh', group=gi, ver=ver, cls='len-' + cls, want='refused',
                                got=attempt(lambda: kex.calc_shared_key(x, b))))
        # agreement
        a, b = kex.get_random_private_key(), kex.get_random_private_key()
        A, B = kex.calc_public_value(a), kex.calc_public_value(b)
        ka, kb = attempt(lambda: kex.calc_shared_key(a, B)), attempt(lambda: kex.calc_shared_key(b, A))
        out.append(dict(what='ffdh', group=gi, ver=ver, cls='agree', want='agree', got=('agree',) if ka == kb and ka[0] == 'ok' else (ka, kb)))
    elif what[0] == 'x':
        _, is448, ver = what
        grp = GroupName.x448 if is448 else GroupName.x25519
        kex = ECDHKeyExchange(grp, ver)
        priv = kex.get_random_private_key()
        for i, b in enumerate(U.x_low_order_shares(is448)):
            out.append(dict(what='x448' if is448 else 'x25519', ver=ver, cls='low-order-%d' % i, share=b.hex(), want='refused',
                            got=attempt(lambda: kex.calc_shared_key(bytearray(priv), bytearray(b)))))
        size = 56 if is448 else 32
        for cls, b in (('short', b'\x09' * (size - 1)), ('long', b'\x09' * (size + 1)), ('empty', b'')):
            out.append(dict(what='x448' if is448 else 'x25519', ver=ver, cls='len-' + cls, want='refused',
                            got=attempt(lambda: kex.calc_shared_key(bytearray(priv), bytearray(b)))))
        a, b = kex.get_random_private_key(), kex.get_random_private_key()
        A, B = kex.calc_public_value(bytearray(a)), kex.calc_public_value(bytearray(b))
        ka, kb = attempt(lambda: kex.calc_shared_key(bytearray(a), B)), attempt(lambda: kex.calc_shared_key(bytearray(b), A))
        out.append(dict(what='x448' if is448 else 'x25519', ver=ver, cls='agree', want='agree',
                        got=('agree',) if ka == kb and ka[0] == 'ok' else (ka, kb)))
        # independent implementation: openssl pkeyutl -derive
        ov = openssl_x_derive(is448, bytes(a), bytes(B))
        out.append(dict(what='x448' if is448 else 'x25519', ver=ver, cls='openssl-derive', want='agree',
                        got=('agree',) if ov is not None and ka == ('ok', ov) else (ka, ov.hex() if ov else None)))
    elif what[0] == 'ec':
        _, gname, ver = what
        import ecdsa
        curve = {'secp256r1': ecdsa.NIST256p, 'secp384r1': ecdsa.NIST384p, 'secp521r1': ecdsa.NIST521p,
                 'brainpoolP256r1': ecdsa.BRAINPOOLP256r1, 'brainpoolP384r1': ecdsa.BRAINPOOLP384r1,
                 'brainpoolP512r1': ecdsa.BRAINPOOLP512r1}[gname]
        kex = ECDHKeyExchange(getattr(GroupName, gname), ver)
        priv = kex.get_random_private_key()
        for cls, b in U.ec_bad_points(curve, rng):
            want = 'refused'
            out.append(dict(what='ec:' + gname, ver=ver, cls=cls, share=b.hex(), want=want,
                            got=attempt(lambda: kex.calc_shared_key(priv, bytearray(b)))))
        a, b = kex.get_random_private_key(), kex.get_random_private_key()
        A, B = kex.calc_public_value(a), kex.calc_public_value(b)
        ka, kb = attempt(lambda: kex.calc_shared_key(a, B)), attempt(lambda: kex.calc_shared_key(b, A))
        out.append(dict(what='ec:' + gname, ver=ver, cls='agree', want='agree', got=('agree',) if ka == kb and ka[0] == 'ok' else (ka, kb)))
    return out


def openssl_x_derive(is448, priv, peer_pub):
    """shared secret computed by openssl from raw private/public X25519/X448 keys"""
    import subprocess
    import tempfile
    import shutil
    # RFC 8410 DER wrappers
    if is448:
        pk = bytes.fromhex('3046020100300506032b656f043a0438') + priv
        pb = bytes.fromhex('3042300506032b656f033900') + peer_pub
    else:
        pk = bytes.fromhex('302e020100300506032b656e04220420') + priv
        pb = bytes.fromhex('302a300506032b656e032100') + peer_pub
    d = tempfile.mkdtemp(prefix='c10-x-')
    try:
        with open(os.path.join(d, 'k.der'), 'wb') as f:
            f.write(pk)
        with open(os.path.join(d, 'p.der'), 'wb') as f:
            f.write(pb)
        r = subprocess.run(['openssl', 'pkeyutl', '-derive', '-keyform', 'DER', '-inkey', os.path.join(d, 'k.der'),
                            '-peerform', 'DER', '-peerkey', os.path.join(d, 'p.der')], capture_output=True)
        if r.returncode != 0:
            return None
        return r.stdout
    finally:
        shutil.rmtree(d, ignore_errors=True)


# ------------------------------------------------------------------------------------------
# model-vs-implementation cases (Gallina literals)
PREAMBLE = '''
Definition pad_of (z : Z) : padding := if z =? 0 then PadPkcs1 else if z =? 1 then PadPss else PadOther.
Definition CaseV := (Z * Z * bool * list Z * list Z * Z * option string * Z * Z * list (list Z * list Z) * option bool * Z)%type.
Definition chk_verify (c : CaseV) : bool :=
  let '(n, e, ispss, sig, data, pad, h, sLen, hLen, tbl, impl, code) := c in
  res_matches Bool.eqb (rsa_verify (table_lookup tbl) hLen ispss n e sig data (pad_of pad) h sLen) impl code.
Definition CaseE := (Z * list (list Z * list Z) * list Z * Z * list Z * option (list Z) * Z)%type.
Definition chk_encode (c : CaseE) : bool :=
  let '(hLen, tbl, mHash, emBits, salt, impl, code) := c in
  res_matches list_eqb (EMSA_PSS_encode (table_lookup tbl) hLen mHash emBits salt) impl code.
Definition CaseP := (Z * list Z * list Z)%type.
Definition chk_pad (c : CaseP) : bool :=
  let '(n, data, impl) := c in list_eqb (addPKCS1Padding_sig n data) impl.
Definition CaseM := (rsa_priv * Z * Z * list Z * list Z * Z * Z)%type.
Definition chk_math (c : CaseM) : bool :=
  let '(k, u, ui, ms, outs, bl, ub) := c in
  let '(cs, b) := raw_private_ops k (blind_create k u ui) ms in
  list_eqb cs outs && (bl_blinder b =? bl) && (bl_unblinder b =? ub)
  && list_eqb (map (fun m => powmod m (rk_d k) (rk_n k)) ms) outs.
Definition CaseS := (rsa_priv * Z * Z * list Z * option string * option (list Z) * Z)%type.
Definition chk_sign (c : CaseS) : bool :=
  let '(k, u, ui, data, h, impl, code) := c in
  res_matches list_eqb (rsa_sign (fun x => x) 0 (rk_n k) (fun m => fst (raw_private_op k (blind_create k u ui) m)) data PadPkcs1 h []) impl code.
Definition CaseF := (bool * Z * Z * Z * (Z + list Z) * option (list Z) * Z)%type.
Definition chk_ffdh (c : CaseF) : bool :=
  let '(tls13, g, p, x, sh, impl, code) := c in
  res_matches list_eqb (ffdh_calc_shared tls13 p x (match sh with inl y => ShareInt y | inr b => ShareBytes b end)) impl code.
Definition CaseDS := (dsa_key * list Z * Z * Z * Z * Z)%type.
Definition chk_dsasign (c : CaseDS) : bool :=
  let '(key, data, k, kinv, r, s) := c in
  let '(r', s') := dsa_sign key data k kinv in (r' =? r) && (s' =? s).
Definition CaseDV := (dsa_key * Z * Z * list Z * Z * bool)%type.
Definition chk_dsaverify (c : CaseDV) : bool :=
  let '(key, r, s, data, w, impl) := c in Bool.eqb (dsa_verify key r s data w) impl.
Definition CaseDB := (dsa_key * list Z * option (Z * Z) * list Z * Z * bool)%type.
Definition chk_dsader (c : CaseDB) : bool :=
  let '(key, sig, dec, data, w, impl) := c in
  Bool.eqb (dsa_verify_bytes (fun _ => dec) key sig data (fun _ => w)) impl.
Definition CaseN := (Z * bool * Z * Z * list Z * list Z * string * string * Z * Z * list (list Z * list Z) * option bool * Z)%type.
Definition chk_dispatch (c : CaseN) : bool :=
  let '(entry, ispss, n, e, sig, m, name, h, sLen, hLen, tbl, impl, code) := c in
  res_matches Bool.eqb
    (if entry =? 0 then rsa_verify_named (table_lookup tbl) hLen ispss n e sig m name (Some h) sLen
     else if entry =? 1 then rsa_hashAndVerify (table_lookup tbl) hLen ispss n e sig m name h sLen
     else signed_object_verify (table_lookup tbl) hLen ispss n e sig m h) impl code.
Definition CaseX := (bool * list Z * list Z * option (list Z) * Z)%type.
Definition chk_x (c : CaseX) : bool :=
  let '(is448, k, u, impl, code) := c in
  res_matches list_eqb (x_calc_shared is448 k u) impl code.
'''
EXC_CODE = {'IndexError': 1, 'ValueError': 2, 'AssertionError': 3, 'AttributeError': 4, 'TypeError': 5, 'KeyError': 6,
            'InvalidSignature': 120, 'EncodingError': 121, 'MessageTooLongError': 122, 'MaskTooLongError': 123,
            'UnknownRSAType': 124, 'TLSIllegalParameterException': 130}


def optstr(h):
    return 'None' if h is None else '(Some %s)' % vlib.strlit(h)


def tbl_lit(table):
    return '[' + ';'.join('(%s,%s)' % (blit(k), blit(v)) for k, v in sorted(table.items(), key=lambda kv: (len(kv[0]), kv[0]))) + ']'


class HashRecorder(object):
    """records secureHash(data, alg) -> digest calls made inside tlslite.utils.rsakey"""

    def __init__(self):
        import tlslite.utils.rsakey as rk
        self.rk = rk
        self.table = {}
        self.orig = rk.secureHash

    def __enter__(self):
        def rec(data, alg):
            r = self.orig(data, alg)
            self.table[bytes(data)] = bytes(r)
            return r
        self.rk.secureHash = rec
        return self

    def __exit__(self, *a):
        self.rk.secureHash = self.orig


def model_cases_worker(args):
    """Builds the model-vs-implementation literals of one family in a worker process."""
    import c10_util as U
    fam, seed, n = args
    rng = random.Random(seed)
    lits, meta = [], []
    if fam == 'verify':
        keys = [k for k in U.KEYS if k[2] in ('rsa', 'rsa-pss')]   # (the restricted key is skipped here)
        by = dict((k[0], k) for k in keys)
        for i in range(n):
            # the 1024-bit key is ~4x cheaper to evaluate in Coq than the 2048-bit ones
            kname, kfile, kind = by['rsapss'] if i % 8 == 3 else (by['rsa2048'] if i % 8 == 6 else by['rsa1024'])
            if n > 40 and i % 11 == 10:
                kname, kfile, kind = keys[(i // 11) % len(keys)]
            if i % 8 == 5:      # modulus of 8k+1 bits: emLen = k-1
                kname, kfile, kind = 'rsa1025', os.path.join(CORPUS, 'rsa1025.pem'), 'rsa'
            key = U.load_key(kfile)
            scheme, h, slen = rng.choice(U.schemes_for(kind) + ([('pkcs1', 'sha256', 0)] if kind == 'rsa-pss' else []))
            if i < 2:       # every crafted class at least once: PKCS#1 v1.5, then PSS
                scheme, h, slen = [('pkcs1', 'sha256', 0), ('pss', 'sha256', 32)][i]
            if kname == 'rsa1025':
                scheme, h, slen = rng.choice([('pss', 'sha256', 32), ('pss', 'sha1', 20), ('pss', 'sha256', 0)])
            msg = bytes(rng.randrange(256) for _ in range(rng.choice([0, 5, 40])))
            digest = hashlib.new(h, msg).digest()
            try:
                sig = bytes(key.sign(bytearray(digest), scheme, h, slen))
            except Exception:  # noqa
                continue
            cands = [('valid', sig, slen)]
            if scheme == 'pkcs1' and kind == 'rsa':
                cands += [(c, s, slen) for c, s, _ in U.crafted_pkcs1(key, h, digest, rng)]
            if scheme == 'pss':
                cands += [(c, s, vs) for c, s, vs, _ in U.crafted_pss(key, h, digest, slen, rng)]
            m = bytearray(sig)
            m[rng.randrange(len(m))] ^= 1 << rng.randrange(8)
            cands.append(('bitflip', bytes(m), slen))
            if kname == 'rsa1025':
                em1, _ = U.pss_em(key, digest, h, bytes(slen))
                lb = U.rsa_private_raw(key, b'\x01' + em1)
                if lb is not None:
                    cands.append(('leading-byte-01', lb, slen))
                vn = int.from_bytes(sig, 'big') + int(key.n)
                if vn < 256 ** len(sig):
                    cands.insert(1, ('valid-plus-n', vn.to_bytes(len(sig), 'big'), slen))
            cands.append(('too-big', (int(key.n) + 5).to_bytes(len(sig), 'big') if (int(key.n) + 5).bit_length() <= 8 * len(sig) else sig, slen))
            chosen = rng.sample(cands, min(len(cands), 3)) if i >= 2 else cands
            chosen += [c for c in cands if c[0] == 'valid-plus-n' and c not in chosen]
            for cls, sg, vs in chosen:
                vh = h
                if rng.random() < 0.1:
                    vh = rng.choice(['sha1', 'sha256', 'whirlpool'])
                vscheme = scheme if rng.random() < 0.93 else rng.choice(['pkcs1', 'pss', 'oaep'])
                if vscheme == 'pss' and vh == 'whirlpool':
                    vh = 'sha256'
                hl = U.HLEN.get(vh, 0)
                with HashRecorder() as hr:
                    try:
                        r = key.verify(bytearray(sg), bytearray(digest), vscheme, vh, vs)
                        impl, code = bool(r), 0
                    except Exception as e:  # noqa
                        impl, code = None, EXC_CODE.get(type(e).__name__, 99)
                pad = {'pkcs1': 0, 'pss': 1}.get(vscheme, 2)
                lits.append('(%s, %s, %s, %s, %s, %d, %s, %s, %d, %s, %s, %d)' % (
                    zlit(key.n), zlit(key.e), vlib.boollit(kind == 'rsa-pss'), blit(sg), blit(digest), pad, optstr(vh), zlit(vs), hl,
                    tbl_lit(hr.table), vlib.optlit(impl, vlib.boollit), code))
                meta.append(dict(fam=fam, key=kname, cls=cls, scheme=vscheme, hash=vh, slen=vs, impl=impl, code=code,
                                 sig=sg.hex(), digest=digest.hex()))
    elif fam == 'verify-raw':
        # hashAlg=None (TLS <= 1.1 MD5||SHA1, 36 bytes) and SHA-1 with/without NULL
        key = U.load_key('clientX509Key.pem')
        for i in range(n):
            data = bytes(rng.randrange(256) for _ in range(rng.choice([36, 20, 0, 116, 117, 118, 124, 125, 126])))
            try:
                sig = bytes(key.sign(bytearray(data), 'pkcs1', None))
            except Exception:  # noqa
                # sign refuses (< 8 bytes of padding): make the block the old code produced
                sig = U.rsa_private_raw(key, b'\x00\x01' + b'\xff' * (128 - len(data) - 3) + b'\x00' + data) if len(data) <= 125 else bytes(128)
            for vdata in (data, data[:-1] if data else b'\x00'):
                try:
                    impl, code = bool(key.verify(bytearray(sig), bytearray(vdata), 'pkcs1', None)), 0
                except Exception as e:  # noqa
                    impl, code = None, EXC_CODE.get(type(e).__name__, 99)
                lits.append('(%s, %s, false, %s, %s, 0, None, 0, 0, [], %s, %d)' % (
                    zlit(key.n), zlit(key.e), blit(sig), blit(vdata), vlib.optlit(impl, vlib.boollit), code))
                meta.append(dict(fam=fam, cls='raw', impl=impl, code=code, sig=sig.hex(), data=vdata.hex()))
    elif fam == 'encode':
        import tlslite.utils.rsakey as rk
        key = U.load_key('clientX509Key.pem')
        for i in range(n):
            h = rng.choice(['sha1', 'sha256', 'sha384', 'sha512'])
            hl = U.HLEN[h]
            slen = rng.choice([0, 1, hl, 20, 32, hl + 7])
            embits = rng.choice([1023, 1024, 1025, 2047, 8 * (hl + slen + 2), 8 * (hl + slen + 2) - 1, 8 * (hl + slen + 2) - 7,
                                 8 * (hl + slen + 1), 8 * (hl + slen + 2) + 9, rng.randrange(8, 1400)])
            mhash = bytes(rng.randrange(256) for _ in range(rng.choice([hl, hl, 0, 7])))
            salt = bytes(rng.randrange(256) for _ in range(slen))
            saved = rk.getRandomBytes
            rk.getRandomBytes = lambda k, _s=salt: bytearray(_s[:k])
            with HashRecorder() as hr:
                try:
                    impl, code = bytes(key.EMSA_PSS_encode(bytearray(mhash), embits, h, slen)), 0
                except Exception as e:  # noqa
                    impl, code = None, EXC_CODE.get(type(e).__name__, 99)
                finally:
                    rk.getRandomBytes = saved
            lits.append('(%d, %s, %s, %d, %s, %s, %d)' % (hl, tbl_lit(hr.table), blit(mhash), embits, blit(salt),
                                                         vlib.optlit(impl, blit), code))
            meta.append(dict(fam=fam, hash=h, slen=slen, embits=embits, code=code))
    elif fam == 'pad':
        keys = [U.load_key(f) for f in ('clientX509Key.pem', 'serverX509Key.pem')]
        for i in range(n):
            key = keys[i % 2]
            k = (int(key.n).bit_length() + 7) // 8
            L = rng.choice([0, 1, 20, 35, 51, k - 11, k - 4, k - 3, k - 2, k, k + 5])
            data = bytes(rng.randrange(256) for _ in range(L))
            impl = bytes(key._addPKCS1Padding(bytearray(data), 1))
            lits.append('(%s, %s, %s)' % (zlit(key.n), blit(data), blit(impl)))
            meta.append(dict(fam=fam, L=L, k=k))
    elif fam in ('math', 'sign'):
        import tlslite.utils.python_rsakey as prk
        from tlslite.utils.cryptomath import invMod, isPrime, lcm
        for i in range(n):
            bits = rng.choice([16, 24, 40, 64, 96, 128] if fam == 'math' else [40, 64, 96, 128])

            def prime(b):
                while True:
                    c = rng.getrandbits(b) | (1 << (b - 1)) | 1
                    if isPrime(c):
                        return c
            while True:
                p, q = prime(bits // 2), prime(bits - bits // 2)
                e = rng.choice([3, 17, 257, 65537])
                t = lcm(p - 1, q - 1)
                if p != q and invMod(e, t):
                    break
            key = prk.Python_RSAKey(p * q, e, 0, p, q)
            n_ = int(key.n)
            klit = '{| rk_n := %d; rk_e := %d; rk_d := %d; rk_p := %d; rk_q := %d; rk_dP := %d; rk_dQ := %d; rk_qInv := %d |}' % (
                n_, e, key.d, p, q, key.dP, key.dQ, key.qInv)
            while True:
                u = rng.randrange(2, n_)
                if invMod(u, n_):
                    break
            ui = invMod(u, n_)
            saved = prk.getRandomNumber
            prk.getRandomNumber = lambda lo, hi, _u=u: _u
            try:
                if fam == 'math':
                    ms = [rng.choice([0, 1, n_ - 1, rng.randrange(n_), rng.randrange(n_)]) for _ in range(rng.choice([1, 2, 5]))]
                    outs = [int(key._rawPrivateKeyOp(m)) for m in ms]
                    lits.append('(%s, %d, %d, %s, %s, %d, %d)' % (klit, u, ui, blit(ms), blit(outs), key.blinder, key.unblinder))
                    meta.append(dict(fam=fam, bits=bits, n_ops=len(ms)))
                else:
                    k = (n_.bit_length() + 7) // 8
                    data = bytes(rng.randrange(256) for _ in range(rng.choice([0, 1, max(k - 11, 0), max(k - 12, 0), max(k - 10, 0), max(k - 3, 0), k + 1])))
                    try:
                        impl, code = bytes(key.sign(bytearray(data), 'pkcs1', None)), 0
                    except Exception as ex:  # noqa
                        impl, code = None, EXC_CODE.get(type(ex).__name__, 99)
                    lits.append('(%s, %d, %d, %s, None, %s, %d)' % (klit, u, ui, blit(data), vlib.optlit(impl, blit), code))
                    meta.append(dict(fam=fam, bits=bits, L=len(data), k=k, code=code))
            finally:
                prk.getRandomNumber = saved
    elif fam == 'ffdh':
        from tlslite.keyexchange import FFDHKeyExchange
        from tlslite.mathtls import goodGroupParameters
        from tlslite.utils.cryptomath import isPrime
        primes = [(5, 23), (2, 2039), (2, 4294967087 * 2 + 1 if isPrime(4294967087 * 2 + 1) else 2879), goodGroupParameters[0]]
        for i in range(n):
            g, p = primes[-1] if i % 7 == 6 else rng.choice(primes[:3])
            p = int(p)
            g = int(g)
            ver = rng.choice([(3, 3), (3, 4)])
            kex = FFDHKeyExchange(None, ver, g, p)
            x = rng.randrange(1, 200 if p > 2 ** 64 else p)
            nb = (p.bit_length() + 7) // 8
            y = rng.choice([0, 1, 2, p - 2, p - 1, p, p + 1, rng.randrange(2, p), rng.randrange(2, p), pow(g, rng.randrange(1, p), p)])
            if ver == (3, 4):
                ln = rng.choice([nb, nb, nb, nb - 1, nb + 1])
                yb = y.to_bytes(max(ln, (y.bit_length() + 7) // 8), 'big') if ln >= (y.bit_length() + 7) // 8 else y.to_bytes((y.bit_length() + 7) // 8, 'big')
                share, slit = bytearray(yb), '(inr %s)' % blit(yb)
            else:
                share, slit = y, '(inl %s)' % zlit(y)
            try:
                impl, code = bytes(kex.calc_shared_key(x, share)), 0
            except Exception as ex:  # noqa
                impl, code = None, EXC_CODE.get(type(ex).__name__, 99)
            lits.append('(%s, %d, %d, %d, %s, %s, %d)' % (vlib.boollit(ver == (3, 4)), g, p, x, slit, vlib.optlit(impl, blit), code))
            meta.append(dict(fam=fam, p_bits=p.bit_length(), y=y if y < 2 ** 64 else 'big', ver=ver, code=code))
    elif fam == 'dispatch':
        import hashlib as hl
        from tlslite.signed import SignedObject
        k_rsa, k_pss = twin_keys('clientX509Key.pem')
        msg = bytes(rng.randrange(256) for _ in range(33))
        h, slen = 'sha256', 32
        digest = hl.new(h, msg).digest()
        sigs = {'pkcs1': bytes(k_rsa.hashAndSign(bytearray(msg), 'pkcs1', h, 0)), 'pss': bytes(k_rsa.hashAndSign(bytearray(msg), 'pss', h, slen))}
        allc = []
        for ispss, key in ((False, k_rsa), (True, k_pss)):
            for made, sig in sigs.items():
                for sp in SPELLINGS + ['oaep']:
                    allc.append((0, ispss, key, made, sig, sp))
                    allc.append((1, ispss, key, made, sig, sp))
                allc.append((2, ispss, key, made, sig, 'PKCS1'))
                allc.append((2, ispss, key, made, b'\x00' + sig, 'PKCS1'))
        rng.shuffle(allc)
        for entry, ispss, key, made, sig, sp in allc[:n]:
            with HashRecorder() as hr:
                try:
                    if entry == 0:
                        r = key.verify(bytearray(sig), bytearray(digest), sp, h, slen)
                    elif entry == 1:
                        r = key.hashAndVerify(bytearray(sig), bytearray(msg), sp, h.upper() if rng.random() < 0.3 else h, slen)
                    else:
                        o = SignedObject()
                        o.tbs_data, o.signature, o.signature_alg = bytearray(msg), bytearray(sig), SIG_OIDS[h]
                        try:
                            r = o.verify_signature(key)
                        except ValueError:
                            r = False
                    impl, code = bool(r), 0
                except Exception as ex:  # noqa
                    impl, code = None, EXC_CODE.get(type(ex).__name__, 99)
            lits.append('(%d, %s, %s, %s, %s, %s, %s, %s, %d, 32, %s, %s, %d)' % (
                entry, vlib.boollit(ispss), zlit(key.n), zlit(key.e), blit(sig), blit(digest if entry == 0 else msg), vlib.strlit(sp),
                vlib.strlit(h), slen, tbl_lit(hr.table), vlib.optlit(impl, vlib.boollit), code))
            meta.append(dict(fam=fam, entry=entry, key_is_pss=ispss, cls=made, scheme=sp, impl=impl, code=code))
    elif fam in ('dsasign', 'dsaverify', 'dsader'):
        import tlslite.utils.python_dsakey as pdk
        from tlslite.utils.cryptomath import invMod, isPrime
        from ecdsa.der import encode_sequence, encode_integer
        from ecdsa.util import sigdecode_der
        for i in range(n):
            qb = rng.choice([8, 16, 24, 32])
            while True:
                q = rng.getrandbits(qb) | (1 << (qb - 1)) | 1
                if isPrime(q):
                    break
            while True:
                m = rng.getrandbits(rng.choice([8, 24, 40])) | 1
                p = 2 * m * q + 1
                if isPrime(p):
                    g = pow(rng.randrange(2, p - 1), (p - 1) // q, p)
                    if g != 1:
                        break
            x = rng.randrange(1, q)
            key = pdk.Python_DSAKey(p, q, g, x)
            klit = '{| dk_p := %d; dk_q := %d; dk_g := %d; dk_x := %d; dk_y := %d |}' % (p, q, g, x, key.public_key)
            data = bytes(rng.randrange(256) for _ in range(rng.choice([0, 1, 2, 4, 20, 32])))
            k = rng.randrange(1, q)
            saved = pdk.getRandomNumber
            pdk.getRandomNumber = lambda lo, hi, _k=k: _k
            try:
                sig = bytes(key.sign(bytearray(data)))
            finally:
                pdk.getRandomNumber = saved
            r, s_ = sigdecode_der(sig, q)
            if fam == 'dsader':
                from ecdsa.der import remove_sequence, remove_integer
                m1 = bytearray(sig)
                m1[rng.randrange(len(m1))] ^= 1 << rng.randrange(8)
                for cls, sg in [('valid', sig), ('empty', b''), ('truncated', sig[:-1]), ('bitflip', bytes(m1)), ('leading-zero', b'\x00' + sig),
                                ('trailing-after-seq', sig + b'\x05\x00'), ('trailing-in-seq', der_seq(r, s_, trailing=b'\x05\x00')),
                                ('int-leading-zero', der_seq(r, s_, lead_zero=True)), ('long-length', der_seq(r, s_, long_len=True)),
                                ('garbage', bytes(rng.randrange(256) for _ in range(rng.randrange(1, 12))))]:
                    # what the external parser yields (the oracle `decode` of the model)
                    try:
                        body, rest = remove_sequence(sg)
                        if rest:
                            raise ValueError('rest')
                        rr, rest = remove_integer(body)
                        ss, rest = remove_integer(rest)
                        if rest:
                            raise ValueError('rest')
                        dec = (rr, ss)
                    except Exception:  # noqa
                        dec = None
                    try:
                        impl = bool(key.verify(bytearray(sg), bytearray(data)))
                    except Exception as ex:  # noqa
                        impl = 'exc:' + type(ex).__name__
                    if not isinstance(impl, bool):
                        lits.append('(%s, %s, None, %s, 0, true)' % (klit, blit(sg), blit(data)))    # never agrees with the model
                    else:
                        lits.append('(%s, %s, %s, %s, %d, %s)' % (klit, blit(sg), 'None' if dec is None else '(Some (%d, %d))' % dec,
                                                                 blit(data), invMod(dec[1], q) if dec else 0, vlib.boollit(impl)))
                    meta.append(dict(fam=fam, cls=cls, impl=impl, decoded=dec is not None, qbits=qb))
            elif fam == 'dsasign':
                lits.append('(%s, %s, %d, %d, %d, %d)' % (klit, blit(data), k, invMod(k, q), r, s_))
                meta.append(dict(fam=fam, qbits=qb, r0=(r == 0), s0=(s_ == 0)))
            else:
                for cls, rr, ss, dd in [('valid', r, s_, data), ('r+1', r + 1, s_, data), ('s+1', r, s_ + 1, data), ('r=0', 0, s_, data),
                                        ('s=q', r, q, data), ('r+q', r + q, s_, data), ('data', r, s_, data + b'\x01'),
                                        ('random', rng.randrange(1, q), rng.randrange(1, q), data)] + \
                        [('edge-%d-%d' % (a, b), a, b, data) for a in (0, 1, q - 1, q, q + 1) for b in (0, 1, q - 1, q)
                         if (a, b) != (q - 1, q - 1)][(i % 4)::4] + [('edge-1-0', 1, 0, data), ('edge-r-sq', r, s_ + q, data), ('edge-rq-s', r + q, s_, data)]:
                    try:
                        impl = bool(key.verify(bytearray(encode_sequence(encode_integer(rr), encode_integer(ss))), bytearray(dd)))
                    except Exception:  # noqa
                        continue
                    lits.append('(%s, %d, %d, %s, %d, %s)' % (klit, rr, ss, blit(dd), invMod(ss, q), vlib.boollit(impl)))
                    meta.append(dict(fam=fam, cls=cls, impl=impl, qbits=qb))
    elif fam == 'x':
        from tlslite.keyexchange import ECDHKeyExchange
        from tlslite.constants import GroupName
        vec = [  # RFC 7748 section 5.2 test vectors (scalar, u, output)
            (False, 'a546e36bf0527c9d3b16154b82465edd62144c0ac1fc5a18506a2244ba449ac4',
             'e6db6867583030db3594c1a424b15f7c726624ec26b3353b10a903a6d0ab1c4c',
             'c3da55379de9c6908e94ea4df28d084f32eccf03491c71f754b4075577a28552'),
            (False, '4b66e9d4d1b4673c5ad22691957d6af5c11b6421e0ea01d42ca4169e7918ba0d',
             'e5210f12786811d3f4b7959d0538ae2c31dbe7106fc03c3efc4cd549c715a493',
             '95cbde9476e8907d7aade45cb4b873f88b595a68799fa152e6f8f7647aac7957'),
            (True, '3d262fddf9ec8e88495266fea19a34d28882acef045104d0d1aae121700a779c984c24f8cdd78fbff44943eba368f54b29259a4f1c600ad3',
             '06fce640fa3487bfda5f6cf2d5263f8aad88334cbd07437f020f08f9814dc031ddbdc38c19c6da2583fa5429db94ada18aa7a7fb4ef8a086',
             'ce3e4ff95a60dc6697da1db1d85e6afbdf79b50a2412d7546d5f239fe14fbaadeb445fc66a01b0779d98223961111e21766282f73dd96b6f'),
            (True, '203d494428b8399352665ddca42f9de8fef600908e0d461cb021f8c538345dd77c3e4806e25f46d3315c44e0a5b4371282dd2c8d5be3095f',
             '0fbcc2f993cd56d3305b0b7d9e55d4c1a8fb5dbb52f8e9a1e9b6201b165d015894e56c4d3570bee52fe205e28a78b91cdfbde71ce8d157db',
             '884a02576239ff7a2f2f63b2db6a9ff37047ac13568e1e30fe63c4a7ad1b3ee3a5700df34321d62077e63633c575c1c954514e99da7c179d'),
        ]
        cases = [(a, bytes.fromhex(k), bytes.fromhex(u), bytes.fromhex(o)) for a, k, u, o in vec if n >= 8 or not a][:4 if n >= 8 else 1]
        for is448 in ((False, True) if n >= 8 else (False,)):
            size = 56 if is448 else 32
            for b in U.x_low_order_shares(is448)[2:2 + n]:
                cases.append((is448, bytes(rng.randrange(256) for _ in range(size)), b, None))
            for _ in range(n // 4):
                cases.append((is448, bytes(rng.randrange(256) for _ in range(size)), bytes(rng.randrange(256) for _ in range(size)), None))
            cases.append((is448, bytes(size), b'\x09' * (size - 1), None))      # wrong length: cheap
        for is448, k, u, want in cases:
            kex = ECDHKeyExchange(GroupName.x448 if is448 else GroupName.x25519, (3, 4))
            try:
                impl, code = bytes(kex.calc_shared_key(bytearray(k), bytearray(u))), 0
            except Exception as ex:  # noqa
                impl, code = None, EXC_CODE.get(type(ex).__name__, 99)
            lits.append('(%s, %s, %s, %s, %d)' % (vlib.boollit(is448), blit(k), blit(u), vlib.optlit(impl, blit), code))
            meta.append(dict(fam=fam, is448=is448, code=code, rfc_vector=want is not None,
                             rfc_ok=(want is None or impl == want), k=k.hex(), u=u.hex()))
    return fam, lits, meta


FAMILIES = {'verify': ('CaseV', 'chk_verify'), 'verify-raw': ('CaseV', 'chk_verify'), 'encode': ('CaseE', 'chk_encode'),
            'pad': ('CaseP', 'chk_pad'), 'math': ('CaseM', 'chk_math'), 'sign': ('CaseS', 'chk_sign'),
            'ffdh': ('CaseF', 'chk_ffdh'), 'x': ('CaseX', 'chk_x'), 'dsasign': ('CaseDS', 'chk_dsasign'),
            'dsaverify': ('CaseDV', 'chk_dsaverify'), 'dsader': ('CaseDB', 'chk_dsader'), 'dispatch': ('CaseN', 'chk_dispatch')}


# ------------------------------------------------------------------------------------------
def run(ctx):
    quick = ctx.tier == 'quick'
    found = False
    tie_broken = None
    ok, msg = units.generate('C10_Tables', vlib.COQ)
    ctx.log('translator: %s' % msg)
    if not ok:
        tie_broken = msg
    res = vlib.proof_stage(ctx, 'Props/C10.v', model_targets=MODEL_TARGETS)
    ctx.log('proof stage ok=%s failing=%s' % (res['ok'], res['failing']))
    ctx.cov['trusted_base'] = [
        'Coq 8.16.1 kernel + vm_compute',
        'hash functions (hashlib) as oracle `hash` with digest_size hLen; random salt/blinding values as inputs',
        'H-rsa-key: forall x<n, (x^e)^d = x mod n, and m^dP = m^d mod p, m^dQ = m^d mod q (section hypotheses; instance toy_key proved)',
        'hand-written models Model/C10_*.v: tied by vm_compute evaluation against the implementation and by source fingerprints',
        'translator/units_c10.py (ast analysis that builds the prefix and signing-site tables)',
        'python-ecdsa (ECDSA/EdDSA/ECDH point arithmetic): external, cross-checked with the openssl CLI only',
        'openssl 3.0 CLI as the independent verifier',
    ]
    ctx.assumptions += ['keys: 0 < n; byte strings are lists of 0..255; exponents >= 0',
                        'PSS sign/verify theorem needs numBits(n) mod 8 <> 1 (otherwise refuted: finding)',
                        'fault model: the k-th private-key operation of the signer\'s key object returns a wrong value']
    import c10_util as U
    import c10_live as L
    rng = ctx.rng
    pool = mp.Pool(vlib.NPROC)
    try:
        # ---------------- launch everything that needs no Coq
        sig_tasks = []
        for kname, kfile, kind in U.KEYS:
            for scheme, h, slen in U.schemes_for(kind):
                if quick and kname in ('rsa-nonca', 'rsa-pss-signed-cert', 'rsapss-dc', 'p256-client', 'p256-dc', 'p384-dc', 'ed25519-client',
                                       'ed25519-dc', 'dsa-client') and not (h in (None, 'sha256') and slen in (None, 0, 32)):
                    continue
                sig_tasks.append((kname, kfile, kind, scheme, h, slen, rng.randrange(2 ** 31), 6 if quick else 10 ** 9, not quick))
        a_sig = pool.map_async(sig_worker, sig_tasks, chunksize=1)
        a_odd = pool.map_async(odd_key_worker, ['rsa704', 'rsa1025'])
        a_disp = pool.map_async(dispatch_worker, [(f, rng.randrange(2 ** 31)) for f in ('serverRSAPSSKey.pem', 'clientX509Key.pem', 'serverX509Key.pem')])
        conc_tasks = [('clientX509Key.pem', 'rsa', 'fresh', 2, 4000), ('clientX509Key.pem', 'rsa', 'warm', 2, 4000),
                      ('serverRSAPSSKey.pem', 'rsa-pss', 'fresh', 2, 1500), ('corpus:rsa1025.pem', 'rsa', 'warm', 2, 1500),
                      ('serverECKey.pem', 'ecdsa', 'fresh', 2, 50), ('serverEd25519Key.pem', 'eddsa', 'fresh', 2, 50),
                      ('serverDSAKey.pem', 'dsa', 'fresh', 2, 50)]
        if not quick:
            conc_tasks += [('clientX509Key.pem', 'rsa', 'fresh', 3, 6000), ('clientX509Key.pem', 'rsa', 'warm', 3, 6000),
                           ('serverX509Key.pem', 'rsa', 'warm', 2, 4000)]
        a_conc = pool.map_async(concurrency_worker, conc_tasks, chunksize=1)
        a_dsagen = pool.map_async(dsa_generate_worker, [rng.randrange(2 ** 31) for _ in range(2 if quick else 8)])
        kex_tasks = []
        for ver in ((3, 3), (3, 4)):
            for gi in ((0, 1, 10) if quick else (0, 1, 2, 3, 4, 10, 11, 12, 13)):
                kex_tasks.append((('ffdh', gi, ver), rng.randrange(2 ** 31)))
            for is448 in (False, True):
                kex_tasks.append((('x', is448, ver), rng.randrange(2 ** 31)))
            for g in ('secp256r1', 'secp384r1', 'secp521r1', 'brainpoolP256r1', 'brainpoolP384r1', 'brainpoolP512r1'):
                kex_tasks.append((('ec', g, ver), rng.randrange(2 ** 31)))
        a_kex = pool.map_async(kex_worker, kex_tasks, chunksize=1)
        share_tasks = []
        from tlslite.mathtls import RFC7919_GROUPS
        import ecdsa
        p2048 = RFC7919_GROUPS[0][1]
        srng = random.Random(rng.randrange(2 ** 31))
        for ver in ((3, 3), (3, 4)) if quick else ((3, 1), (3, 2), (3, 3), (3, 4)):
            for role in ('server', 'client'):
                for cls, y in U.ffdh_bad_shares(p2048):
                    if y < 0:
                        continue
                    bad = y
                    if ver == (3, 4):
                        yb = y.to_bytes((max(y.bit_length(), 1) + 7) // 8, 'big')
                        bad = yb.rjust(256, b'\x00')
                    share_tasks.append((ver, 'ffdhe2048', role, cls, bad, 1))
                if ver == (3, 4):
                    share_tasks += [(ver, 'ffdhe2048', role, 'len-short', b'\x02' * 255, 1),
                                    (ver, 'ffdhe2048', role, 'len-long', b'\x00' + b'\x02' * 256, 1)]
                for is448, g in ((False, 'x25519'), (True, 'x448')):
                    for i, b in enumerate(U.x_low_order_shares(is448)):
                        share_tasks.append((ver, g, role, 'low-order-%d' % i, b, 1))
                    share_tasks += [(ver, g, role, 'len-short', b'\x09' * ((56 if is448 else 32) - 1), 1),
                                    (ver, g, role, 'len-long', b'\x09' * ((56 if is448 else 32) + 1), 1)]
                for g, curve in (('secp256r1', ecdsa.NIST256p), ('secp384r1', ecdsa.NIST384p)):
                    for cls, b in U.ec_bad_points(curve, srng):
                        share_tasks.append((ver, g, role, cls, b, 1))
        a_share = pool.map_async(L.run_share_case, share_tasks, chunksize=4)
        fls = L.flavours()
        a_base = pool.map_async(L.run_fault_case, [(fl, None, 1) for fl in fls], chunksize=1)
        # model-vs-impl literals
        fam_n = dict(verify=6, encode=40, pad=30, math=40, sign=24, ffdh=48, x=1) if quick else \
            dict(verify=120, encode=300, pad=120, math=300, sign=120, ffdh=400, x=8)
        fam_n['verify-raw'] = 6 if quick else 30
        fam_n['dsasign'] = 30 if quick else 300
        fam_n['dsaverify'] = 12 if quick else 100
        fam_n['dsader'] = 8 if quick else 60
        fam_n['dispatch'] = 36 if quick else 80
        a_model = pool.map_async(model_cases_worker, [(f, rng.randrange(2 ** 31), k) for f, k in sorted(fam_n.items())], chunksize=1)

        # ---------------- fault injection (needs the baselines first)
        base = a_base.get(600)
        fault_tasks = []
        for fl, r in zip(fls, base):
            v, why = L.judge_fault(r)
            ctx.count('fault-baseline', 1, [(r.get('name'), str(r.get('ops')))])
            if v != 'ok':
                tie_broken = tie_broken or 'fault-injection baseline for flavour %s unusable: %s' % (fl['name'], why)
                continue
            kinds = ['plus1']
            if r.get('key_type') in ('rsa', 'rsa-pss'):
                kinds = ['plus1', 'crt-half'] if quick else ['plus1', 'crt-half', 'zero', 'one', 'bitflip']
            for k in range(r['n_ops']):
                for fk in kinds:
                    fault_tasks.append((fl, k, 1, fk))
        fres = pool.map(L.run_fault_case, fault_tasks, chunksize=1)
        n_internal = 0
        for (fl, k, _, fk), r in zip(fault_tasks, fres):
            v, why = L.judge_fault(r)
            ctx.count('fault-injection', 1, [(fl['name'], k, fk, v)],
                      sample=dict(flavour=fl['name'], k=k, kind=fk, signer=r.get('signer'), peer=r.get('peer')) if k == 0 and fk == 'plus1' and
                      fl['name'] in ('tls12-ecdhe_rsa-ske', 'tls13-client-ecdsa-pha') else None)
            if v == 'violation':
                found = ctx.violation('faulty-signature-sent:%s' % fl['name'], 'fault %s in private operation %d of flavour %s: %s'
                              % (fk, k, fl['name'], why),
                              {'flavour': fl, 'fault_at': k, 'fault_kind': fk, 'result': r,
                               'how': 'harness/c10_live.run_fault_case((flavour, fault_at, 1, fault_kind))'}) or found
            elif v == 'skip':
                tie_broken = tie_broken or 'fault case %s/%d: %s' % (fl['name'], k, why)
            elif v == 'note':
                ctx.notes.append('fault in %s: %s (no signature sent)' % (fl['name'], why))
            else:
                n_internal += 1
        ctx.log('fault injection: %d flavours, %d faulted handshakes, %d ended in internal_error' % (len(fls), len(fault_tasks), n_internal))

        # ---------------- signatures
        nsig = 0
        for recs in a_sig.get(1500):
            for r in recs:
                nsig += 1
                cls = r['cls']
                ctx.count('sign-verify-openssl', 1, [(r['kind'], r.get('scheme'), r.get('hash'), cls.split(':')[0] if cls.startswith('mut') else cls)],
                          sample={k: r[k] for k in ('kname', 'scheme', 'hash', 'cls', 'want', 'got')} if nsig % 997 == 1 else None)
                got = r['got']
                if cls == 'worker-error':
                    tie_broken = tie_broken or 'signature worker failed for %s: %s' % (r['kname'], got)
                    continue
                if r['want'] is True and got is not True:
                    found = ctx.violation('sig-roundtrip:%s:%s:%s' % (r['kind'], r.get('scheme'), cls),
                                  '%s key %s scheme=%s hash=%s: %s gives %r' % (r['kind'], r['kname'], r.get('scheme'), r.get('hash'), cls, got),
                                  dict(r, how='see harness/props/C10.py sig_worker')) or found
                if r['want'] is False and got is True:
                    found = ctx.violation('sig-accepted:%s:%s' % (r['kind'], cls.split(':', 1)[1]),
                                  'tlslite accepts a %s for a %s key (scheme=%s hash=%s %s)' % (cls, r['kind'], r.get('v_scheme'), r.get('v_hash'), r.get('detail', '')),
                                  dict(r, how='key.hashAndVerify(mut_sig or sig, mut_msg or msg, v_scheme, v_hash, v_slen) with tests/<key file>')) or found
                if isinstance(got, tuple) and got[0] == 'exc' and r['kind'] == 'dsa' and r['want'] is False:
                    found = ctx.violation('sig-verify-raises:dsa:%s' % cls.split(':', 1)[1],
                                          'Python_DSAKey.hashAndVerify raises %s on a %s instead of returning False' % (got[1], cls),
                                          dict(r, how='key.hashAndVerify(mut_sig or sig, mut_msg or msg, v_hash) with tests/<key file>')) or found
                elif isinstance(got, tuple) and got[0] == 'exc':
                    ctx.notes.append('verify raised %s on %s (%s)' % (got[1], cls, r['kind'])) if len(ctx.notes) < 20 else None
                if r.get('openssl') is True and r['want'] is False and got is not True:
                    ctx.notes.append('openssl accepts %s for %s/%s which tlslite rejects' % (cls, r['kind'], r.get('hash'))) if len(ctx.notes) < 30 else None
        ctx.log('sign/verify/openssl: %d checks over %d (key, scheme) pairs' % (nsig, len(sig_tasks)))
        for recs in a_odd.get(600):
            for r in recs:
                ctx.count('odd-modulus-keys', 1, [(r['key'], r['cls'])], sample=r)
                if r['cls'] == 'short-ps-small-modulus' and (r.get('signed') or r.get('tlslite_accepts') is not False):
                    found = ctx.violation('pkcs1-noncanonical-accepted:short-ps-small-modulus',
                                          'RSA PKCS#1 v1.5 with a %d-byte padding string (< 8, not an RFC 8017 encoding): sign() %s, verify() says %s '
                                          '(704-bit key corpus/C10/rsa704.pem, SHA-512, message %r); openssl accepts=%s'
                                          % (r['ps_len'], 'emits it' if r.get('signed') else 'raises ' + str(r.get('exc')), r.get('tlslite_accepts'),
                                             bytes.fromhex(r['msg']), r.get('openssl_accepts')),
                                          dict(r, key_file='corpus/C10/rsa704.pem',
                                               how='key.hashAndSign(msg,"pkcs1","sha512"); key.hashAndVerify(sig,msg,"pkcs1","sha512")')) or found
                if r['cls'] == 'short-ps-small-modulus' and r.get('control_ok') is not True:
                    found = ctx.violation('sig-roundtrip:rsa704:sha256', 'the 704-bit key no longer signs/verifies SHA-256 (11+ bytes of padding)',
                                          dict(r, key_file='corpus/C10/rsa704.pem')) or found
                if r['cls'] == 'pss-modbits-1-mod-8' and (not r.get('signed') or r.get('self_verify') is not True or
                                                         r.get('openssl_accepts') is not True or
                                                         r.get('tlslite_accepts_openssl_sig') is not True):
                    found = ctx.violation('pss-unusable:modbits=1mod8',
                                          'RSA-PSS with a 1025-bit modulus (corpus/C10/rsa1025.pem, message %r): tlslite sign %s, self-verify %s, openssl accepts it: %s; '
                                          'a valid openssl signature (openssl self-check=%s) is %s by tlslite'
                                          % (bytes.fromhex(r['msg']), 'raises ' + r.get('exc', '?') if not r.get('signed') else 'works', r.get('self_verify'),
                                             r.get('openssl_accepts'), r.get('openssl_self'),
                                             'accepted' if r.get('tlslite_accepts_openssl_sig') is True else 'rejected'),
                                          dict(r, key_file='corpus/C10/rsa1025.pem',
                                               how='key.hashAndSign(msg,"pss","sha256",32); key.hashAndVerify(osig,msg,"pss","sha256",32)')) or found
                if r['cls'] == 'pss-modbits-1-mod-8' and r.get('leading_byte_accepted') is True:
                    found = ctx.violation('sig-accepted:rsa:pss-leading-byte-nonzero',
                                          'RSA-PSS, 1025-bit modulus: a signature whose EM has a non-zero byte in front of the emLen bytes is accepted',
                                          dict(r, key_file='corpus/C10/rsa1025.pem', osig=r.get('lead_sig'))) or found
        nd = 0
        for recs in a_disp.get(900):
            for r in recs:
                if 'error' in r:
                    tie_broken = tie_broken or 'dispatch worker failed for %s: %s' % (r['kfile'], r['error'])
                    continue
                nd += 1
                ctx.count('scheme-dispatch', 1, [(r['key_type'], r['entry'], r['spelling'], r['made_with'], r['hash'], str(r['got']))],
                          sample={k: r[k] for k in ('key_type', 'entry', 'spelling', 'made_with', 'got')} if nd % 97 == 1 else None)
                call = '%s key (tests/%s, key_type=%s): %s(sig, ..., scheme=%r, hash=%s) on a signature made with %s' % (
                    r['key_type'], r['kfile'], r['key_type'], r['entry'], r['spelling'], r['hash'], r['made_with'])
                if r['must_reject'] and r['got'] is True:
                    found = ctx.violation('scheme-confusion:%s:%s:%s-sig-under-%s-key' % (r['entry'], r['spelling'], r['made_with'], r['key_type']),
                                          'ACCEPTED: ' + call, dict(r, how='harness/props/C10.py dispatch_calls(twin_keys(kfile)[%d], sig, msg, hash, slen)'
                                                                            % (1 if r['key_type'] == 'rsa-pss' else 0))) or found
                if r['must_accept'] and r['got'] is not True:
                    found = ctx.violation('scheme-roundtrip:%s:%s:%s:%s' % (r['entry'], r['spelling'], r['made_with'], r['key_type']),
                                          'NOT accepted (%s): ' % (r['got'],) + call, dict(r)) or found
        ctx.log('scheme/key-type dispatch: %d calls' % nd)
        nruns = 0
        for r in a_conc.get(1800):
            if 'error' in r:
                tie_broken = tie_broken or 'interleaving explorer failed for %s: %s' % (r['kfile'], r['error'])
                continue
            nruns += r['runs']
            ctx.count('thread-interleavings', r['runs'], [(r['kind'], r['variant'], r['nthreads'], r['complete'], r['points'])],
                      sample={k: r[k] for k in ('kfile', 'variant', 'nthreads', 'runs', 'complete', 'points', 'watch')})
            if r['failure']:
                found = ctx.violation('concurrent-sign-invalid:%s:%s' % (r['kind'], r['variant']),
                                      '%d threads signing with ONE %s key object (tests/%s, %s): under the interleaving %s: %s'
                                      % (r['nthreads'], r['kind'], r['kfile'], r['variant'], r['schedule'], r['failure']),
                                      dict(r, how='harness/c10_sched.run_schedule(C10.concurrency_case(kfile, kind, variant, nthreads), schedule); '
                                                  'events = the scheduling points in order')) or found
        ctx.log('thread interleavings of concurrent signing: %d executions over %d set-ups' % (nruns, len(conc_tasks)))
        for r in a_dsagen.get(900):
            ctx.count('dsa-generate', 1, [('verified', r.get('verified'), r.get('q_divides_p_minus_1'))], sample={k: str(v)[:60] for k, v in r.items()})
            if 'error' in r:
                tie_broken = tie_broken or 'Python_DSAKey.generate failed: ' + r['error']
            elif r['verified'] == r['signed'] and r['g_order_divides_q'] and not r.get('as_modelled'):
                tie_broken = tie_broken or 'Python_DSAKey.generate no longer follows Model/C10_Dsa.v dsa_gen_key (p=2kq+1, g=index^((p-1)//q), y=g^x)'
            elif r['verified'] != r['signed'] or not r['g_order_divides_q']:
                found = ctx.violation('dsa-generate-unusable',
                                      'Python_DSAKey.generate(1024,160): q divides p-1: %s, g^q = 1 mod p: %s; %d of %d signatures made with the '
                                      'generated key verify under its own public key' % (r['q_divides_p_minus_1'], r['g_order_divides_q'],
                                                                                         r['verified'], r['signed']),
                                      dict(r, how='loop.DetRandom(seed).install(); k = Python_DSAKey.generate(1024,160); '
                                                  'k.hashAndVerify(k.hashAndSign(m,"sha1"), m, "sha1")')) or found
        # ---------------- key exchange classes
        nk = 0
        for recs in a_kex.get(900):
            for r in recs:
                nk += 1
                ctx.count('kex-direct', 1, [(r['what'], str(r['ver']), r['cls'])])
                got = r['got']
                if r['want'] == 'refused' and got[0] == 'ok':
                    found = ctx.violation('bad-share-accepted:%s:%s' % (r['what'], r['cls']),
                                  '%s calc_shared_key accepts the invalid peer value class %s (version %s)' % (r['what'], r['cls'], r['ver']), r) or found
                elif r['want'] == 'refused' and got[0] == 'exc':
                    found = ctx.violation('bad-share-uncaught-exception:%s:%s' % (r['what'], r['cls']),
                                          '%s calc_shared_key: invalid peer value class %s (version %s) escapes as %s instead of '
                                          'TLSIllegalParameterException/TLSDecodeError' % (r['what'], r['cls'], r['ver'], got[1]), r) or found
                elif r['want'] == 'agree' and got != ('agree',):
                    found = ctx.violation('kex-disagree:%s:%s' % (r['what'], r['cls']), '%s: the two sides (or openssl) derive different secrets: %r' % (r['what'], got), r) or found
        ctx.log('key-exchange classes: %d checks' % nk)
        ns = 0
        for t, r in zip(share_tasks, a_share.get(900)):
            ns += 1
            ctx.count('bad-share-live', 1, [(str(t[0]), t[1], t[2], t[3])])
            if 'error' in r or r.get('injected') != 1:
                tie_broken = tie_broken or 'live bad-share case %s could not be set up: %s' % (t[:4], r.get('error', 'not injected'))
                continue
            under = r['server'] if t[2] == 'server' else r['client']
            if r['client'] == ('ok',) and r['server'] == ('ok',) or under == ('ok',):
                found = ctx.violation('bad-share-accepted-live:%s:%s' % (t[1], t[3]), 'live %s handshake: the %s accepts peer share class %s of %s'
                              % (t[0], t[2], t[3], t[1]), dict(r, share=t[4].hex() if isinstance(t[4], bytes) else t[4])) or found
            elif under == ('RemoteAlert', 80):
                tie_broken = tie_broken or 'live bad-share case %s: the wrapped peer failed by itself (internal_error) before the share was processed' % (t[:4],)
            elif t[3] != 'compressed-not-offered' and under not in (('LocalAlert', 47), ('LocalAlert', 50)) and \
                    not (under[0] == 'Other' and under[1] in ('TLSIllegalParameterException', 'TLSDecodeError')):
                found = ctx.violation('bad-share-not-refused-at-kex:%s:%s' % (t[1], t[3]),
                              'live %s handshake: the %s did not refuse share class %s at the key exchange (outcome %s)' % (t[0], t[2], t[3], under),
                              dict(r, share=t[4].hex() if isinstance(t[4], bytes) else t[4])) or found
            elif under[0] == 'Other':
                n = 'live TLS %s %s: invalid share refused by an uncaught %s (no alert sent)' % (t[0], t[2], under[1])
                if n not in ctx.notes:
                    ctx.notes.append(n)
        ctx.log('live handshakes with invalid shares: %d' % ns)

        # ---------------- model vs implementation
        fams = a_model.get(900)
    finally:
        pool.terminate()
        pool.join()
    for fam, lits, meta in fams:
        for m in meta:
            if m.get('rfc_vector') and not m.get('rfc_ok'):
                found = ctx.violation('rfc7748-vector', 'x25519/x448 implementation disagrees with the RFC 7748 test vector', m) or found
    if res['model_ok'] and tie_broken is None:
        files, owners = [], []
        for fam, lits, meta in fams:
            ty, fn = FAMILIES[fam]
            per = 1 if fam in ('x', 'verify', 'verify-raw') else 3 if fam == 'dispatch' else (4 if fam == 'ffdh' else 10)
            ns = max(1, (len(lits) + per - 1) // per)
            for sh in range(ns):
                text = ('From Coq Require Import ZArith List Bool String.\n'
                        'From TV Require Import Base.Prelude Gen.C10_Tables Model.C10_RsaMath Model.C10_RsaSig Model.C10_Dh Model.C10_Dsa.\n'
                        'Import ListNotations.\nOpen Scope Z_scope.\n%s\n'
                        'Definition cases : list (%s) := [\n%s\n].\n'
                        'Eval vm_compute in (bad_idx (%s) cases).\n' % (PREAMBLE, ty, ';\n'.join(lits[sh::ns]), fn))
                files.append(('C10%s_%04d' % (fam.replace('-', ''), sh), text))
                owners.append((fam, sh, ns, meta))
        # expensive families first so that the pool is not left waiting for one long job at the end
        order = sorted(range(len(files)), key=lambda i: {'x': 0, 'verify': 1}.get(owners[i][0], 2))
        outs = vlib.coq_run_files([files[i] for i in order], timeout=2400)
        # a coqc killed from outside, or .vo files rebuilt by a concurrent run of the same tree, is not a
        # disagreement: rebuild the model closure and evaluate those files again (alone) before reporting
        import re
        redo = [j for j, (rc, out) in enumerate(outs)
                if rc != 0 or len(re.findall(r'=\s*\[(.*?)\]\s*:\s*list nat', out, flags=re.S)) != 1]
        for attempt in (1, 2):
            if not redo:
                break
            ctx.notes.append('model evaluation: %d file(s) re-run after rc!=0 (attempt %d): %s' % (len(redo), attempt, outs[redo[0]][1][-200:]))
            vlib.coq_make(MODEL_TARGETS)
            again = vlib.coq_run_files([files[order[j]] for j in redo], timeout=3600)
            for j, r in zip(redo, again):
                outs[j] = r
            redo = [j for j in redo if outs[j][0] != 0]
        import re
        for i, (rc, out) in zip(order, outs):
            fam, sh, ns, meta = owners[i]
            m = re.findall(r'=\s*\[(.*?)\]\s*:\s*list nat', out, flags=re.S)
            if rc != 0 or len(m) != 1:
                tie_broken = tie_broken or 'model evaluation failed (%s shard %d): %s' % (fam, sh, out[-400:])
                continue
            for k in re.findall(r'\d+', m[0]):
                gi = int(k) * ns + sh
                ctx.log('model/impl disagreement in family %s: %s' % (fam, meta[gi]))
                tie_broken = tie_broken or 'model %s disagrees with the implementation on %s' % (fam, json.dumps(meta[gi], default=repr)[:600])
        for fam, lits, meta in fams:
            ctx.count('model-vs-impl:' + fam, len(lits), [tuple(sorted((k, str(v)) for k, v in m.items() if k in
                                                                       ('cls', 'scheme', 'hash', 'code', 'impl', 'bits', 'p_bits', 'is448', 'embits', 'qbits', 'entry', 'key_is_pss'))) for m in meta])
        ctx.log('model vs implementation: %s' % {f: len(l) for f, l, _ in fams})
    elif not res['model_ok']:
        tie_broken = tie_broken or 'model does not compile: %s' % res['failing']
    # fingerprints: say which modelled function drifted
    if not res['ok']:
        try:
            import units_c10
            cur = dict(units_c10.fingerprints())
            with open(os.path.join(vlib.COQ, 'Proofs', 'C10_TieP.v')) as f:
                src = f.read()
            import re
            exp = dict(re.findall(r'\("([\w\.]+:[\w\.]+)", "([0-9a-f]{16})"\)', src))
            drift = [k for k in exp if cur.get(k) != exp[k]]
            if drift:
                ctx.notes.append('modelled functions whose source changed: %s' % drift)
                tie_broken = tie_broken or 'source of modelled function(s) changed: %s' % drift
            sites = units_c10.sign_sites()
            bad_sites = [s for s in sites if not (s['assigned'] and s['verified'] and s['same_key'] and s['same_data'] and s['fail'] != 'FailNone')]
            for s in bad_sites:
                tie_broken = tie_broken or 'signing site without a dominating self-verification: %s:%s line %d' % (s['file'], s['func'], s['line'])
        except Exception as e:  # noqa
            ctx.notes.append('drift diagnosis failed: %s' % e)
    ctx.cov['rule'] = ('sign/verify: every key of tests/*.pem x scheme x hash, random message; mutation classes (bit flips, truncation, extension, DER variants, '
                       'hash/scheme/salt-length swaps) and crafted non-canonical blocks; distinct = (key kind, scheme, hash, class). kex: classes of invalid values per '
                       'group and version. fault: (flavour, operation index, fault kind, verdict). model-vs-impl: (family, class, scheme, hash, outcome).')
    if tie_broken:
        ctx.log('tie broken: %s' % tie_broken)
    if tie_broken and not found:
        ctx.violation('tie-broken', tie_broken, {'correspondence': 'Model/C10_*.v, Gen/C10_Tables.v vs tlslite', 'detail': tie_broken},
                      found_input=False)
        found = True
    vlib.broken_proof_verdict(ctx, res, found)


def replay(ctx, path):
    import c10_util as U
    with open(path) as f:
        r = json.load(f)
    if 'flavour' in r:
        import c10_live as L
        out = L.run_fault_case((r['flavour'], r['fault_at'], 1, r.get('fault_kind', 'plus1')))
        print(out, L.judge_fault(out))
        return 0 if L.judge_fault(out)[0] != 'violation' else 1
    if 'schedule' in r and 'nthreads' in r:
        import c10_sched
        why, events = c10_sched.run_schedule(concurrency_case(r['kfile'], r['kind'], r['variant'], r['nthreads']), r['schedule'])
        print('\n'.join(events))
        print('verdict:', why)
        return 1 if why else 0
    if 'entry' in r and 'kfile' in r and 'spelling' in r:
        key = twin_keys(r['kfile'])[1 if r['key_type'] == 'rsa-pss' else 0]
        for entry, sp, thunk in dispatch_calls(key, bytes.fromhex(r['sig']), bytes.fromhex(r['msg']), r['hash'], r['slen']):
            if entry == r['entry'] and sp == r['spelling']:
                try:
                    got = bool(thunk())
                except Exception as e:  # noqa
                    got = 'exc:' + type(e).__name__
                print('%s(%r) with a %s key on a %s signature ->' % (entry, sp, r['key_type'], r['made_with']), got)
                return 1 if (r['must_reject'] and got is True) or (r['must_accept'] and got is not True) else 0
        return 1
    if 'q_divides_p_minus_1' in r:
        out = dsa_generate_worker(r['seed'])
        print({k: str(v)[:70] for k, v in out.items()})
        return 0 if out.get('verified') == out.get('signed') and out.get('g_order_divides_q') else 1
    if 'role' in r and 'group' in r:
        import c10_live as L
        share = r.get('share')
        bad = bytes.fromhex(share) if isinstance(share, str) else share
        out = L.run_share_case((tuple(r['ver']), r['group'], r['role'], r['cls'], bad, 1))
        print(out)
        under = out.get('server') if r['role'] == 'server' else out.get('client')
        return 1 if under == ('ok',) else 0
    if str(r.get('what', '')).split(':')[0] in ('ffdh', 'x25519', 'x448', 'ec') and 'cls' in r and 'got' in r:
        if r['what'] == 'ffdh':
            task = ('ffdh', r['group'], tuple(r['ver']))
        elif r['what'] in ('x25519', 'x448'):
            task = ('x', r['what'] == 'x448', tuple(r['ver']))
        else:
            task = ('ec', r['what'].split(':')[1], tuple(r['ver']))
        bad = [x for x in kex_worker((task, 1)) if x['cls'] == r['cls']]
        print(bad)
        return 1 if any(x['want'] == 'refused' and x['got'][0] == 'ok' for x in bad) else 0
    if r.get('key_file'):
        key = U.load_key(os.path.join(vlib.ROOT, r['key_file']))
        msg = bytes.fromhex(r['msg'])
        if 'osig' in r:
            v = U.tl_verify(key, 'rsa', bytes.fromhex(r['osig']), msg, 'pss', 'sha256', 32)
            print('tlslite verifies the openssl PSS signature:', v)
            return 0 if v is True else 1
        v = U.tl_verify(key, 'rsa', bytes.fromhex(r['sig']), msg, 'pkcs1', 'sha512', 0)
        print('tlslite accepts the short-padding signature:', v)
        return 1 if v is True else 0
    if 'mut_sig' in r or 'sig' in r:
        kfile = dict((k[0], k[1]) for k in U.KEYS)[r['kname']]
        key = U.load_key(kfile)
        sig = bytes.fromhex(r.get('mut_sig') or r['sig'])
        msg = bytes.fromhex(r.get('mut_msg') or r['msg'])
        v = U.tl_verify(key, r['kind'], sig, msg, r.get('v_scheme', r.get('scheme')), r.get('v_hash', r.get('hash')), r.get('v_slen', r.get('slen')))
        print('verify ->', v, 'wanted', r.get('want'))
        return 0 if v == r.get('want') else 1
    print(json.dumps(r, indent=1)[:3000])
    return 1
