"""C14: results do not depend on how the transport chunks, delays or blocks.

Tie: hand models (coq/Model/C14_*.v) of RecordSocket / BufferedSocket / Defragmenter,
checked against the real classes on every run (vm_compute), plus the property itself as a
direct oracle on whole live connections (schedules, API styles, re-framed flights)."""
import errno
import json
import multiprocessing
import os
import random
import sys

import vlib
import c14_util as U

sys.path.insert(0, os.path.join(vlib.ROOT, 'translator'))
import units  # noqa: E402

LEVEL = 'proof'
META = {
    'text': 'Coq theorems (Props/C14.v), by induction over socket scripts of any length: RecordSocket reads over a plain or '
            'buffered socket are a function of the byte stream and its terminal event only (any chunking, any would-blocks; '
            'yields = would-blocks consumed; EOF = TLSAbruptCloseError; blocking = generator run to completion); '
            '_sockSendAll emits exactly the data under every partial-accept/would-block schedule; a buffered flight flushed with '
            'flush_async IS one _sockSendAll of the concatenation for every schedule (flush() is a blocking-socket API, never reached by generators); the Defragmenter '
            'extracts, per content type, exactly the messages of the concatenated stream for every cut into records. '
            'Models are compared with the real classes on scripted sockets by vm_compute; whole live handshakes + data + '
            'close are run under adversarial/random schedules, through generators, AsyncStateMachine and blocking calls, '
            'and with on-path re-framed handshake flights, and must equal the unconstrained run.',
    'note': 'Trusted: Coq kernel + vm_compute; the script semantics of a socket (recv returns at most n bytes, b"" = EOF, '
            'errno 11 = would-block, sendall raises on would-block); hand models tied by correspondence only (not by '
            'translation); the L4/L5 coroutines above RecordSocket are covered by the live oracle, not by a theorem.',
    'technique': 'Rocq/Coq proof over hand-written executable model + vm_compute correspondence + live differential oracle',
}

IMPORTS = ['Model.C14_Transport', 'Model.C14_Buffered', 'Model.C14_Defrag', 'Model.C14_Check', 'Model.C14_AsyncSM', 'Model.C14_ReadLoop', 'Model.C14_Fragment']
WB_KEY = 'escape-EWOULDBLOCK'
WB_WHAT = ('a would-block reported by the socket escapes the generator API as socket.error(EWOULDBLOCK) instead of a '
           '"yield 1" (before /repo 8168763: BufferedSocket.flush() -> socket.sendall while a buffered flight is flushed; '
           'the connection is torn down and the unsent part of the flight is lost)')


def jb(x):
    if isinstance(x, (bytes, bytearray)):
        return bytes(x).hex()
    if isinstance(x, (list, tuple)):
        return [jb(i) for i in x]
    if isinstance(x, dict):
        return {str(k): jb(v) for k, v in x.items()}
    return x


def unjb_script(s):
    return [tuple(bytes.fromhex(e[1]) if (e[0] == 'D' and i == 1) else e[i] for i in range(len(e))) for e in s]


# ------------------------------------------------------------------------------------------
# unit level, implementation against the property written directly (no Coq needed)
def check_recv_direct(ctx, case, impl):
    """result must be the straight parse of the byte stream carried by the script"""
    stream = U.flatten(case['script'])
    want_out, want_recs, pos = U.spec_recv(stream, case['limit'], case['tls13'], case['k'])
    got_recs = impl['records']
    bad = None
    if impl['out'] != want_out:
        bad = 'outcome %r, the byte stream says %r' % (impl['out'], want_out)
    elif impl['out'] == ('done',) and got_recs != want_recs:
        bad = 'records differ from the byte stream'
    elif not impl['yv_ok']:
        bad = 'a read suspension yielded something other than 0'
    elif impl['out'] == ('done',):
        rest = impl['rbuf'] + U.flatten(impl['rest'])[0]
        if rest != stream[0][pos:] and not case.get('memsock'):
            bad = 'bytes left in buffer/script are not the unread tail of the stream'
    if bad is None and not case.get('memsock'):
        # the property as stated: same outcome as on the one-chunk script
        c2 = dict(case, script=U.canon(stream))
        i2 = U.impl_recv(c2)
        if (i2['out'], i2['records']) != (impl['out'], impl['records']) and impl['out'] != ('pending',):
            bad = 'outcome %r with %d records differs from the one-chunk run: %r with %d records' % (
                impl['out'], len(impl['records']), i2['out'], len(i2['records']))
    if bad:
        ctx.violation('unit-recv:%s:%s' % ('buffered' if case['buffered'] else 'raw', impl['out'][0]),
                      'RecordSocket.recv over a scripted socket: ' + bad,
                      {'kind': 'recv', 'case': jb({k: v for k, v in case.items() if k != 'cls'}), 'impl': jb(impl['out']),
                       'how': 'harness/c14_util.impl_recv(case) vs spec_recv(flatten(script))'})
        return True
    return False


def first_hard_failure(script):
    for ev in script:
        if ev[0] == 'F' and ev[1] not in (errno.EWOULDBLOCK, errno.EAGAIN):
            return ev[1]
    return None


def check_send_direct(ctx, case, impl):
    want = U.spec_send_wire(case)
    bad = None
    if want is None:
        if impl['out'] != ('raised', ('value',)):
            bad = 'unrepresentable header did not raise ValueError: %r' % (impl['out'],)
    else:
        if not want.startswith(impl['wire']):
            bad = 'wire is not a prefix of header+payload'
        elif impl['out'] == ('done',) and impl['wire'] != want:
            bad = 'completed but wire != header+payload'
        elif impl['out'][0] == 'raised' and (impl['out'][1][0] != 'sock' or impl['out'][1][1] in (errno.EWOULDBLOCK, errno.EAGAIN)):
            bad = 'raised %r although the schedule has no such failure' % (impl['out'],)
        elif impl['out'][0] == 'raised' and first_hard_failure(case['script']) is None:
            bad = 'raised %r on a schedule without hard failure' % (impl['out'],)
        elif not impl['yv_ok']:
            bad = 'a write suspension yielded something other than 1'
    if bad:
        ctx.violation('unit-send:%s' % impl['out'][0], 'RecordSocket.send over a scripted socket: ' + bad,
                      {'kind': 'send', 'case': jb({k: v for k, v in case.items() if k != 'cls'}), 'impl': jb(impl)})
        return True
    return False


def check_buf_direct(ctx, case, impl):
    """disciplined use, no hard failure in the schedule => everything sent is on the wire or still
    queued, in order, and nothing is raised.  With the generator flush (flush_async) this must hold
    for EVERY schedule; with the blocking-socket flush() only for accept-only schedules."""
    if not case['cls'][1] or first_hard_failure(case['script']) is not None:
        return False
    if case['cls'][2] == 'sync' and any(e[0] != 'A' for e in case['script']):
        return False
    sent = b''.join(op[1] for op in case['ops'] if op[0] == 'S')
    bad = None
    if impl['out'][0] == 'raised':
        bad = 'raised %r' % (impl['out'][1],)
    elif impl['out'] == ('done',) and impl['wire'] + b''.join(impl['queue']) != sent:
        bad = 'wire+queue != data sent'
    elif not sent.startswith(impl['wire']):
        bad = 'wire is not a prefix of the data sent'
    if bad:
        wb = impl['out'] == ('raised', ('sock', errno.EWOULDBLOCK))
        ctx.violation(WB_KEY + ':unit-buffered' if wb else 'unit-buffered:%s' % impl['out'][0],
                      WB_WHAT if wb else 'BufferedSocket under a schedule without hard failures: ' + bad,
                      {'kind': 'buf', 'case': jb({k: v for k, v in case.items() if k != 'cls'}), 'impl': jb(impl)})
        return True
    return False


def check_feed_direct(ctx, rng, fc):
    """the messages of each type are those of its byte stream, for several cuts into records"""
    bad_any = False
    lits = []
    for style in ('whole', 'bytes', 'rand', 'rand'):
        recs = U.fragment(rng, fc['streams'], style)
        impl = U.impl_feed(recs)
        lits.append(U.feed_case_lit(recs, impl))
        for ty, stream in fc['streams'].items():
            want, rest = U.spec_messages(ty, stream)
            got = [m[1] for m in impl['msgs'] if m[0] == ty]
            left = dict(impl['bufs'])[ty]
            if got != want or left != rest:
                bad_any = True
                ctx.violation('unit-defrag:type%d:%s' % (ty, style),
                              'Defragmenter: messages of type %d depend on the fragmentation (%s)' % (ty, style),
                              {'kind': 'feed', 'records': jb(recs), 'got': jb(got), 'want': jb(want)})
    return bad_any, lits


# ------------------------------------------------------------------------------------------
def calltrace_lit(r):
    """ReadCase literal: stages of (messages, calls) and the per-call trace of the unconstrained run"""
    import c14_sys as S
    h, tr = r['calltrace'], r['base_trace']
    if any(len(x) != 5 or x[2][0] not in ('bytes', 'pending') for x in tr):
        return None

    def m(x):
        return {'T': 'MTicket', 'K': 'MKeyUpdate', 'P': 'MPha', 'C': 'MClose'}.get(x[0]) or 'MData %s' % vlib.blit(x[1])
    stages = []
    for ms, (acts, calls) in zip(S.history_messages(h), h['stages']):
        stages.append('(%s, %s)' % (vlib.listlit(ms, m), vlib.listlit(
            calls, lambda c: '(%s, %s)' % ('None' if c[0] is None else '(Some %s)' % vlib.zlit(c[0]), vlib.zlit(c[1])))))
    if sum(len(x[1]) for ms in S.history_messages(h) for x in ms if x[0] == 'D') > 12000:
        return None
    exp = vlib.listlit(tr, lambda x: '(%s, %s, %s)' % (
        'RPending' if x[2][0] == 'pending' else 'RBytes %s' % vlib.blit(x[2][1]), vlib.zlit(x[3]), vlib.boollit(x[4])))
    return '(%s, %s)' % (vlib.listlit(stages, lambda z: z), exp)


def sys_key(s, diffs, outcome):
    txt = repr(diffs) + repr(outcome)
    if "('SockError', %d)" % errno.EWOULDBLOCK in txt:
        return WB_KEY + ':' + s.get('api', 'gen')
    if diffs[0][0] == 'sendall-reached':
        return 'sync-flush-reached:' + s.get('api', 'gen')
    if s.get('api') == 'fault':
        return 'failure-path:%s:%s' % (s['fault']['role'], s['fault']['inject'])
    if s.get('api') == 'recsize':
        return 'sender-record-size:%s' % diffs[0][0]
    if diffs[0][0].startswith('call-'):
        return 'per-call-trace:%s' % s.get('api', 'gen')
    what = 'reframe-' + s['reframe'] if s.get('reframe') else s.get('api', 'gen')
    return 'sys:%s:%s' % (what, diffs[0][0])


def make_tasks(ctx, quick):
    import c14_sys as S
    scns = S.scenario_list()
    tasks = []
    for si, (name, scn) in enumerate(scns):
        rng = random.Random(ctx.rng.getrandbits(48))
        if scn.get('api'):
            # keyword-argument flavours: the point is generator == AsyncStateMachine == blocking call
            scheds = [dict(api='asm'), dict(api='blocking'), dict(api='blocking', recv='one'),
                      dict(api='asm', recv='one', block_recv=1), dict(recv='rand', send='small', block_send=1, sendall_blocks=True)]
            for s_ in scheds:
                s_['seed'] = rng.getrandbits(32)
            if not quick:
                scheds += S.schedules(rng, 20, ctx.tier)
        elif quick:
            scheds = S.schedules(rng, 4 if scn.get('core') else 2, ctx.tier)
            if not scn.get('core'):
                # every fixed schedule still runs on a third of the flavours
                fixed, rnd = scheds[:-2], scheds[-2:]
                scheds = [s for j, s in enumerate(fixed) if (j + si) % 3 == 0] + rnd
        else:
            scheds = S.schedules(rng, 260 if scn.get('core') else 120, ctx.tier)
        heavy = [s for s in scheds if s.get('api') == 'blocking' or s.get('reframe') == 'bytes']
        light = [s for s in scheds if s not in heavy]
        seed = rng.getrandbits(32)
        nparts = (2 if scn.get('core') else 1) if quick else 12
        parts = [light[i::nparts] for i in range(nparts)]
        parts[0] = heavy + parts[0]
        for p in parts:
            if p:
                tasks.append((scn, p, seed))
    return tasks


def run(ctx):
    quick = ctx.tier == 'quick'
    found = False
    tie_broken = None
    # ---- system level starts first, in the background (needs no Coq)
    import c14_sys as S
    tasks = make_tasks(ctx, quick)
    pool = multiprocessing.Pool(vlib.NPROC)
    async_sys = pool.map_async(S.worker, tasks, chunksize=1)
    reply_tasks = []
    for kind, ver in S.REPLY_KINDS:
        rr = random.Random(ctx.rng.getrandbits(48))
        sch = S.reply_schedules(rr, 6 if quick else 150)
        seed = rr.getrandbits(32)
        nparts = 1 if quick else 6
        for i in range(nparts):
            reply_tasks.append((kind, ver, sch[i::nparts], seed))
    async_reply = pool.map_async(S.worker_reply, reply_tasks, chunksize=1)
    rr = random.Random(ctx.rng.getrandbits(48))
    hists = S.call_histories(rr, 6 if quick else 120)
    ct_tasks = [(h, S.calltrace_schedules(rr, 2 if quick else 12), rr.getrandbits(32)) for h in hists]
    async_ct = pool.map_async(S.worker_calltrace, ct_tasks, chunksize=1)
    # sender's record size sweep and failure paths
    rs_cases = S.recsize_cases(quick, rr)
    nrs = 16 if quick else 48
    async_rs = pool.map_async(S.worker_recsize, [(rs_cases[i::nrs], rr.getrandbits(32)) for i in range(nrs) if rs_cases[i::nrs]], chunksize=1)
    injects = ['alert', 'half-alert', 'nothing'] if quick else sorted(S.INJECT)
    f_tasks = [(fl, role, injects, S.fault_schedules(quick), rr.getrandbits(32), 24)
               for fl in S.fault_flavours(quick) for role in ('client', 'server')]
    async_fault = pool.map_async(S.worker_fault, f_tasks, chunksize=1)
    # ---- blocking wrappers: table regenerated from the ast of /repo
    okw, msgw = units.generate('C14_Wrappers', vlib.COQ)
    ctx.log('wrapper table: %s' % msgw)
    if not okw:
        tie_broken = msgw
    # ---- proofs
    res = vlib.proof_stage(ctx, 'Props/C14.v', model_targets=['Model/C14_Check.vo', 'Model/C14_AsyncSM.vo', 'Model/C14_ReadLoop.vo', 'Model/C14_Fragment.vo'])
    ctx.log('proof stage ok=%s failing=%s' % (res['ok'], res['failing']))
    ctx.cov['trusted_base'] = [
        'Coq 8.16.1 kernel + vm_compute (case evaluation)',
        'socket script semantics (coq/Model/C14_Transport.v raw_recv / Accept / SFail; harness/c14_util.ScriptSock is its twin)',
        'hand models of RecordSocket, BufferedSocket, Defragmenter: tied by correspondence on every run, not by translation',
        'loop.MemSock + per-endpoint deterministic randomness for the live oracle',
    ]
    ctx.assumptions += ['a socket returns at most the bytes asked for; b"" means EOF; errno 11 (EWOULDBLOCK==EAGAIN) means would-block',
                        'socket.sendall on a non-blocking socket raises on would-block with an unknown amount sent',
                        'TLS coroutines above RecordSocket (L4/L5) are covered by the live differential oracle only']
    rng = ctx.rng
    # ---- single_io_path: the only socket I/O sites of L3-L5 are the modelled functions
    sites = U.io_sites(vlib.REPO)
    ctx.cov['io_sites'] = ['%s %s %s' % s_ for s_ in sites]
    ctx.count('single-io-path', len(sites), [s_ for s_ in sites])
    if sites != U.IO_EXPECTED:
        tie_broken = 'socket I/O sites changed: unexpected %s, missing %s' % (
            [s_ for s_ in sites if s_ not in U.IO_EXPECTED], [s_ for s_ in U.IO_EXPECTED if s_ not in sites])
    # ---- unit level: generate, run implementation, direct oracles
    n_recv, n_send, n_buf, n_def, n_feed, n_mem = (300, 150, 150, 150, 40, 80) if quick else (4000, 2000, 2000, 2000, 400, 800)
    recv_cases, recv_lits = [], []
    # corpus: boundary cases first
    for case in corpus_recv() + sweep_recv(quick):
        recv_cases.append(case)
    n_recv += len(recv_cases)
    while len(recv_cases) < n_recv:
        recv_cases.append(U.gen_recv_case(rng, big=not quick))
    for i, case in enumerate(recv_cases):
        impl = U.impl_recv(case)
        found |= check_recv_direct(ctx, case, impl)
        recv_lits.append(U.recv_case_lit(case, impl))
        ctx.count('unit-recv', 1, [(case['buffered'], case['tls13'], case['cls'], impl['out'][0] if impl['out'][0] != 'raised' else impl['out'][1][0],
                                    min(impl['y'], 5))],
                  sample=jb({k: v for k, v in case.items()}) if i % 211 == 3 else None)
    for i in range(n_mem):
        msock, case = U.memsock_recv_case(rng)
        impl = U.impl_recv_memsock(msock, case)
        case['memsock'] = True
        found |= check_recv_direct(ctx, case, impl)
        recv_lits.append(U.recv_case_lit(case, impl))
        ctx.count('unit-recv-memsock', 1, [(case['buffered'], case['cls'], impl['out'][0] if impl['out'][0] != 'raised' else impl['out'][1][0])])
    send_cases = [U.gen_send_case(rng) for _ in range(n_send)]
    send_lits = []
    for case in send_cases:
        impl = U.impl_send(case)
        found |= check_send_direct(ctx, case, impl)
        send_lits.append(U.send_case_lit(case, impl))
        ctx.count('unit-send', 1, [(case['cls'], impl['out'][0] if impl['out'][0] != 'raised' else impl['out'][1][0], min(impl['y'], 4))])
    # the witness of sync_flush_is_blocking_socket_api_only replayed on the code: flush() loses data on
    # would-block (documented blocking-socket API), the generator flush delivers on the same schedule
    from tlslite.bufferedsocket import BufferedSocket
    has_async = hasattr(BufferedSocket, 'flush_async')
    if not has_async:
        tie_broken = 'BufferedSocket.flush_async is missing: the generator flush path modelled by WFlushA does not exist'
    wsched = [('A', 1), ('F', errno.EWOULDBLOCK), ('A', 5)]
    wit = dict(ops=[('B', True), ('S', bytes([1, 2, 3])), ('Fl',), ('B', False)], script=wsched, cls=('witness', True, 'sync'))
    wit_a = dict(ops=[('B', True), ('S', bytes([1, 2, 3])), ('FlA',), ('B', False)], script=wsched, cls=('witness', True, 'async'))
    buf_cases = [wit] + ([wit_a] if has_async else []) + [U.gen_buf_case(rng, has_async) for _ in range(n_buf)]
    buf_lits = []
    for case in buf_cases:
        impl = U.impl_buf(case)
        found |= check_buf_direct(ctx, case, impl)
        buf_lits.append(U.buf_case_lit(case, impl))
        ctx.count('unit-buffered', 1, [(case['cls'], impl['out'][0] if impl['out'][0] != 'raised' else impl['out'][1][0])])
    wi = U.impl_buf(wit)
    if not (wi['out'] == ('raised', ('sock', errno.EWOULDBLOCK)) and wi['wire'] == bytes([1]) and wi['queue'] == []):
        tie_broken = 'the witness of sync_flush_is_blocking_socket_api_only no longer behaves as the model says: %r' % (wi,)
    def_cases = [U.gen_defrag_case(rng) for _ in range(n_def)]
    def_lits = []
    for case in def_cases:
        impl = U.impl_defrag(case)
        def_lits.append(U.defrag_case_lit(case, impl))
        ctx.count('unit-defrag-ops', 1, [tuple(sorted(set(r[0] for r in impl['res'])))])
    feed_lits = []
    for _ in range(n_feed):
        fc = U.gen_feed_case(rng)
        bad, lits = check_feed_direct(ctx, rng, fc)
        found |= bad
        feed_lits += lits
        ctx.count('unit-defrag-refragment', 4, [(len(fc['streams'][22]) // 16, len(fc['streams'][21]), len(fc['streams'][20]))])
    # AsyncStateMachine = generator run to completion (direct oracle, select()-like event loop)
    n_asm_bad = 0
    for kind, ys, value in U.asm_direct_cases(rng, n_def):
        bad = U.impl_asm_select(kind, ys, value)
        ctx.count('unit-asm-select', 1, [(kind, tuple(ys[:4]), len(ys))])
        if bad:
            found = True
            n_asm_bad += 1
            if n_asm_bad > 4:
                continue
            ctx.violation('unit-asm:%s:%s' % (kind, 'yields1' if 1 in ys else 'yields0'),
                          'AsyncStateMachine driving a %s operation that yields %r: %s' % (kind, ys, bad),
                          {'kind': 'asm-select', 'op': kind, 'yields': ys, 'value': value,
                           'how': 'harness/c14_util.impl_asm_select(op, yields, value)'})
    # the sender's fragmentation for every record size (divisors of the message length included)
    frag_lits = []
    n_frag_bad = 0
    for _ in range(n_def * 2):
        k, ctype, data = U.gen_fragment_case(rng)
        try:
            recs = U.impl_fragment(k, ctype, data)
            bad = None
            if b''.join(recs) != data:
                bad = 'record payloads do not concatenate to the message'
            elif any(len(x) > k for x in recs):
                bad = 'a record exceeds the record size'
            elif data and any(len(x) == 0 for x in recs):
                bad = 'zero-length record for a non-empty message (%d records for %d bytes)' % (len(recs), len(data))
            elif not data and recs != [b'']:
                bad = 'empty message gives %r' % (recs,)
        except Exception as e:  # noqa
            recs, bad = [], 'raised %s: %s' % (type(e).__name__, e)
        frag_lits.append('(%s, %s, %s)' % (vlib.zlit(k), vlib.blit(data), vlib.listlit(recs, vlib.blit)))
        ctx.count('unit-fragment', 1, [(ctype, min(k, 70), len(data) % k == 0 if k else None, min(len(data), 70))])
        if bad:
            found = True
            n_frag_bad += 1
            if n_frag_bad <= 3:
                ctx.violation('unit-fragment:%s' % ('multiple' if data and len(data) % k == 0 else 'other'),
                              '_sendMsg with recordSize=%d, content type %d, %d-byte message: %s' % (k, ctype, len(data), bad),
                              {'kind': 'fragment', 'k': k, 'ctype': ctype, 'data': data.hex(),
                               'how': 'harness/c14_util.impl_fragment(k, ctype, data)'})
    asm_lits = []
    for _ in range(n_def):
        case = U.gen_asm_case(rng)
        obs = U.impl_asm(case)
        asm_lits.append(U.asm_case_lit(case, obs))
        ctx.count('unit-asm', 1, [tuple(sorted(set((str(o[1]), len(o[0])) for o in obs)))])
    ctx.log('unit level (implementation vs direct oracles): recv %d, send %d, buffered %d, defrag %d+%d'
            % (len(recv_lits), len(send_lits), len(buf_lits), len(def_lits), len(feed_lits)))
    # ---- unit level: model against implementation (vm_compute)
    if res['model_ok']:
        groups = [('C14r', 'RecvCase', ['chk_recv', 'chk_recv_spec'], recv_lits, 'recv'),
                  ('C14s', 'SendCase', ['chk_send'], send_lits, 'send'),
                  ('C14b', 'BufCase', ['chk_buf'], buf_lits, 'buffered'),
                  ('C14d', 'DefragCase', ['chk_defrag'], def_lits, 'defrag'),
                  ('C14f', 'FeedCase', ['chk_feed'], feed_lits, 'feed'),
                  ('C14a', 'AsmCase', ['chk_asm'], asm_lits, 'asyncstatemachine'),
                  ('C14g', 'FragCase', ['chk_fragment'], frag_lits, 'fragment')]
        for tag, ty, fns, lits, nm in groups:
            shard = max(10, (len(lits) + 5) // 6) if quick else 150
            bads, errs = vlib.coq_bad_indices(tag, IMPORTS, ty, fns, lits, shard=shard)
            ctx.count('model-vs-impl:' + nm, len(lits), [('agree', len(lits) - len(bads[0]))])
            for e in errs:
                tie_broken = 'case evaluation failed (%s): %s' % (nm, e[:300])
            for fi, bad in enumerate(bads):
                for i in bad[:3]:
                    ctx.log('model/impl disagreement %s %s case %d: %s' % (nm, fns[fi], i, lits[i][:400]))
                    tie_broken = 'model %s disagrees with the implementation (%s) on case %s' % (nm, fns[fi], lits[i][:600])
        ctx.log('model vs implementation done')
    else:
        tie_broken = tie_broken or ('model does not compile: %s' % res['failing'])
    # ---- system level results
    ct_res = async_ct.get(timeout=6000)
    sys_res = async_sys.get(timeout=6000) + async_reply.get(timeout=6000) + ct_res
    for chunk in async_rs.get(timeout=6000) + async_fault.get(timeout=6000):
        sys_res += chunk
    # the per-call traces against the model of the read loop (message sequence only)
    if res['model_ok']:
        ct_lits, ct_names = [], []
        for r in ct_res:
            lit = calltrace_lit(r) if 'error' not in r else None
            if lit:
                ct_lits.append(lit)
                ct_names.append(r['name'])
        bads, errs = vlib.coq_bad_indices('C14c', IMPORTS, 'ReadCase', ['chk_readloop'], ct_lits, shard=max(4, (len(ct_lits) + 7) // 8))
        ctx.count('model-vs-impl:read-calls', len(ct_lits), [('agree', len(ct_lits) - len(bads[0]))])
        for e in errs:
            tie_broken = 'case evaluation failed (read-calls): %s' % e[:300]
        for i in bads[0][:3]:
            ctx.log('model/impl disagreement read-calls %s: %s' % (ct_names[i], ct_lits[i][:500]))
            tie_broken = 'model of the read loop disagrees with the per-call trace of %s: %s' % (ct_names[i], ct_lits[i][:500])
    pool.close()
    pool.join()
    n_runs = 0
    for r in sys_res:
        if 'error' in r:
            tie_broken = 'system-level worker failed for %s: %s' % (r['name'], r['error'][-400:])
            continue
        if r['base_diff']:
            det_only = all(d[0] in ('wire', 'wire_len', 'secret') for d in r['base_diff'])
            if not det_only:
                found = True
                ctx.violation('sys:interleave:%s' % r['base_diff'][0][0],
                              'unconstrained run differs between round-robin and random interleaving of the endpoints',
                              {'kind': 'sys', 'scenario': r['name'], 'sched': {'interleave': 'rand'}, 'diffs': repr(r['base_diff'])[:3000]})
        for s, diffs, outcome, rf in r['results']:
            n_runs += 1
            cls = S.sched_class(s)
            hs = r['base'][0]['hs']
            ctx.count('live-differential', 1, [(r['name'], cls)],
                      sample={'scenario': r['name'], 'schedule': cls, 'base_hs': repr(hs)} if n_runs % 173 == 1 else None)
            if rf:
                ctx.count('live-reframed-records', 1, [(r['name'], s['reframe'], rf[0] != rf[1] or rf[2] != rf[3])])
            if diffs:
                key = sys_key(s, diffs, outcome)
                what = 'live connection (%s) under schedule %s differs from the unconstrained run in %s: %s' % (
                    r['name'], cls, diffs[0][0], repr(diffs[0][2:])[:300])
                if key.startswith(WB_KEY):
                    what = WB_WHAT + '; ' + what
                if key.startswith('sync-flush-reached'):
                    what = 'socket.sendall (BufferedSocket.flush(), blocking-socket API) was reached from the generator API; ' + what
                ctx.violation(key, what,
                              {'kind': 'sys-reply' if r.get('reply') else ('sys-calls' if r.get('calltrace') else
                                                                           ('sys-fault' if r.get('fault') else ('sys-recsize' if r.get('recsize') else 'sys'))),
                               'recsize': r.get('recsize'),
                               'reply': r.get('reply'), 'history': r.get('calltrace'),
                               'scenario': r['name'], 'sched': s, 'seed_task': r.get('seed'),
                               'diffs': repr(diffs)[:4000],
                               'how': './check C14 --replay <this file> reruns the scenario under the schedule'})
                found = True
    ctx.log('system level: %d live runs over %d scenarios (deterministic wire in %d)'
            % (n_runs, len(set(r['name'] for r in sys_res)), len(set(r['name'] for r in sys_res if r.get('deterministic')))))
    ctx.cov['rule'] = ('unit: scripts = record streams (TLS/SSLv2 headers, limit boundaries, truncation) cut as one chunk / single bytes / '
                       'random pieces with would-blocks none/every call/random and terminal open/EOF/error/b""; distinct = (socket kind, '
                       'schedule class, outcome class, yields bucket).  live: distinct = (scenario, schedule class) over %d scenarios x '
                       'schedules {1-byte, random pieces, would-block k times, partial accepts, random interleaving} x API '
                       '{generators, AsyncStateMachine, blocking threads} x re-framing {1-byte fragments, random, merged, header split}'
                       % len(set(r['name'] for r in sys_res)))
    # the tasks' seeds are needed for replay: store the ctx seed only (tasks are regenerated deterministically)
    if tie_broken and not found:
        ctx.violation('tie-broken', tie_broken, {'correspondence': 'coq/Model/C14_*.v vs tlslite (recordlayer, bufferedsocket, defragmenter)',
                                                 'detail': tie_broken}, found_input=False)
        found = True
    vlib.broken_proof_verdict(ctx, res, found)


def sweep_recv(quick):
    """terminal event (EOF / b'' / ECONNRESET) at EVERY byte position of a record stream, for the
    one-chunk and the 1-byte chunking with a would-block before every chunk, plain and buffered"""
    stream = bytes([22, 3, 3, 0, 4]) + b'abcd' + bytes([0x80, 2]) + b'xy'
    if not quick:
        stream += bytes([23, 3, 4, 0, 1, 9, 0, 8, 8]) + b'12345678' + bytes([21, 3, 3, 0, 2, 1, 0])
    out = []
    for pos in range(len(stream) + 1):
        for term in (('E',), ('D', b''), ('F', errno.ECONNRESET)):
            for style in ('one', 'bytes'):
                for buffered in (False, True):
                    pre = stream[:pos]
                    if style == 'one':
                        sc = [('D', pre)] if pre else []
                    else:
                        sc = []
                        for i in range(len(pre)):
                            sc += [('F', errno.EWOULDBLOCK), ('D', pre[i:i + 1])]
                    sc = sc + [term, ('D', stream[pos:])]       # what follows the terminal must not matter
                    out.append(dict(buffered=buffered, limit=16384, tls13=False, k=2 if quick else 4, script=sc,
                                    cls=('sweep', term[0] + style)))
    return out


def corpus_recv():
    """boundary cases kept permanently"""
    E = errno.EWOULDBLOCK
    hdr = lambda t, n: bytes([t, 3, 3, n >> 8, n & 255])  # noqa
    out = []
    for buffered in (False, True):
        base = dict(buffered=buffered, limit=16384, tls13=False, k=1, cls=('corpus', 'x'))
        out += [
            dict(base, script=[]),
            dict(base, script=[('E',)]),
            dict(base, script=[('D', b'')]),
            dict(base, script=[('F', E)] * 3 + [('E',)]),
            dict(base, script=[('D', hdr(22, 0))]),
            dict(base, script=[('D', hdr(22, 18432))] + [('E',)]),
            dict(base, script=[('D', hdr(22, 18433))]),
            dict(base, tls13=True, script=[('D', hdr(23, 16640))] + [('E',)]),
            dict(base, tls13=True, script=[('D', hdr(23, 16641))]),
            dict(base, script=[('D', hdr(23, 3) + b'abc' + hdr(21, 2) + b'\x01\x00')], k=2),
            dict(base, script=[('D', bytes([c])) for c in hdr(23, 3) + b'abc'] + [('F', errno.ECONNRESET)], k=2),
            dict(base, script=[('D', hdr(23, 3)[:4]), ('F', errno.EAGAIN), ('D', hdr(23, 3)[4:] + b'ab'), ('E',)]),
            dict(base, script=[('D', b'\x80\x03abc' + b'\x00\x08\x08' + b'x' * 8)], k=2),
            dict(base, script=[('D', b'\x00\x04\x05abcd')]),
            dict(base, script=[('D', b'\x00\x09\x01' + b'x' * 9)]),
            dict(base, limit=64, script=[('D', hdr(23, 2112) + b'y' * 2112)]),
            # reads and chunks larger than BufferedSocket's 4096-byte read-ahead
            dict(base, script=[('D', hdr(23, 5000)), ('D', b'z' * 6000)]),
            dict(base, script=[('D', hdr(23, 5000) + b'z' * 6000)]),
            dict(base, script=[('D', hdr(23, 4091) + b'z' * 4092)], k=2),
        ]
    return out


def replay(ctx, path):
    with open(path) as f:
        r = json.load(f)
    kind = r.get('kind')
    if kind == 'sys':
        import c14_sys as S
        scn = dict(S.scenario_list())[r['scenario']]
        bad = 0
        seeds = [r['seed_task']] if r.get('seed_task') is not None else [0, 1, 2]
        for seed in seeds:
            w = S.worker((scn, [r['sched']], seed))
            for s, diffs, outcome, rf in w.get('results', []):
                print('seed', seed, 'schedule', S.sched_class(s), 'differences:', diffs[:3] if diffs else 'none')
                bad |= bool(diffs)
        return 1 if bad else 0
    if kind == 'fragment':
        recs = U.impl_fragment(r['k'], r['ctype'], bytes.fromhex(r['data']))
        print('recordSize', r['k'], 'message of', len(r['data']) // 2, 'bytes -> record payload lengths', [len(x) for x in recs])
        return 1 if (r['data'] and any(len(x) == 0 for x in recs)) or b''.join(recs).hex() != r['data'] else 0
    if kind == 'asm-select':
        bad = U.impl_asm_select(r['op'], r['yields'], r['value'])
        print('AsyncStateMachine select loop:', bad or 'runs the generator to completion')
        return 1 if bad else 0
    if kind == 'sys-recsize':
        import c14_sys as S
        c = r['recsize']
        c['ver'] = tuple(c['ver'])
        w = S.worker_recsize(([c], r['seed_task']))[0]
        d = w.get('results', [(None, w.get('error'))])[0][1]
        print('record-size case', c, 'differences from the default record size:', d or 'none')
        return 1 if d else 0
    if kind == 'sys-fault':
        import c14_sys as S
        f = r['sched']['fault']
        fl = f['flavour']
        fl['ver'] = tuple(fl['ver'])
        sch = {k: v for k, v in r['sched'].items() if k != 'fault'}
        base = S.run_fault(fl, f['role'], f['index'], f['inject'], None, r['seed_task'])
        o = S.run_fault(fl, f['role'], f['index'], f['inject'], sch, r['seed_task'])
        print('send %d of the %s fails, peer left %r' % (f['index'], f['role'], f['inject']))
        print('   delivered at once :', base)
        print('   under schedule %s:' % sch, o)
        return 0 if base == o else 1
    if kind == 'sys-calls':
        import c14_sys as S
        h = r['history']
        h['ver'] = tuple(h['ver'])
        h['stages'] = [([tuple(a) for a in acts], [tuple(c) for c in calls]) for acts, calls in h['stages']]
        w = S.worker_calltrace((h, [r['sched']], r['seed_task']))
        bad = 0
        print('unconstrained per-call trace:', w.get('base_trace'))
        for s_, diffs, outcome, rf in w.get('results', []):
            print('schedule', s_, 'differences:', diffs[:4] if diffs else 'none')
            bad |= bool(diffs)
        return 1 if bad else 0
    if kind == 'sys-reply':
        import c14_sys as S
        k, ver = r['reply'][0], tuple(r['reply'][1])
        w = S.worker_reply((k, ver, [r['sched']], r['seed_task']))
        bad = 0
        for s_, diffs, outcome, rf in w.get('results', []):
            print('schedule', s_, 'differences:', diffs[:4] if diffs else 'none')
            bad |= bool(diffs)
        return 1 if bad else 0
    if kind == 'recv':
        c = r['case']
        c['script'] = unjb_script(c['script'])
        impl = U.impl_recv(c)
        want = U.spec_recv(U.flatten(c['script']), c['limit'], c['tls13'], c['k'])
        print('impl:', impl['out'], impl['records'], 'stream says:', want[:2])
        return 0 if impl['out'] == want[0] and (want[0] != ('done',) or impl['records'] == want[1]) else 1
    if kind in ('send', 'buf'):
        c = r['case']
        c['script'] = [tuple(e) for e in c['script']]
        if kind == 'send':
            c['payload'] = bytes.fromhex(c['payload'])
            impl = U.impl_send(c)
            print('impl:', impl, 'wanted wire:', U.spec_send_wire(c))
            return 0 if impl['out'] != ('done',) or impl['wire'] == U.spec_send_wire(c) else 1
        c['ops'] = [tuple(bytes.fromhex(o[1]) if (o[0] == 'S' and i == 1) else o[i] for i in range(len(o))) for o in c['ops']]
        impl = U.impl_buf(c)
        sent = b''.join(o[1] for o in c['ops'] if o[0] == 'S')
        print('impl:', impl, 'data sent:', sent)
        return 0 if impl['out'] == ('done',) and impl['wire'] + b''.join(impl['queue']) == sent else 1
    if kind == 'feed':
        recs = [(t, bytes.fromhex(d)) for t, d in r['records']]
        print(U.impl_feed(recs))
        return 1
    print('nothing to replay in', path)
    return 1
