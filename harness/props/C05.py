"""C05: peer credentials are recorded only after proof of possession.

Ties: (T) coq/Gen/C05_VerifyBytes.v regenerated from KeyExchange.calcVerifyBytes and
coq/Gen/C05_Sites.v (every verification / identity-assignment program point) regenerated
from tlsconnection.py, tlsrecordlayer.py, keyexchange.py, x509.py, handshakehelpers.py on
every run; (H) the hand model Model/C05_Auth.v evaluated by vm_compute on the oracle
answers observed in live handshakes against deviating peers and compared with the verdict
and the identity fields of the real endpoint."""
import json
import multiprocessing
import os
import sys

import vlib
from vlib import blit, zlit, strlit, boollit

sys.path.insert(0, os.path.join(vlib.ROOT, 'translator'))
import units  # noqa: E402

LEVEL = 'proof'
META = {
    'text': 'Coq theorems (Props/C05.v) over a hand model of the authentication flows (client/server, TLS<=1.2, TLS 1.3, '
            'post-handshake auth, delegated credentials, SRP, PSK, Checker) with signature/Finished/binder primitives as '
            'oracles: an identity field is set only after the matching verification succeeded, over bytes computed by the '
            'Gallina text regenerated from KeyExchange.calcVerifyBytes; the table of all verification and identity-assignment '
            'program points is regenerated from /repo and must equal the modelled table; the model is evaluated on the oracle '
            'answers observed in live handshakes with deviating peers (wrong key, omitted/flipped/stale/empty signature, other '
            'transcript, scheme not offered, wrong password, wrong binder, wrong Finished) and compared with the real endpoint. '
            'Two statements that were refuted by witnesses replayed on the code (TLS 1.3 client accepted a CertificateVerify scheme '
            'it had not offered; certificate-only server recorded an unproved SRP user name) are full theorems since /repo fixes '
            '61d7222 and 11c0ed7; the former witnesses are kept as rejected Examples and as live cases.',
    'note': 'Trusted: Coq kernel + vm_compute; translator/units_c05.py; signature, hash, Finished-MAC, binder and record '
            'protection primitives are oracles (C09/C10); Finished/binder/record answers are set by construction of the '
            'corruption, signature answers are computed from the wire bytes, the raw transcript, hashlib and the certificate '
            'key; H-ideal-hash only for proof_bound_to_this_transcript_ideal; message order gates (C06), certificate policy '
            '(C03/C19) and resumption (C13) are inputs of the model.',
    'technique': 'Rocq/Coq proof over hand model + translator-regenerated verify-bytes and site table + live correspondence',
}
MODEL_TARGETS = ['Base/C05_Lib.vo', 'Gen/C05_VerifyBytes.vo', 'Model/C05_Auth.vo', 'Gen/C05_DsaVerify.vo', 'Model/C05_SigGuard.vo']
IMPORTS = ['Base.C05_Lib', 'Gen.C05_VerifyBytes', 'Model.C05_Auth']
PREAMBLE = '''
Definition CaseT := (Z * Answers * Run * bool * option (list Z) * Z * option (list Z) * option (list Z) * bool)%type.
Definition chk (c : CaseT) : bool :=
  let '(flow, a, r, cl, want, code, chain, srp, dc) := c in
  matches_observed flow a r cl want code chain srp dc.
'''


# ------------------------------------------------------------------------------------------
def sch(s):
    return '(%d, %d)' % (s[0], s[1])


def osch(s):
    return 'None' if s is None else '(Some %s)' % sch(s)


def ostr(s):
    return 'None' if s is None else '(Some %s)' % strlit(s)


def oz(x):
    return 'None' if x is None else '(Some %s)' % zlit(x)


def olist(x):
    return 'None' if x is None else '(Some %s)' % blit(x)


def dclit(d):
    return ('{| dc_cred := %s; dc_key := %d; dc_curve_hash := %s; dc_cv_alg := %s; dc_alg := %s; dc_sig := %s |}'
            % (blit(d['cred']), d['key'], ostr(d['curve_hash']), sch(d['cv_alg']), sch(d['alg']), blit(d['sig'])))


def certlit(c):
    if c is None:
        return 'None'
    entries = c.get('entries')
    if entries is None:
        entries = [] if not c['chain'] else [{'id': c['chain'][0], 'cert': c['cert'], 'key': c['key'], 'dc': c['dc']}]
    el = ';'.join('{| e_id := %d; e_cert := %s; e_key := %d; e_dc := [%s] |}'
                  % (e['id'], blit(e['cert']), e['key'], ';'.join(dclit(d) for d in e['dc'])) for e in entries)
    return ('(Some {| cm_entries := [%s]; cm_keytype := %s; cm_curve_hash := %s; cm_policy := %s |})'
            % (el, strlit(c['keytype']), ostr(c['curve_hash']), oz(c['policy'])))


def runlit(m):
    cv = 'None' if m['cv'] is None else '(Some (%s, %s))' % (osch(m['cv'][0]), blit(m['cv'][1]))
    ske = 'None' if m['ske'] is None else '(Some (%s, %s, %s))' % (osch(m['ske'][0]), blit(m['ske'][1]), blit(m['ske'][2]))
    return ('{| r_ver := %s; r_kx := %d; r_req_cert := %s; r_psk := %s; r_cert := %s; r_cv := %s; r_ske := %s; '
            'r_cr := %s; r_sr := %s; r_premaster := %s; r_tr_cv := %s; r_tr_fin := %s; r_tr_binder := %s; r_prf := %s; '
            'r_offered := [%s]; r_valid := [%s]; r_dc_offered := [%s]; r_kx_alert := %s; r_rec_ok := %s; r_fin := %s; '
            'r_binder := %s; r_ticket_chain := %s; r_ticket_srp := %s; r_srp_user := %s; r_srp_known := %s; r_own_chain := %s; '
            'r_srv_scheme := %s; r_ctx_ok := %s; r_cert_required := %s |}'
            % (sch(m['ver']), m['kx'], boollit(m['req_cert']), oz(m['psk']), certlit(m['cert']), cv, ske,
               blit(m['cr']), blit(m['sr']), blit(m['premaster']), blit(m['tr_cv']), blit(m['tr_fin']),
               blit(m['tr_binder']), ostr(m['prf']),
               ';'.join(sch(s) for s in m['offered']), ';'.join(sch(s) for s in m['valid']),
               ';'.join(sch(s) for s in m['dc_offered']), oz(m['kx_alert']), boollit(m['rec_ok']), blit(m['fin']),
               blit(m['binder']), olist(m['ticket_chain']), olist(m.get('ticket_srp')), olist(m['srp_user']), boollit(m['srp_known']),
               olist(m['own_chain']), ostr(m['srv_scheme']), boollit(m['ctx_ok']), boollit(m['cert_required'])))


def answerslit(m):
    kb = lambda t: '[' + ';'.join('(%d, %s, %s)' % (k, blit(b), boollit(v)) for k, b, v in t) + ']'
    dg = lambda t: '[' + ';'.join('(%s, %s, %s)' % (blit(a), ostr(n), blit(d)) for a, n, d in t) + ']'
    return ('{| a_sig := %s; a_fin := %s; a_binder := %s; a_digest := %s; a_hash := %s; a_ssl := %s |}'
            % (kb(m['a_sig']), kb(m['a_fin']), kb(m['a_binder']), dg(m['a_digest']), dg(m['a_hash']), blit(m['a_ssl'])))


def caselit(o):
    m = o['model']
    idn = o['ident']
    pc = idn['server'] if m['is_client'] else idn['client']
    chain = None if (pc is None or pc == 0) else [pc]
    ids = idn.get('server_ids' if m['is_client'] else 'client_ids')
    if chain is not None and ids:
        chain = ids                                  # every certificate of the recorded chain, in order
    srp = None if idn['srp'] is None else list(idn['srp'].encode('latin1'))
    return '(%d, %s, %s, %s, %s, %d, %s, %s, %s)' % (
        m['flow'], answerslit(m), runlit(m), boollit(m['is_client']), olist(m['want']), o['code'],
        olist(chain), olist(srp), boollit(idn['dc']))


# ------------------------------------------------------------------------------------------
def _worker(case):
    import c05_cases
    return c05_cases.run_case(case)


def gen_cases(ctx):
    quick = ctx.tier == 'quick'
    rng = ctx.rng
    cases = []

    def add(**kw):
        kw['seed'] = rng.randrange(1 << 30)
        cases.append(kw)
    sig_hows = ['honest', 'other-key', 'other-msg', 'omit', 'flip', 'flip-first', 'flip-last', 'empty', 'short', 'long',
                'zero', 'stale', 'bad-finished']
    reps = 1 if quick else 4
    for _ in range(reps):
        # (3) TLS 1.3 server CertificateVerify, client under test
        for key in ['rsa', 'rsapss', 'ecdsa', 'ecdsa384', 'ecdsa521', 'ed25519', 'ed448', 'bp256', 'bp384', 'bp512']:
            for how in sig_hows:
                add(runner='cert', site='cv13s', ver=(3, 4), verifier='client', key=key, how=how, target='cv')
        # (4) TLS 1.3 client CertificateVerify, server under test (bp*: F12 -- client brainpool certificate,
        #     servers whose own scheme has another hash / is intrinsic)
        for key in ['client-rsa', 'client-ecdsa', 'client-ed25519', 'ecdsa384', 'ed448', 'rsapss']:
            for how in sig_hows:
                add(runner='cert', site='cv13c', ver=(3, 4), verifier='server', key=key, how=how, target='cv')
        for key in ['bp256', 'bp384', 'bp512']:
            for skey in ['rsa', 'ecdsa384', 'ed25519', 'ecdsa']:
                for how in ['honest', 'other-key', 'flip', 'other-msg']:
                    add(runner='cert', site='cv13c-f12', ver=(3, 4), verifier='server', key=key, how=how, target='cv',
                        server_key=skey)
        # (2) TLS <= 1.2 client CertificateVerify
        small = ['honest', 'other-key', 'other-msg', 'omit', 'flip', 'empty', 'stale', 'bad-finished']
        for ver in [(3, 0), (3, 1), (3, 2), (3, 3)]:
            for key in ['client-rsa', 'client-ecdsa', 'client-dsa'] + (['client-ed25519', 'rsapss'] if ver == (3, 3) else []):
                for how in (small if quick and ver in ((3, 1), (3, 2)) else sig_hows):
                    add(runner='cert', site='cv12', ver=ver, verifier='server', key=key, how=how, target='cv')
        # (1) ServerKeyExchange signature + (9) Finished + RSA key transport
        for ver in [(3, 0), (3, 1), (3, 2), (3, 3)]:
            for key in ['rsa', 'ecdsa', 'dsa'] + (['ed25519', 'ed448', 'rsapss', 'ecdsa384'] if ver == (3, 3) else []):
                for how in [h for h in (small if quick and ver in ((3, 1), (3, 2)) else sig_hows) if h != 'omit'] + ['replay-ske']:
                    add(runner='cert', site='ske', ver=ver, verifier='client', key=key, how=how, target='ske')
            for how in ['honest', 'other-key', 'bad-finished']:
                add(runner='cert', site='keytransport', ver=ver, verifier='client', key='rsa', how=how, target='ske',
                    peer_settings={'keyExchangeNames': ['rsa']}, verifier_settings={'keyExchangeNames': ['rsa']})
        # algebraic edge signatures at every signature site (r or s in {0, 1, q-1, q, q+1, +q}, negative /
        # non-minimal DER integers, trailing bytes; EdDSA S >= L, S = 0; RSA 0, 1, n-1, n, s+n, wrong length).
        # The expected verdict is the REFERENCE verifier's (harness/c05_refsig.py), e.g. ECDSA (r, n-s) is valid.
        import c05_refsig as R
        KT = {'dsa': 'dsa', 'client-dsa': 'dsa', 'ed25519': 'Ed25519', 'ed448': 'Ed448', 'client-ed25519': 'Ed25519'}

        def kt_of(k):
            return KT.get(k, 'ecdsa' if ('ecdsa' in k or k.startswith('bp')) else 'rsa')
        for key in ['rsa', 'rsapss', 'ecdsa', 'ecdsa384', 'ed25519', 'ed448', 'bp256']:
            for e in R.edge_names(kt_of(key)):
                add(runner='cert', site='cv13s', ver=(3, 4), verifier='client', key=key, how='edge:' + e, target='cv')
        for key in ['client-rsa', 'client-ecdsa', 'client-ed25519']:
            for e in R.edge_names(kt_of(key)):
                add(runner='cert', site='cv13c', ver=(3, 4), verifier='server', key=key, how='edge:' + e, target='cv')
                if e != 'q-s':      # a still-valid CertificateVerify changed after the peer computed its PHA Finished
                    add(runner='pha', site='pha', ver=(3, 4), key=key, how='edge:' + e)
        for ver in [(3, 1), (3, 3)]:
            for key in ['client-rsa', 'client-ecdsa', 'client-dsa'] + (['client-ed25519'] if ver == (3, 3) else []):
                if quick and ver == (3, 1) and kt_of(key) != 'dsa':
                    continue
                for e in R.edge_names(kt_of(key)):
                    add(runner='cert', site='cv12', ver=ver, verifier='server', key=key, how='edge:' + e, target='cv')
            for key in ['rsa', 'ecdsa', 'dsa'] + (['ed25519', 'rsapss'] if ver == (3, 3) else []):
                if quick and ver == (3, 1) and kt_of(key) != 'dsa':
                    continue
                for e in R.edge_names(kt_of(key)):
                    add(runner='cert', site='ske', ver=ver, verifier='client', key=key, how='edge:' + e, target='ske')
        # scheme that was not offered
        for key, mine, theirs in [('rsa', {'rsaSigHashes': ['sha256']}, (8, 5)), ('rsa', {}, (4, 1)), ('rsa', {}, (2, 1)),
                                  ('ecdsa384', {'ecdsaSigHashes': ['sha256', 'sha512']}, (5, 3)), ('rsapss', {'rsaSigHashes': ['sha256']}, (8, 10))]:
            add(runner='cert', site='cv13s', ver=(3, 4), verifier='client', key=key, how='scheme', target='cv',
                scheme=theirs, verifier_settings=mine)
        for key in ['rsa', 'ecdsa']:
            for theirs in [(0, 99), (9, 99), (4, 99), (8, 200)]:
                add(runner='cert', site='cv13s', ver=(3, 4), verifier='client', key=key, how='unknown-scheme', target='cv',
                    scheme=theirs)
        for key, mine, theirs in [('client-rsa', {'rsaSigHashes': ['sha256']}, (8, 5)), ('client-rsa', {}, (4, 1)),
                                  ('client-ecdsa', {'ecdsaSigHashes': ['sha384', 'sha512']}, (4, 3))]:
            add(runner='cert', site='cv13c', ver=(3, 4), verifier='server', key=key, how='scheme', target='cv',
                scheme=theirs, verifier_settings=mine, prf='sha384')
        for key, mine, theirs in [('client-rsa', {'rsaSigHashes': ['sha256']}, (5, 1)), ('client-rsa', {'rsaSigHashes': ['sha256']}, (8, 5)),
                                  ('client-ecdsa', {'ecdsaSigHashes': ['sha256']}, (5, 3))]:
            add(runner='cert', site='cv12', ver=(3, 3), verifier='server', key=key, how='scheme', target='cv',
                scheme=theirs, verifier_settings=mine)
        for key, mine, theirs in [('rsa', {'rsaSigHashes': ['sha256']}, (5, 1)), ('rsa', {'rsaSigHashes': ['sha256']}, (8, 5)),
                                  ('ecdsa', {'ecdsaSigHashes': ['sha256']}, (5, 3)), ('ecdsa', {'ecdsaSigHashes': ['sha384']}, (2, 3)),
                                  ('dsa', {'dsaSigHashes': ['sha256']}, (2, 2)), ('dsa', {'dsaSigHashes': ['sha1']}, (4, 2)),
                                  ('rsapss', {'rsaSigHashes': ['sha256']}, (8, 10)), ('rsa', {'rsaSchemes': ['pss']}, (4, 1))]:
            add(runner='cert', site='ske', ver=(3, 3), verifier='client', key=key, how='scheme', target='ske',
                scheme=theirs, verifier_settings=mine)
        # Checker
        for ver in [(3, 1), (3, 3), (3, 4)]:
            for verifier, key in [('client', 'rsa'), ('client', 'ecdsa'), ('server', 'client-rsa')]:
                for match in (True, False):
                    add(runner='cert', site='checker', ver=ver, verifier=verifier, key=key, how='honest', target='cv',
                        checker_match=match, checker_fp='@' + (key if match else 'ecdsa521'))
        for c in extra_cases(quick):
            c['seed'] = rng.randrange(1 << 30)
            cases.append(c)
    return cases


def extra_cases(quick):
    import c05_cases
    return c05_cases.extra_cases(quick)


def jobs(o):
    """JSON-able copy of an observation"""
    def conv(x):
        if isinstance(x, (bytes, bytearray)):
            return bytes(x).hex()
        if isinstance(x, dict):
            return {str(k): conv(v) for k, v in x.items()}
        if isinstance(x, (list, tuple)):
            return [conv(v) for v in x]
        return x
    return conv({k: v for k, v in o.items()})


def property_oracle(ctx, case, o):
    """The property, written directly: identity set after a successful return only for honest
    proofs; every corrupted run raises and leaves identity unset / connection closed.
    Returns True when a violation was reported."""
    idn = o['ident']
    accepted = o['code'] == 0
    peer_id = idn['server'] if o['verifier'] == 'client' else idn['client']
    key = None
    what = None
    if o.get('srp_unproved'):
        key = 'unproved-srp-username:%s' % o['site']
        what = ('server completed a %s handshake WITHOUT SRP and recorded session.srpUsername=%r taken from the '
                'unauthenticated ClientHello extension' % (o['ver'], idn['srp']))
    elif o.get('checker_bypassed'):
        key = 'checker-bypassed-by-resumption:%s' % o['site']
        what = ('server Checker (x509Fingerprint) rejected the client certificate of a full %s handshake (TLSFingerprintError), but the '
                'ticket had already been sent; the same client resumed and the call returned with session.clientCertChain=%r, '
                'resumed=True, the Checker skipped (checkResumedSession=False is the default)' % (o['ver'], idn['client']))
    elif o.get('unproved_ticket_chain'):
        key = 'unproved-ticket-chain:%s:%s' % (o['site'], o['how'])
        what = ('server completed a full TLS 1.3 handshake with a peer that presented only an unusable ticket (%s, garbage binder, '
                'no certificate, reqCert=%s) and recorded the ticket\'s client chain in session.clientCertChain=%r'
                % (o['how'], case.get('req_cert'), idn['client']))
    elif o['expect_accept'] and not (accepted and o['model'].get('sig_answer') is False):
        if not accepted or (o['claimed'] is not None and peer_id != o['claimed']):
            key = 'honest-proof-rejected:%s:%s' % (o['site'], o['how'])
            what = 'honest %s proof (%s, %s) was not accepted / identity not recorded: %s' % (o['site'], o['key'], o['ver'], o['outcome'])
    elif o['site'] == 'pha' and not accepted and idn['client'] != o.get('pha_before'):
        # post-handshake auth works on the live session object: a failed proof must leave it untouched
        key = 'identity-recorded-despite-failed-proof:pha:%s' % o['how']
        what = ('post-handshake authentication failed (%s, key %s: %s) but session.clientCertChain was changed from %r to %r'
                % (o['how'], o['key'], o['outcome'], o.get('pha_before'), idn['client']))
    elif accepted and o['model'].get('sig_answer') is False:
        # accepted although the signature on the wire does not verify, with the certificate's key, over the
        # bytes the RFCs prescribe for this transcript (computed by the harness, not by the code under test)
        key = 'accepted-without-valid-signature:%s%s' % (o['site'], ':sslv3' if tuple(o['ver']) == (3, 0) else '')
        what = ('%s endpoint accepted (%s, %s, key %s) but the signature sent does not verify over the RFC verify-bytes of '
                'this transcript' % (o['verifier'], o['ver'], o['how'], o['key']))
    else:
        if accepted:
            key = 'accepted:%s:%s' % (o['site'], o['how'])
            what = ('%s endpoint accepted a %s handshake although the peer did not prove possession (%s, key %s): identity '
                    'recorded=%r' % (o['verifier'], o['ver'], o['how'], o['key'], idn))
        elif not o['closed'] and peer_id:
            key = 'identity-left-on-open-connection:%s:%s' % (o['site'], o['how'])
            what = 'call raised but the connection stays open with the unproved identity recorded'
    o['_oracle_key'] = key
    if key is None:
        return False
    rep = {'case': {k: v for k, v in case.items() if not k.startswith('_')}, 'observed': jobs({k: v for k, v in o.items() if k != 'model'}),
           'how': 'cd /verif && ./check C05 --replay <this file>   (harness/c05_cases.run_case on "case" with PYTHONPATH=/repo)'}
    return ctx.violation(key, what, rep)


def dsa_tail_cases(ctx, n_random):
    """translation validation of Gen/C05_DsaVerify.v: Python_DSAKey.verify of /repo called directly on
    honest, edge and random (r, s) for the DSA test keys; the generated tail is run on the same numbers"""
    import loop
    import c05_peers  # noqa (registers extra credentials)
    import c05_refsig as R
    rng = ctx.rng
    out = []
    for name in ('dsa', 'client-dsa'):
        chain, key = loop.creds(name)
        pub = chain.getEndEntityPublicKey()
        p, q, g, y = R.dsa_numbers(pub)
        nbits = q.bit_length()
        for hl in (20, 32, 36, 64):
            digest = bytes(rng.randrange(256) for _ in range(hl))
            honest = bytes(key.sign(bytearray(digest)))
            sigs = [('honest', honest)]
            for e in R.EDGE_RS:
                if e in ('pad-r', 'pad-s', 'trailer', 'neg-s', 'neg-r'):
                    continue                      # rejected by the DER layer before the modelled tail
                sigs.append((e, R.edge_signature(pub, 'dsa', honest, e)))
            for _ in range(n_random):
                sigs.append(('random', R.der_rs(rng.randrange(0, q + 2), rng.randrange(0, q + 2))))
            sigs.append(('other-digest', honest))
            for tag, sg in sigs:
                d = digest if tag != 'other-digest' else bytes(rng.randrange(256) for _ in range(hl))
                z = int.from_bytes(d, 'big')
                if len(d) * 8 > nbits:
                    z >>= len(d) * 8 - nbits
                r, s_ = R.parse_der_rs(sg)
                impl = bool(pub.verify(bytearray(sg), bytearray(d)))
                ref = R.ref_dsa_verify(pub, d, sg)
                out.append({'key': name, 'tag': tag, 'hl': hl, 'nums': (p, q, g, y, z, r, s_), 'impl': impl, 'ref': ref,
                            'sig': bytes(sg).hex(), 'digest': d.hex()})
    return out


def run(ctx):
    quick = ctx.tier == 'quick'
    tie_broken = None
    for unit in ('C05_VerifyBytes', 'C05_Sites', 'C05_DsaVerify'):
        ok, msg = units.generate(unit, vlib.COQ)
        ctx.log('translator %s: %s' % (unit, msg))
        if not ok:
            tie_broken = msg
    res = vlib.proof_stage(ctx, 'Props/C05.v', model_targets=MODEL_TARGETS)
    ctx.log('proof stage ok=%s failing=%s' % (res['ok'], res['failing']))
    ctx.cov['trusted_base'] = [
        'Coq 8.16.1 kernel + vm_compute',
        'translator/units_c05.py (calcVerifyBytes -> Gallina; site table extraction), validated by the correspondence',
        'signature / hash / Finished MAC / PSK binder / record protection primitives as oracles (C09, C10)',
        'H-ideal-hash (collision-free digests) only in proof_bound_to_this_transcript_ideal',
        'Model/C05_Auth.v as the reading of the handshake functions (tied by Gen/C05_Sites.v = Model/C05_SitesExpected.v and by live runs)',
    ]
    ctx.assumptions += ['message order gates are as C06 states (a missing CertificateVerify shows up as "next message is something else")',
                        'certificate policy verdict (_check_certchain_with_settings) and key-exchange arithmetic are inputs (C03/C19, C10)',
                        'Finished / binder / record-layer oracle answers are fixed by construction of the corruption class']
    cases = gen_cases(ctx)
    import c05_cases
    for c in cases:
        if isinstance(c.get('checker_fp'), str) and c['checker_fp'].startswith('@'):
            c['checker_fp_name'] = c['checker_fp'][1:]
    with multiprocessing.Pool(vlib.NPROC) as pool:
        obs = pool.map(_worker, cases, chunksize=4)
    ctx.log('live handshakes: %d cases' % len(obs))
    found = False
    good = []
    for c, o in zip(cases, obs):
        if 'harness_error' in o:
            tie_broken = tie_broken or ('harness error in case %s: %s' % (o.get('case'), o['harness_error'].splitlines()[-1]))
            ctx.log('HARNESS ERROR: ' + o['harness_error'])
            continue
        if o.get('skip'):
            continue
        ctx.count('live:' + o['site'], 1, [(o['site'], tuple(o['ver']), o['key'], c.get('dc'), c.get('server_key'), str(c.get('scheme')), o['how'], o['code'])],
                  sample=jobs({k: v for k, v in o.items() if k != 'model'}) if len(good) % 131 == 0 else None)
        if o['code'] != 0 and (o['ident']['client'] or o['ident']['server'] or o['ident']['srp']):
            ctx.count('residual-identity-on-closed-failed-connection', 1, [(o['site'], o['how'])])
        if property_oracle(ctx, c, o):
            found = True
        elif o.get('_oracle_key') is not None:
            # a KNOWN finding: the code deviates from the property on this input, so the (RFC-faithful) oracle
            # answers cannot reproduce its verdict -- the case is reported above and left out of the model comparison
            ctx.count('known-finding-cases-excluded-from-model-comparison', 1, [o['_oracle_key']])
            continue
        good.append((c, o))
    # ---- model on the observed oracle answers
    if res['model_ok'] and tie_broken is None:
        lits = [caselit(o) for _, o in good]
        bad, errs = vlib.coq_bad_indices('C05', IMPORTS, 'CaseT', 'chk', lits,
                                         shard=min(60, max(8, (len(lits) + 15) // 16)), timeout=2400, preamble=PREAMBLE)
        ctx.count('model-vs-impl(vm_compute)', len(lits), [('agree', len(lits) - len(bad))])
        for e in errs:
            tie_broken = 'case evaluation failed: ' + e[:400]
        known_keys = set(k.get('key') for k in ctx.known)
        for i in bad[:8]:
            c, o = good[i]
            ctx.log('model/impl disagreement: %s %s %s %s code=%s ident=%s' % (o['site'], o['ver'], o['key'], o['how'], o['code'], o['ident']))
            if not found:
                tie_broken = 'model disagrees with implementation on %s %s %s %s (impl code %s)' % (o['site'], o['ver'], o['key'], o['how'], o['code'])
        # ---- generated DSA verification tail on real key numbers + the primitive against the reference
        dcs = dsa_tail_cases(ctx, 3 if quick else 20)
        for d in dcs:
            ctx.count('dsa-verify:impl-vs-reference', 1, [(d['key'], d['tag'], d['hl'], d['impl'])])
            if d['impl'] != d['ref']:
                if ctx.violation('dsa-verify!=FIPS186-4:%s' % d['tag'],
                                 'Python_DSAKey.verify returns %r but FIPS 186-4 4.7 says %r for key %s, signature %s over digest %s'
                                 % (d['impl'], d['ref'], d['key'], d['sig'], d['digest']),
                                 {'dsa_case': {k: (list(v) if isinstance(v, tuple) else v) for k, v in d.items()},
                                  'how': 'loop.creds(key)[0].getEndEntityPublicKey().verify(bytes.fromhex(sig), bytes.fromhex(digest))'}):
                    found = True
        import math

        def dsa_lit(d):
            p_, q_, g_, y_, z_, r_, s_ = d['nums']
            # the mathematical invMod / powMod on every argument the honest tail can ask for
            w = pow(s_, -1, q_) if (q_ > 0 and math.gcd(s_ % q_, q_) == 1) else 0
            u1, u2 = (z_ * w) % q_, (r_ * w) % q_
            ti = '[(%s, %s, %s)]' % (zlit(s_), zlit(q_), zlit(w))
            tp = '[(%s, %s, %s, %s); (%s, %s, %s, %s)]' % (zlit(g_), zlit(u1), zlit(p_), zlit(pow(g_, u1, p_)),
                                                          zlit(y_), zlit(u2), zlit(p_), zlit(pow(y_, u2, p_)))
            return '(%s, %s, (%s), %s)' % (ti, tp, ', '.join(zlit(x) for x in d['nums']), boollit(d['impl']))
        # Z.modulo on 4096-bit products costs seconds per case under vm_compute: the quick tier runs the generated
        # tail on a fixed small selection (every branch of the guard), the thorough tier on all cases
        if quick:
            sel = [d for d in dcs if (d['key'] == 'client-dsa' and d['hl'] == 20) or
                   (d['key'] == 'dsa' and d['hl'] == 32 and d['tag'] in ('honest', 'r1-s0', 's=q'))]
            dcs_eval = sel[:16]
        else:
            dcs_eval = [d for d in dcs if d['hl'] in (20, 32)]      # ~7 s CPU per case: two digest lengths suffice
        dl = [dsa_lit(d) for d in dcs_eval]
        badd, errs = vlib.coq_bad_indices('C05d', ['Gen.C05_DsaVerify', 'Model.C05_SigGuard'],
                                          '(list (Z * Z * Z) * list (Z * Z * Z * Z) * (Z * Z * Z * Z * Z * Z * Z) * bool)',
                                          'dsa_case_ok', dl, shard=max(1, (len(dl) + 15) // 16), timeout=2400)
        ctx.count('dsa-tail-model-vs-impl(vm_compute)', len(dl), [('agree', len(dl) - len(badd))])
        for e in errs:
            tie_broken = 'DSA tail evaluation failed: ' + e[:300]
        for i in badd[:3]:
            if not found:
                tie_broken = 'generated dsa_verify_tail disagrees with Python_DSAKey.verify on %s %s' % (dcs_eval[i]['key'], dcs_eval[i]['tag'])
    elif not res['model_ok']:
        tie_broken = tie_broken or ('model does not compile: %s' % res['failing'])
    ctx.cov['rule'] = ('cases = proof site x corruption class x key type x version (live handshake with a wrapped peer); '
                       'distinct/non-trivial = (site, version, key, corruption, verdict code)')
    if tie_broken and not found:
        ctx.violation('tie-broken', tie_broken, {'correspondence': 'Model/C05_Auth.v, Gen/C05_*.v vs /repo', 'detail': tie_broken},
                      found_input=False)
        found = True
    vlib.broken_proof_verdict(ctx, res, found)


def replay(ctx, path):
    with open(path) as f:
        r = json.load(f)
    import c05_cases
    case = r['case']
    for k in ('ver', 'scheme'):
        if k in case and case[k] is not None:
            case[k] = tuple(case[k])
    o = c05_cases.run_case(case)
    if 'harness_error' in o:
        print(o['harness_error'])
        return 2
    print('verifier=%s code=%s outcome=%s identity=%s expect_accept=%s' % (o['verifier'], o['code'], o['outcome'], o['ident'], o['expect_accept']))
    bad = (o['code'] == 0) != o['expect_accept'] or o.get('srp_unproved')
    return 1 if bad else 0
