"""C19: settings validation is pure and idempotent; compatible settings connect.

Tie: hand model of HandshakeSettings.validate() (coq/Model/C19_Settings.v, by-reference heap) +
tables/flags/ast-skeleton regenerated from /repo on every run (coq/Gen/SettingsTables.v) +
correspondence: the model is evaluated by vm_compute on the same objects as the real validate(),
comparing identity and content of every list attribute before/after and the outcome.
Theorems: coq/Props/C19.v.  Second sentence: `compatible` (Spec/C19_Compat.v) evaluated in Coq on
configuration pairs and compared with live handshakes (correspondence only)."""
import json
import os
import sys
import traceback

import vlib
import c19_model as M
import c19_gen as G

sys.path.insert(0, os.path.join(vlib.ROOT, 'translator'))
import units  # noqa: E402

LEVEL = 'proof'
META = {
    'text': 'Coq theorems (Props/C19.v) about an executable by-reference model of HandshakeSettings.validate(), for all '
            'heaps, settings objects (unbounded lists), domain tables and installation flags: full frame condition '
            '(every pre-existing cell unchanged, any outcome), idempotence, supported-only output, acceptance inside / '
            'ValueError outside all 32 documented domains (validate() decides exactly the documented domains). '
            'The model is evaluated by vm_compute against the real validate() on generated objects (identity and content '
            'of every attribute before/after); the second sentence (compatible pairs connect) is checked by evaluating '
            'the Gallina predicate `compatible` on configuration pairs against live handshakes.',
    'note': 'Trusted: Coq kernel + vm_compute; the hand model (tied by correspondence, not by translation; tables, flags '
            'and the copy/validate skeleton are regenerated from the ast); Spec/C19_Domain.v as the reading of the '
            'documentation; scalar attributes are typed in the model (wrong-typed scalars/containers are examined on '
            'the implementation only). "compatible settings connect" is correspondence-tied only (negotiation model is '
            'C03), i.e. partial.',
    'technique': 'Rocq/Coq proof over hand model with by-reference heap + generated tables + vm_compute correspondence + live handshakes',
}
RUN = '_%d' % os.getpid()     # concurrent C19 runs must not share coq/_cases file names
IMPORTS = ['Gen.SettingsTables', 'Model.C19_Settings', 'Model.C19_Repo', 'Spec.C19_Domain']
MODEL_TARGETS = ['Gen/SettingsTables.vo', 'Model/C19_Settings.vo', 'Model/C19_Repo.vo', 'Spec/C19_Domain.vo', 'Spec/C19_Compat.vo']

PREAMBLE = '''
(* one literal per observed call: the observation, the Python domain oracle's verdict on the receiver and the
   Python supportedness oracle's verdict on the result (true when there is no result) *)
Definition CaseT := (obs * bool * bool)%type.
Definition chk_model (c : CaseT) : bool := chk_validate (fst (fst c)).
Definition chk_domain (c : CaseT) : bool :=
  let '(o, pyd, _) := c in
  Bool.eqb (typed (view (obs_heap0 o) (obs_self o)) && in_domain repo_tables (view (obs_heap0 o) (obs_self o))) pyd.
Definition chk_supported (c : CaseT) : bool :=
  let '(o, _, pys) := c in
  match obs_res o with
  | Some l => Bool.eqb (supported_only repo_tables repo_install (map (hget (obs_heap1 o)) l, sc (obs_self o))) pys
  | None => true
  end.
'''


def site_of(exc):
    """Innermost function of handshakesettings.py on the traceback (stable across line changes)."""
    tb = traceback.extract_tb(exc.__traceback__)
    for fr in reversed(tb):
        if fr.filename.endswith('handshakesettings.py'):
            return fr.name
    return tb[-1].name if tb else '?'


def V(ctx, found, key, what, replay, found_input=True):
    """Report; only violations that are not known findings count as 'found' for the broken-proof verdict."""
    seen = ctx.__dict__.setdefault('_c19_seen', set())
    if key in seen:
        return
    seen.add(key)
    if ctx.violation(key, what, replay, found_input=found_input):
        found.append(key)


def run_validate(s):
    try:
        return s.validate(), None
    except Exception as e:  # noqa
        return None, e


def direct_oracles(ctx, s, labels, inst, desc, stream, found):
    """The property itself on the implementation (first sentence).  Returns dict with the outcome."""
    te, dv = G.domain_violations(s)
    try:
        supp = G.something_supported(s, inst) if not (dv or te) else None
    except Exception:  # noqa
        supp = None
    before = M.snapshot(s)
    rep = M.representable(s)
    lit = None
    sc_same = True
    if rep:
        try:
            lit, out = M.observe(s)
            sc_same = out.get('scalars_same', True)
            r, exc_name = out['result'], out['exc']
            exc = None
            if exc_name:
                # re-run on a rebuilt copy to get the traceback site (validate is deterministic)
                _, exc = run_validate(M.rebuild(desc))
        except M.Unrepresentable:
            rep = False
    if not rep:
        r, exc = run_validate(s)
        exc_name = type(exc).__name__ if exc else None
    after = M.snapshot(s)
    how = 'PYTHONPATH=/repo: rebuild the object with harness/c19_model.rebuild(settings) and call .validate(); ' \
          './check C19 --replay <this file>'
    base = {'settings': desc, 'labels': labels, 'how': how}
    # (1) purity: identity and content of every attribute of the receiver
    diff = M.snap_diff(before, after)
    if diff:
        # one report per modified OBJECT (attributes bound to the same list are one object), named by its first attribute
        groups = {}
        for dname in diff:
            a = dname.split(':')[0]
            oid = before['id'].get(a, a) if dname.endswith(':content') else dname
            groups.setdefault(oid, []).append(dname)
        order = {f: i for i, f in enumerate(M.ALL_FIELDS)}
        for oid, names in groups.items():
            names.sort(key=lambda n: order.get(n.split(':')[0], 99))
            V(ctx, found, 'receiver-modified:' + names[0],
              'validate() modified its receiver: %s (outcome %s)' % (names, exc_name or 'ok'),
              dict(base, clause='purity', diff=names,
                   before={k: before['content'].get(k.split(':')[0]) for k in names if ':' in k},
                   after={k: after['content'].get(k.split(':')[0]) for k in names if ':' in k}))
    # (4) documented domains; values of a wrong Python type are recorded, not judged
    if te:
        ctx.count('wrong-type-outcomes', 1, [(te[0][0], te[0][1], exc_name or 'accepted')])
    elif dv:
        if exc is None:
            for dim, why in dv:
                V(ctx, found,'outside-domain-accepted:%s:%s' % (dim, why),
                              'validate() accepts %s=%r although it is outside the documented domain (%s)'
                              % (dim, getattr(s, dim, None), why), dict(base, clause='rejects-outside-domain', dims=dv))
        elif not isinstance(exc, ValueError):
            V(ctx, found,'outside-domain-wrong-exception:%s@%s' % (type(exc).__name__, site_of(exc)),
                          'validate() raises %s (%s) instead of ValueError for a value outside the documented domain %s'
                          % (type(exc).__name__, exc, dv[:2]), dict(base, clause='rejects-outside-domain', dims=dv))
    else:
        if exc is not None and (supp or not isinstance(exc, ValueError)):
            V(ctx, found,'inside-domain-rejected:%s@%s' % (type(exc).__name__, site_of(exc)),
                          'validate() raises %s (%s) for settings inside the documented domains' % (type(exc).__name__, exc),
                          dict(base, clause='accepts-inside-domain'))
    # (2) idempotence and (3) supportedness of the output
    if exc is None:
        rb = M.snapshot(r)
        r2, exc2 = run_validate(r)
        ra = M.snapshot(r)
        d2 = M.snap_diff(rb, ra)
        if d2:
            V(ctx, found,'receiver-modified(2nd):' + ','.join(d2), 'validate() modified a validated object: %s' % d2,
                          dict(base, clause='purity-second-call', diff=d2))
        if exc2 is not None:
            V(ctx, found,'not-idempotent:raises:%s@%s' % (type(exc2).__name__, site_of(exc2)),
                          'validate() of a validated object raises %s' % exc2, dict(base, clause='idempotence'))
        else:
            c1, c2 = M.snapshot(r)['content'], M.snapshot(r2)['content']
            dd = sorted(k for k in set(c1) | set(c2) if c1.get(k) != c2.get(k))
            if dd:
                V(ctx, found,'not-idempotent:' + ','.join(dd), 'validate(validate(s)) differs from validate(s) in %s' % dd,
                              dict(base, clause='idempotence', first={k: c1.get(k) for k in dd}, second={k: c2.get(k) for k in dd}))
        if sorted(vars(r)) != before['attrs']:
            V(ctx, found,'attribute-set-differs', 'validated object has different attributes than the receiver',
                          dict(base, clause='copy'))
        try:
            un = G.unsupported_names(r, inst)
        except Exception:  # noqa
            un = []
        for f, name in un[:3]:
            V(ctx, found,'unsupported-in-output:%s:%s' % (f, name),
                          'validated settings contain %s=%s which the running installation does not support' % (f, name),
                          dict(base, clause='supported-only'))
    key = (tuple(sorted(set(l.split(':')[0] for l in labels)))[:3], exc_name or 'ok', bool(dv), bool(te), rep)
    ctx.count(stream, 1, [key], sample={'labels': labels, 'outcome': exc_name or 'ok', 'outside': dv[:2]}
              if ctx.cov['streams'].get(stream, {}).get('evaluations', 0) % 53 == 0 else None)
    return {'lit': lit, 'rep': rep, 'exc': exc_name, 'dv': dv, 'result': r, 'in_domain': not te and not dv, 'te': te,
            'scalars_same': sc_same}


def drift_check(ctx):
    """Is validate() still the text the hand model was written against?  Compared: the digest of the flattened,
    normalised closure of validate() (translator/c19_astnorm.py; robust against extracted/merged helpers, renamed
    or single-use locals, De Morgan, unrolled literal loops, reworded messages).  A difference is a BROKEN TIE: after
    the search it is reported as a violation (found_input=False when the search found nothing).  The per-method
    digests only help to locate the change."""
    import re
    try:
        with open(os.path.join(vlib.COQ, 'Gen', 'SettingsTables.v')) as f:
            g = f.read()
        m = re.search(r'Definition gen_digests : [^\n]*:= \[(.*?)\]\.\n', g, flags=re.S)
        now = dict(re.findall(r'\("([^"]+)", "([^"]+)"\)', m.group(1)))
        now['__closure__'] = re.search(r'Definition gen_closure_digest : string := "([0-9a-f]+)"', g).group(1)
        with open(os.path.join(os.path.dirname(os.path.abspath(M.__file__)), 'c19_digests.json')) as f:
            old = json.load(f)
        ctx.cov['source_digests'] = now
        if now['__closure__'] == old.get('__closure__'):
            return []
        changed = sorted(k for k in set(now) | set(old) if now.get(k) != old.get(k) and k != '__closure__')
        ctx.log('model drift: normal form of validate() changed; methods with a different text: %s' % changed)
        return changed or ['validate() closure']
    except Exception as e:  # noqa
        return ['digest comparison unavailable: %r' % (e,)]


def run(ctx):
    quick = ctx.tier == 'quick'
    found = []
    tie_broken = None
    ok, msg = units.generate('SettingsTables', vlib.COQ)
    ctx.log('translator: %s' % msg)
    if not ok:
        tie_broken = msg
    drifted = drift_check(ctx)
    res = vlib.proof_stage(ctx, 'Props/C19.v', model_targets=MODEL_TARGETS)
    ctx.log('proof stage ok=%s failing=%s' % (res['ok'], res['failing']))
    ctx.cov['trusted_base'] = [
        'Coq 8.16.1 kernel + vm_compute (case evaluation)',
        'hand model Model/C19_Settings.v of validate() (tied by correspondence on every run)',
        'translator/units_settings.py: import-time tables/flags and ast skeleton of handshakesettings.py',
        'Spec/C19_Domain.v and harness/c19_gen.py:domain_violations as the reading of the documented domains',
        'harness/loop.py in-memory endpoints for the handshake half',
    ]
    ctx.assumptions += [
        'scalar attributes have their documented Python type in the Coq model (wrong-typed scalars/containers: implementation only)',
        'compatible-settings-connect: correspondence only (no negotiation model here; see C03)',
    ]
    inst = G.installation()
    ctx.log('installation (measured directly): %s' % inst)
    n_cases = 320 if quick else 4000
    rng = ctx.rng
    # ---------------------------------------------------------------- generated objects
    cases = []
    corpus = os.path.join(vlib.ROOT, 'corpus', 'C19')
    if os.path.isdir(corpus):
        for fn in sorted(os.listdir(corpus)):
            if fn.endswith('.json'):
                with open(os.path.join(corpus, fn)) as f:
                    d = json.load(f)
                cases.append((M.rebuild(d['settings']), ['corpus:' + fn]))
    cases.append(G.gen_settings(rng, 0))
    probes = G.probe_cases()
    cases += probes
    n_cases += len(probes)
    while len(cases) < n_cases:
        cases.append(G.gen_settings(rng))
    outs = []
    for s, labels in cases:
        desc = M.describe(s)
        outs.append((desc, labels, direct_oracles(ctx, s, labels, inst, desc, 'impl-vs-property(direct)', found)))
    ctx.log('direct oracles: %d objects, %d representable in the model' % (len(outs), sum(1 for o in outs if o[2]['rep'])))
    # ---------------------------------------------------------------- wrong-type catalogue (implementation only)
    for f, cls, mk in G.wrongtype_cases():
        s, _ = G.gen_settings(rng, 0)
        setattr(s, f, mk())
        desc = M.describe(s)
        direct_oracles(ctx, s, ['wrongtype:%s:%s' % (f, cls)], inst, desc, 'wrong-type-values(direct)', found)
    # ---------------------------------------------------------------- model vs implementation (vm_compute)
    if res['model_ok'] and tie_broken is None:
        idx = [i for i, o in enumerate(outs) if o[2]['rep'] and o[2]['lit']]
        lits = [outs[i][2]['lit'] for i in idx]
        lits, dmeta = [], []
        for i in idx:
            desc, labels, o = outs[i]
            pys = True if o['result'] is None else not G.unsupported_names(o['result'], inst)
            lits.append('(%s, %s, %s)' % (o['lit'], vlib.boollit(o['in_domain']), vlib.boollit(pys)))
            dmeta.append((labels, o['dv'] + o['te']))
            if not o.get('scalars_same', True):
                tie_broken = tie_broken or ('validate() returned an object whose scalar attributes differ from the receiver\'s '
                                            '(the model keeps them): %s' % (labels,))
        (bad, bad_d, bad_s), errs = vlib.coq_bad_indices('C19' + RUN, IMPORTS, 'CaseT', ['chk_model', 'chk_domain', 'chk_supported'],
                                                         lits, shard=max(8, (len(lits) + 15) // 16) if quick else 60,
                                                         preamble=PREAMBLE)
        for k, i in enumerate(idx):
            d_, l_, o_ = outs[i]
            ctx.count('model-vs-impl(vm_compute)', 1,
                      [(tuple(sorted(set(x.split(':')[0] for x in l_)))[:3], o_['exc'] or 'ok', k not in bad)])
        for e in errs:
            tie_broken = 'case evaluation failed: ' + e[:400]
        for i in bad[:5]:
            desc, labels, o = outs[idx[i]]
            ctx.log('model/impl disagreement on case %d %s (impl outcome %s)' % (idx[i], labels, o['exc'] or 'ok'))
            tie_broken = tie_broken or ('model of validate() disagrees with the implementation on %s (outcome %s); settings=%s'
                                        % (labels, o['exc'] or 'ok', json.dumps(desc)[:1500]))
        # spec cross-check: Coq domain/supported specs vs the Python oracles on the same objects (same literals)
        for i in bad_d[:3]:
            tie_broken = tie_broken or ('Coq domain spec and Python domain oracle disagree on %s %s' % dmeta[i])
            ctx.log('domain spec disagreement: %s %s' % dmeta[i])
        for i in bad_s[:3]:
            tie_broken = tie_broken or 'Coq supported_only spec and Python oracle disagree on a validated object'
        ctx.log('model-vs-impl and spec cross-checks evaluated (vm_compute)')
        ctx.count('spec-crosscheck(vm_compute)', 2 * len(lits), [('domain', len(lits) - len(bad_d)), ('supported', len(lits) - len(bad_s))])
    elif not res['model_ok']:
        tie_broken = tie_broken or ('model does not compile: %s' % res['failing'])
    # ---------------------------------------------------------------- second sentence: live handshakes
    try:
        import c19_pairs
        c19_pairs.run_pairs(ctx, found, res['model_ok'])
    except ImportError:
        ctx.notes.append('handshake half not run (c19_pairs missing)')
    ctx.cov['rule'] = ('objects = HandshakeSettings() after 0-6 single-dimension changes (restrict/reorder/empty/unknown/extra/'
                       'alias two attributes/ill-typed element/boundary ints/versions/flags/tickets/PSK/DH/vhosts/callbacks/DC) '
                       'plus a fixed wrong-type catalogue; distinct = (changed dimensions, outcome, outside-domain?, representable?)')
    if drifted:
        msg = ('the ast of the modelled method(s) %s of tlslite/handshakesettings.py differs from the version the hand '
               'model Model/C19_Settings.v was written against (harness/c19_digests.json): the tie is broken until the '
               'model is re-synchronised' % drifted)
        tie_broken = tie_broken or msg
    if tie_broken and not found:
        V(ctx, found, 'tie-broken', tie_broken, {'correspondence': 'Model/C19_Settings.v vs tlslite/handshakesettings.py',
                                                  'detail': tie_broken}, found_input=False)
    elif tie_broken:
        ctx.notes.append('tie broken (a failing input was reported): ' + tie_broken[:500])
    vlib.broken_proof_verdict(ctx, res, bool(found))


def replay(ctx, path):
    with open(path) as f:
        r = json.load(f)
    if 'pair' in r and 'settings' not in r:
        import c19_pairs
        return c19_pairs.replay_pair(r)
    s = M.rebuild(r['settings'])
    inst = G.installation()
    before = M.snapshot(s)
    te, dv = G.domain_violations(s)
    v, exc = run_validate(s)
    after = M.snapshot(s)
    print('outside documented domain:', dv, ' wrong-typed:', te)
    print('outcome:', 'ok' if exc is None else '%s: %s' % (type(exc).__name__, exc))
    print('receiver changed:', M.snap_diff(before, after))
    rc = 0
    if M.snap_diff(before, after):
        rc = 1
    if not te and dv and not isinstance(exc, ValueError):
        rc = 1
    if not te and not dv and exc is not None and G.something_supported(M.rebuild(r['settings']), inst):
        rc = 1
    if exc is None:
        v2, exc2 = run_validate(v)
        print('second validate:', 'ok' if exc2 is None else repr(exc2))
        if exc2 is not None or M.snapshot(v)['content'] != M.snapshot(v2)['content']:
            rc = 1
        un = G.unsupported_names(v, inst)
        print('unsupported names in output:', un)
        if un:
            rc = 1
    return rc
