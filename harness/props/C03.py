"""C03: both ends of a completed handshake agree on everything, within both policies.

Model: coq/Model/C03_Negotiate.v over tables regenerated from /repo (coq/Gen/C03Tables.v,
C03Defaults.v).  Theorems: coq/Props/C03.v.  Correspondence: live handshakes between two real
TLSConnection objects for configuration pairs drawn from the restriction lattice, compared with
the model's prediction (vm_compute) and, independently, with the property text itself."""
import json
import os
import sys
import time
from multiprocessing import Pool

import vlib
import c03_util as U

sys.path.insert(0, os.path.join(vlib.ROOT, 'translator'))
import units  # noqa: E402

LEVEL = 'proof'
META = {
    'text': 'Coq theorems (Props/C03.v) for ALL configuration pairs of an executable negotiation model whose suite tables, '
            '_filterSuites classification, offer/selection order and default settings are regenerated from /repo on every run: '
            'client and server views agree field by field (version, suite, EtM, EMS, ALPN/NPN, SNI, record limits, secret inputs; '
            'chains under stated side conditions), every negotiated parameter lies inside both policies (version, suite '
            'cipher/MAC/key-exchange, group, signature scheme, key sizes), exporter agreement. Where the full statement is false of '
            'the faithful model it is refuted with a witness (six findings). The hand-modelled glue is tied by running live endpoint '
            'pairs and comparing outcome and every observable with the model (vm_compute).',
    'note': 'Hand-modelled (correspondence-tied, not translated): client offer, server hello stage, _sigHashesToList, '
            '_pickServerKeyExchangeSig, TLS<=1.2 and TLS 1.3 flows, _check_certchain_with_settings. Not modelled: resumption/tickets, '
            'virtual hosts, delegated credentials, TACK, heartbeat, certificate compression, cryptography (secret *inputs* are compared '
            'in the model, secret values on the live pair). Trusted: Coq kernel + vm_compute, translator/units_c03.py, harness.',
    'technique': 'Rocq/Coq proof over hand model + regenerated tables; live-endpoint correspondence by vm_compute; direct property oracle',
}
IMPORTS = ['Gen.C03Tables', 'Model.C03_Negotiate', 'Model.C03_Resume']


def work(arg):
    case, seed = arg
    try:
        cval, sval = U.validate_pair(case)
    except ValueError as e:
        return {'case': case, 'invalid': str(e)[:100]}
    try:
        obs = U.run_live(case, seed=seed)
    except Exception as e:  # noqa  (harness-side failure: reported as a broken tie)
        import traceback
        return {'case': case, 'harness_error': traceback.format_exc()[-800:]}
    if 'config_error' in obs:
        return {'case': case, 'invalid': obs['config_error']}
    cl, sv = U.case_lits(case, cval, sval, obs.get('hello2_len', 0), obs.get('nst_len', 0))
    bad = U.history_oracle(case, obs, cval, sval)
    return {'case': case, 'obs': obs, 'lit': '(%s, %s, %s)' % (cl, sv, U.obs_lit(obs)), 'bad': bad, 'seed': seed,
            'lit2': U.history_lit(case, obs, cval, sval)}


# ---- function-level translation validation of the pure helpers -----------------------------------
def helper_cases(ctx, n):
    """Python functions of constants.py / tlsconnection.py vs their Gallina counterparts."""
    from tlslite.constants import CipherSuite
    from tlslite.tlsconnection import TLSConnection
    t = U.tables()
    rng = ctx.rng
    lits, meta = [], []
    allsuites = sorted(set(sum((list(v) for v in t['lists'].values()), [])))
    zl = lambda xs: vlib.listlit(xs, vlib.zlit)  # noqa
    for lo in range(5):
        for hi in range(5):
            py = CipherSuite.filterForVersion(allsuites, (3, lo), (3, hi))
            lits.append('list_eqb (filter_for_version %s %d %d) %s' % (zl(allsuites), lo, hi, zl(py)))
            meta.append(('filterForVersion', lo, hi))
    for name in U.SERVER_CERTS + [None]:
        chain = U.cred(name)[0] if name else None
        py = CipherSuite.filter_for_certificate(allsuites, chain)
        lits.append('list_eqb (filter_for_certificate %s %s) %s' % (zl(allsuites), U.cert_lit(name), zl(py)))
        meta.append(('filter_for_certificate', name))
    getters = ['getTLS13Suites', 'getSrpSuites', 'getSrpCertSuites', 'getSrpAllSuites', 'getCertSuites', 'getDheCertSuites',
               'getEcdheCertSuites', 'getEcdsaSuites', 'getDheDsaSuites', 'getAnonSuites', 'getEcdhAnonSuites']
    base = {'getTLS13Suites': 'tls13Suites', 'getSrpSuites': 'srpSuites', 'getSrpCertSuites': 'srpCertSuites',
            'getSrpAllSuites': 'srpAllSuites', 'getCertSuites': 'certSuites', 'getDheCertSuites': 'dheCertSuites',
            'getEcdheCertSuites': 'ecdheCertSuites', 'getEcdsaSuites': 'ecdheEcdsaSuites', 'getDheDsaSuites': 'dheDsaSuites',
            'getAnonSuites': 'anonSuites', 'getEcdhAnonSuites': 'ecdhAnonSuites'}
    for k in range(n):
        d = U.gen_settings(rng, 'x', rng.choice([0.3, 0.6, 0.9]))
        try:
            val = U.mk_settings(d).validate()
        except ValueError:
            continue
        sl = U.settings_lit(d, val)
        g = rng.choice(getters)
        v = rng.choice([None, 0, 1, 2, 3, 4])
        py = getattr(CipherSuite, g)(val, (3, v) if v is not None else None)
        lits.append('list_eqb (get_suites %s %s [%s]) %s' % (sl, '(st_maxV %s)' % sl if v is None else str(v), base[g], zl(py)))
        meta.append(('getter', g, v))
        cert = rng.choice(U.SERVER_CERTS + U.CLIENT_CERTS + [None, None])
        ver = rng.choice([1, 2, 3, 3, 4, 4])
        usekey = cert is not None and rng.random() < 0.5
        chain, key = U.cred(cert) if cert else (None, None)
        py = TLSConnection._sigHashesToList(val, key if usekey else None, chain, version=(3, ver))
        small = usekey and U.cert_info(cert)[4]
        lits.append('list_eqb (sig_hashes_to_list %s %s %s %d) %s' % (
            sl, vlib.boollit(small), U.cert_lit(cert), ver, zl([a * 256 + b for a, b in py])))
        meta.append(('_sigHashesToList', cert, ver, usekey))
    return lits, meta


def run(ctx):
    quick = ctx.tier == 'quick'
    tie_broken = None
    for unit in ('C03Tables', 'C03Defaults'):
        ok, msg = units.generate(unit, vlib.COQ)
        ctx.log('translator %s: %s' % (unit, msg))
        if not ok:
            tie_broken = msg
    res = vlib.proof_stage(ctx, 'Props/C03.v', model_targets=['Gen/C03Tables.vo', 'Model/C03_Negotiate.vo', 'Model/C03_Resume.vo'])
    ctx.log('proof stage ok=%s failing=%s' % (res['ok'], res['failing']))
    ctx.cov['trusted_base'] = [
        'Coq 8.16.1 kernel + vm_compute',
        'translator/units_c03.py (tables by import, _filterSuites / offer order / selection order by ast, fail-closed)',
        'hand model Model/C03_Negotiate.v for the generator-coroutine glue, tied by the live correspondence below',
        'harness/loop.py in-memory endpoints; harness/c03_util.py encoders and the direct property oracle',
    ]
    ctx.assumptions += [
        'untampered run; one (certificate, key) pair per server (no virtual hosts); no resumption, tickets, delegated credentials, TACK, heartbeat',
        'secret values are functions of the compared secret inputs (version, PRF hash, EMS flag, key exchange, group, PSK, HRR) and the transcript',
        'the byte length of the ClientHello answering a HelloRetryRequest is a measured input of the model (cl_hello2_len)',
    ]
    n_random = 300 if quick else 6000
    rng = ctx.rng
    cases = U.fixed_cases(quick) + [U.gen_case(rng, i) for i in range(n_random)]
    seeds = [rng.randrange(1 << 30) for _ in cases]
    t0 = time.time()
    with Pool(vlib.NPROC) as pool:
        results = pool.map(work, list(zip(cases, seeds)), chunksize=4)
    ctx.log('live handshakes: %d cases in %.1fs' % (len(cases), time.time() - t0))
    found = False
    live = []
    seen_keys = {}
    for r in results:
        if 'harness_error' in r:
            tie_broken = 'harness failed on a case: ' + r['harness_error'][-300:]
            continue
        if 'invalid' in r:
            ctx.count('rejected-by-validate', 1, [r['invalid'][:40]])
            continue
        live.append(r)
        obs, case = r['obs'], r['case']
        code = U.outcome_code(obs)
        c, s = case['client'], case['server']
        key = (code, obs['client']['version'][1] if code == 0 else -1, obs['client'].get('suite'), c['flavour'],
               s.get('cert'), c.get('cert'), bool(s.get('req_cert')), c.get('alpn') is not None, s.get('alpn') is not None,
               bool(c['settings']['psks']))
        ctx.count('live-pair-vs-property', 1, [key], sample={'case': case, 'outcome': code} if len(live) % 60 == 1 else None)
        o2 = obs.get('second')
        if o2 and 'config_error' not in o2:
            c2 = o2.get('client', {})
            ctx.count('resumed-connection-vs-property', 1,
                      [(case['resume']['kind'], U.outcome_code(o2), c2.get('version', [0, 0])[1], c2.get('resumed'),
                        c2.get('send'), c2.get('recv'), c2.get('alpn') is not None)])
        for k, what in r['bad']:
            seen_keys[k] = seen_keys.get(k, 0) + 1
            if seen_keys[k] > 1:
                continue                      # one replay file per failure class
            found = ctx.violation(k, what, {'case': case, 'seed': r['seed'], 'observed': obs,
                                    'how': './check C03 --replay <this file>  (runs the pair on /repo and re-evaluates the property)'}) or found
    ctx.cov['property_failures_by_key'] = seen_keys
    ctx.cov['completed_both'] = len([r for r in live if U.outcome_code(r['obs']) == 0])
    ctx.log('property oracle on %d live pairs (%d completed on both ends)' % (len(live), ctx.cov['completed_both']))
    # ---- model vs implementation
    if res['model_ok'] and tie_broken is None:
        lits = [r['lit'] for r in live]
        t0 = time.time()
        bad, errs = vlib.coq_bad_indices('C03', IMPORTS, 'CaseT', 'chk_model', lits,
                                         shard=max(4, (len(lits) + 15) // 16) if quick else 120, preamble=U.PREAMBLE)
        ctx.count('model-vs-impl(vm_compute)', len(lits), [('agree', len(lits) - len(bad))])
        ctx.log('model vs implementation: %d cases, %d disagree (%.1fs)' % (len(lits), len(bad), time.time() - t0))
        for e in errs:
            tie_broken = 'case evaluation failed: ' + e[-300:]
        for i in bad[:5]:
            r = live[i]
            ctx.log('model/impl disagreement: %s -> impl %s' % (json.dumps(r['case'])[:300], U.obs_tuple(r['obs'])))
            if True:
                tie_broken = 'model disagrees with implementation on case %s (impl %s)' % (
                    json.dumps(r['case']), U.obs_tuple(r['obs']))
                ctx.cov.setdefault('disagreements', []).append({'case': r['case'], 'seed': r['seed'], 'impl': U.obs_tuple(r['obs'])})
        # ---- second (resumed) connections of the histories
        hist = [r for r in live if r.get('lit2')]
        if hist:
            bad2, errs = vlib.coq_bad_indices('C03r', IMPORTS, 'Case2T', 'chk_model2', [r['lit2'] for r in hist],
                                              shard=max(4, (len(hist) + 15) // 16) if quick else 60, preamble=U.PREAMBLE)
            ctx.count('resumed-model-vs-impl(vm_compute)', len(hist), [('agree', len(hist) - len(bad2))])
            ctx.log('resumed connections, model vs implementation: %d histories, %d disagree' % (len(hist), len(bad2)))
            for e in errs:
                tie_broken = 'history evaluation failed: ' + e[-300:]
            for i in bad2[:5]:
                r = hist[i]
                ctx.log('model/impl disagreement on the resumed connection: %s' % json.dumps(r['case'])[:300])
                tie_broken = 'resumption model disagrees with implementation on history %s (second connection %s)' % (
                    json.dumps(r['case']), U.obs2_lit(r['obs']['second']))
        hl, hm = helper_cases(ctx, 60 if quick else 600)
        badh, errs = vlib.coq_bad_indices('C03h', IMPORTS, 'bool', '(fun b : bool => b)', hl, shard=40)
        ctx.count('helpers-model-vs-impl', len(hl), [m[:2] for m in hm])
        for e in errs:
            tie_broken = 'helper evaluation failed: ' + e[-300:]
        for i in badh[:3]:
            tie_broken = 'model helper disagrees with implementation: %r' % (hm[i],)
    elif not res['model_ok']:
        tie_broken = tie_broken or ('model does not compile: %s' % res['failing'])
    ctx.cov['rule'] = ('cases = fixed boundary pairs + random (client, server) pairs: each settings dimension independently '
                       'restricted/reordered with probability 0..0.8; flavours cert(RSA/RSA-PSS/ECDSA P-256/384/521/brainpool/'
                       'Ed25519/Ed448/DSA), SRP, SRP+cert, anon, external PSK; client auth, ALPN, NPN, SNI; distinct = (outcome, '
                       'version, suite, flavour, certs, client-auth, ALPN sides, PSK)')
    if tie_broken and not found:
        ctx.violation('tie-broken', tie_broken, {'correspondence': 'Model/C03_Negotiate.v vs live TLSConnection pair',
                                                 'detail': tie_broken}, found_input=False)
        found = True
    vlib.broken_proof_verdict(ctx, res, found)


def replay(ctx, path):
    with open(path) as f:
        r = json.load(f)
    case = r['case']
    cval, sval = U.validate_pair(case)
    obs = U.run_live(case, seed=r.get('seed', 0))
    bad = U.history_oracle(case, obs, cval, sval)
    print('outcome:', obs['client_outcome'], obs['server_outcome'])
    for k, what in bad:
        print('property fails:', k, '-', what)
    return 1 if bad else 0
