"""C01: application data is delivered exactly, in order, for every suite and version, and no
record carries more plaintext than the limit in force.

Proof: coq/Props/C01.v about the hand-written model coq/Model/C01_RecordPipe.v.
Tie (every run): (a) record level, toy-exact -- the real RecordLayer.sendRecord/recvRecord
and TLSRecordLayer._sendMsg with toy cipher/MAC objects injected, against protect/unprotect/
send_app evaluated by vm_compute: wire bytes, delivered records, sequence numbers and cipher
states must be equal; readAsync(max,min) against read_calls; (b) connection level, real
primitives -- real handshakes for every negotiable (cipher, MAC, version, EtM) x
record_size_limit x recordSize, random write/read schedules in both directions: FIFO oracle,
per-record plaintext bound read off the wire headers, record body lengths and installed
limits equal to the model's."""
import multiprocessing
import random

import vlib
from vlib import zlit
import c01_util as U
from c01_util import blit
import c01_sites
import c02_live2

LEVEL = 'proof'
META = {
    'text': 'Coq theorems (Props/C01.v) over an executable model of RecordLayer.sendRecord/recvRecord, '
            'TLSRecordLayer._sendMsg fragmentation and the readAsync buffer: fragments concatenate to the data and '
            'respect min(recordSize, negotiated limit); unprotect(protect x) = x with sender/receiver staying in step '
            'for stream, CBC implicit/explicit IV, encrypt-then-MAC, TLS1.2 AEAD and TLS1.3 paths; for every schedule of '
            'writes, record arrivals and reads: written = read ++ buffered ++ in flight; TLS1.3 inner plaintext '
            '<= record_size_limit under the stated guard on padding_cb.  Model tied to /repo on every run by byte-exact '
            'comparison with the real RecordLayer driven with toy primitives, and by live connections with real primitives.',
    'note': 'Trusted: Coq kernel + vm_compute; cipher/MAC/AEAD are oracles under the contracts of Spec/C01_Contracts.v '
            '(H-cipher, AEAD open(seal)=id, MAC length); CBC MAC-and-pad check modelled by Spec.CbcCheck.well_formed '
            '(= C12); hand-written model (tie = correspondence, not translation); SSLv2 framing, early data, handshake/'
            'alert traffic not modelled here.  suite_params_total is left to C20.',
    'technique': 'Rocq/Coq proof over hand-written model + byte-exact toy correspondence (vm_compute) + live-pair oracle',
}

VERSIONS = [(3, 0), (3, 1), (3, 2), (3, 3)]


# ==========================================================================================
# (a) record level, toy-exact
def rand_bytes(rng, n):
    return bytes(rng.getrandbits(8) for _ in range(n))


def record_cases(ctx, quick):
    """Yield (cfg, recs) for the sweep (version x mode x block size x MAC length x lengths)."""
    rng = ctx.rng
    out = []
    combos = []
    for ver in VERSIONS:
        for mode in ('null', 'stream'):
            for mds in (16, 20, 32, 48):
                combos.append((mode, ver, dict(mds=mds, mbs=128 if mds == 48 else 64)))
        for mode in ('cbc', 'etm'):
            for bs in (8, 16):
                for mds in (16, 20, 32, 48):
                    combos.append((mode, ver, dict(bs=bs, mds=mds, mbs=128 if mds == 48 else 64)))
    for mode in ('aead-aes', 'aead-chacha', 'aead-chacha-draft'):
        for tag in (8, 16):
            combos.append((mode, (3, 3), dict(tag=tag)))
    for name in ('aes128gcm', 'chacha20-poly1305'):
        for tag in (8, 16):
            for pad in (None, ('const', 0), ('const', 7), ('blk', 16), ('max', 64), ('max', 100000)):
                combos.append(('tls13', (3, 4), dict(tag=tag, t13name=name, pad=pad)))
    for mode, ver, kw in combos:
        bs = kw.get('bs', 16)
        seq = rng.choice([0, 1, 2, 255, 256, 65535, 2 ** 32 - 1, 2 ** 32, 2 ** 56 + 3, 2 ** 64 - 9])
        c = U.default_cfg(mode, ver, seq=seq, enc_key=rand_bytes(rng, 16), mac_key=rand_bytes(rng, rng.choice([0, 16, 20])),
                          iv=rand_bytes(rng, 16), fixed_iv=rand_bytes(rng, 16), **kw)
        if mode in ('aead-chacha', 'tls13'):
            c['fixed_nonce'] = rand_bytes(rng, 12)
        elif mode.startswith('aead'):
            c['fixed_nonce'] = rand_bytes(rng, 4)
        lens = [0, 1, bs - 1, bs, bs + 1, 2 * bs - 1, 2 * bs, 3 * bs, rng.randrange(0, 3 * bs + 2), rng.choice([200, 255, 256, 257, 300, 511, 512, 600])]
        recs = [(23, rand_bytes(rng, n)) for n in lens]
        recs.insert(rng.randrange(len(recs)), (22, rand_bytes(rng, rng.randrange(1, 40))))
        recs.insert(rng.randrange(len(recs)), (21, bytes([1, 0])))
        if mode == 'tls13':
            recs.insert(rng.randrange(len(recs)), (20, b'\x01'))
        out.append((c, recs, 'sweep'))
    # limits: receiver's limit small; payloads around it (the receiver must accept <= limit, overflow above)
    lim_combos = [('stream', (3, 1), {}), ('cbc', (3, 1), {}), ('cbc', (3, 3), {}), ('etm', (3, 2), {}),
                  ('aead-aes', (3, 3), {}), ('aead-chacha', (3, 3), {}), ('tls13', (3, 4), {}),
                  ('tls13', (3, 4), dict(pad=('max', 100000))), ('tls13', (3, 4), dict(pad=('const', 300))),
                  ('null', (3, 0), {})]
    for mode, ver, kw in lim_combos:
        for lim in ((64, 100) if quick else (64, 65, 100, 255, 256, 1000)):
            for delta in (-1, 0, 1, 2):
                c = U.default_cfg(mode, ver, send_limit=lim, recv_limit=lim, **kw)
                recs = [(23, rand_bytes(rng, 5)), (23, rand_bytes(rng, lim + delta)), (23, rand_bytes(rng, 3))]
                out.append((c, recs, 'limit%+d' % delta))
    # around 2^14 (few: the literals are large)
    # (elaborating a 16 kB literal costs coqc ~20 s and 0.7 GB: thorough only; in quick the 2^14 boundary is
    # exercised by the live connections, whose record lengths are compared with the model's)
    big = [] if quick else [('cbc', (3, 1)), ('etm', (3, 3)), ('aead-aes', (3, 3)), ('tls13', (3, 4))]
    for mode, ver in big:
        for n in (2 ** 14, 2 ** 14 + 1):
            c = U.default_cfg(mode, ver, pad=('max', 100000) if mode == 'tls13' and n == 2 ** 14 - 1 else None)
            out.append((c, [(23, rand_bytes(rng, n))], 'big%d' % (n - 2 ** 14)))
    return out


def l4_send_impl(c, user, data):
    """Real TLSRecordLayer._sendMsg (fragmentation, 1/n-1 split, recordSize rule) on toy contexts."""
    from tlslite.tlsrecordlayer import TLSRecordLayer
    from tlslite.messages import ApplicationData
    sock = U.SinkSock()
    conn = TLSRecordLayer(sock)
    sock2 = conn.sock                       # BufferedSocket around our sink
    rl = conn._recordLayer
    rl.version = tuple(c['ver'])
    if tuple(c['ver']) > (3, 3):
        rl.tls13record = True
    st = U.make_state(c)
    rl._writeState = st
    rl.fixedIVBlock = bytearray(c['fixed_iv'])
    rl.padding_cb = U.pad_fn(c['pad'])
    rl.send_record_limit = c['send_limit']
    conn.recordSize = user
    conn.closed = False
    for _ in conn._sendMsg(ApplicationData().create(bytearray(data))):
        pass
    del sock2
    wires, buf = [], bytes(sock.out)
    while buf:
        n = (buf[3] << 8) | buf[4]
        wires.append(buf[:5 + n])
        buf = buf[5 + n:]
    return wires, st.seqnum, U.cs_of(st)


L4_PREAMBLE = U.PREAMBLE + '''
From TV Require Import Model.C02_RecordAccept.
Definition L4Case := (Cfg * Prim TCS * St TCS * Z * list Z * list (list Z) * Z * list Z)%type.
Definition chk_l4 (k : L4Case) : bool :=
  let '(c, P, s, user, data, exp, fseq, fcs) := k in
  match send_app c P user s data with
  | ROk (s1, ws) => (zlen ws =? zlen exp) &&
                    forallb (fun p => list_eqb (wire_bytes (fst p)) (snd p)) (combine ws exp) && st_eqb s1 fseq fcs
  | RErr _ => false
  end.
(* only lengths: data given by its length *)
Definition LenCase := (Cfg * Prim TCS * St TCS * Z * list (Z * list Z))%type.
Fixpoint len_loop (c : Cfg) (P : Prim TCS) (user : Z) (s : St TCS) (ws : list (Z * list Z)) : bool :=
  match ws with
  | [] => true
  | (n, lens) :: rest =>
      match send_app c P user s (zeros n) with
      | ROk (s1, recs) => list_eqb (map (fun w => zlen (snd w)) recs) lens && len_loop c P user s1 rest
      | RErr _ => false
      end
  end.
Definition chk_len (k : LenCase) : bool := let '(c, P, s, user, ws) := k in len_loop c P user s ws.
Definition ReadCase := (list (option Z * Z) * list arrival * list (list Z))%type.
Definition chk_read (k : ReadCase) : bool :=
  let '(calls, arr, exp) := k in
  let '(outs, _, _, _) := read_calls_c calls [] false arr in
  (zlen outs =? zlen exp) && forallb (fun p => list_eqb (fst p) (snd p)) (combine outs exp).
Definition KuCase := (list ku_op * (nat * nat * nat * nat))%type.
Definition chk_ku (k : KuCase) : bool :=
  let '(ops, (ao, ap, bo, bp)) := k in
  let s := fold_left ku_step ops ku_init in
  Nat.eqb (ku_own (ku_a s)) ao && Nat.eqb (ku_peer (ku_a s)) ap && Nat.eqb (ku_own (ku_b s)) bo && Nat.eqb (ku_peer (ku_b s)) bp
  && Nat.eqb (ku_wr (ku_a s)) ao && Nat.eqb (ku_rd (ku_a s)) ap && Nat.eqb (List.length (ku_ab s)) 0.
Definition LimCase := (bool * bool * Z * Z * Z * Z)%type.
Definition chk_lim (k : LimCase) : bool :=
  let '(t13, client, ext, own, isend, irecv) := k in
  (send_limit_after t13 client ext =? isend) && (recv_limit_after t13 own =? irecv).
'''


def l4_cases(ctx, quick):
    rng = ctx.rng
    out = []
    combos = [('cbc', (3, 0)), ('cbc', (3, 1)), ('etm', (3, 1)), ('cbc', (3, 2)), ('stream', (3, 1)), ('null', (3, 0)),
              ('etm', (3, 3)), ('aead-aes', (3, 3)), ('tls13', (3, 4))]
    for mode, ver in combos:
        for lim_user, lim_send in ((1, 16384), (2, 5), (7, 3), (64, 16384), (16384, 100), (100, 100)):
            L = min(lim_user, lim_send)
            lens = sorted(set([0, 1, 2, L - 1, L, L + 1, 2 * L, 2 * L + 1, 3 * L + 1, rng.randrange(0, 4 * L + 3)]))
            for n in lens:
                if n < 0 or n > 700:
                    continue
                c = U.default_cfg(mode, ver, send_limit=lim_send, seq=rng.randrange(0, 1000))
                out.append((c, lim_user, rand_bytes(rng, n)))
    bigs = [] if quick else [('cbc', (3, 1), 2 ** 14 + 2), ('tls13', (3, 4), 2 ** 14 + 1)]
    for mode, ver, n in bigs:
        out.append((U.default_cfg(mode, ver), 2 ** 14, rand_bytes(rng, n)))
    return out


def read_impl(chunks, calls):
    """Real readAsync(max, min) over records carrying `chunks` (toy stream keys)."""
    import errno
    import socket
    from tlslite.tlsrecordlayer import TLSRecordLayer
    from tlslite.messages import Message

    class BSock(U.SinkSock):
        def recv(self, n):
            if not self.inp:
                raise socket.error(errno.EWOULDBLOCK, 'empty')
            r = bytes(self.inp[:n])
            del self.inp[:n]
            return r

        def close(self):
            pass
    c = U.default_cfg('stream', (3, 3))
    srl, ssock, _ = U.make_rl(c, 'send')
    for ch in chunks:
        if ch is None:          # the peer's close_notify
            for _ in srl.sendRecord(Message(21, bytearray([1, 0]))):
                pass
            continue
        for _ in srl.sendRecord(Message(23, bytearray(ch))):
            pass
    sock = BSock()
    sock.inp = bytearray(ssock.out)
    conn = TLSRecordLayer(sock)
    conn._recordLayer.version = (3, 3)
    conn._recordLayer._readState = U.make_state(c)
    conn.closed = False
    outs = []
    for mx, mn in calls:
        res = None
        for r in conn.readAsync(mx, mn):
            if r in (0, 1) and not isinstance(r, (bytes, bytearray)):
                res = 'block'
                break
            res = bytes(r)
        if res == 'block':
            break
        outs.append(res)
    return outs


def read_cases(ctx, n):
    rng = ctx.rng
    out = []
    for _ in range(n):
        k = rng.randrange(1, 7)
        chunks = [rand_bytes(rng, rng.choice([1, 2, 5, 16, 40])) for _ in range(k)]
        if rng.random() < 0.4:
            chunks.insert(rng.randrange(len(chunks) + 1), b'')      # empty record: skipped by _getMsg
        total = sum(len(x) for x in chunks)
        calls, avail = [], total
        while avail > 0 and len(calls) < 8:
            mn = rng.choice([0, 1, 1, 2, 7, 30])
            mx = rng.choice([None, 1, 3, 10, 64, mn, mn + 1])
            if mn > avail:
                mn = avail
            # how much this call consumes is decided by the code; keep calls completable
            calls.append((mx, mn))
            outs = read_impl(chunks, calls)
            if len(outs) < len(calls):
                calls.pop()
                break
            avail = total - sum(len(o) for o in outs)
        if calls:
            out.append((chunks, calls))
    # the peer closes somewhere in the stream: min may now exceed what will ever arrive
    for _ in range(n):
        k = rng.randrange(0, 5)
        chunks = [rand_bytes(rng, rng.choice([1, 2, 5, 16, 40])) for _ in range(k)]
        chunks.insert(rng.choice([len(chunks), len(chunks), rng.randrange(len(chunks) + 1)]), None)
        total = sum(len(x) for x in chunks if x)
        calls = []
        for _ in range(rng.randrange(1, 7)):
            mn = rng.choice([0, 1, 2, 7, 30, total, total + 1, 100])
            mx = rng.choice([None, 1, 3, 10, 64, mn, mn + 1])
            calls.append((mx, mn))
        calls += [(None, 1)] * (len(chunks) + 1)  # drain: one record per call until the close; then b''
        outs = read_impl(chunks, calls)
        out.append((chunks, calls[:len(outs)] if len(outs) < len(calls) else calls))
    return out


# ==========================================================================================
# (b) connection level, real primitives
CIPHER_INFO = {   # name -> (kind, block size / tag length, explicit nonce bytes)
    'aes128': ('cbc', 16, 0), 'aes256': ('cbc', 16, 0), '3des': ('cbc', 8, 0), 'rc4': ('stream', 0, 0),
    None: ('null', 0, 0),
    'aes128gcm': ('aead', 16, 8), 'aes256gcm': ('aead', 16, 8), 'aes128ccm': ('aead', 16, 8), 'aes256ccm': ('aead', 16, 8),
    'aes128ccm_8': ('aead', 8, 8), 'aes256ccm_8': ('aead', 8, 8), 'chacha20-poly1305': ('aead', 16, 0),
}
MAC_LEN = {'sha': 20, 'sha256': 32, 'sha384': 48, 'md5': 16, 'aead': 0}
ALL_CIPHERS = ["chacha20-poly1305", "aes256gcm", "aes128gcm", "aes256ccm", "aes128ccm", "aes256ccm_8", "aes128ccm_8",
               "aes256", "aes128", "3des", "rc4", "null", "chacha20-poly1305_draft00"]
ALL_MACS = ["sha", "sha256", "sha384", "md5", "aead"]
ALL_VERSIONS = [(3, 0), (3, 1), (3, 2), (3, 3), (3, 4)]


def handshake(ver, cipher, mac, etm, crsl, srsl, seed, resume=None, presize=None):
    """resume: None | 'id' (session cache) | 'ticket' (TLS<=1.2 ticket / TLS 1.3 PSK): a first full
    connection, then the connection that is returned resumes its session (None if it did not)."""
    import loop
    from tlslite.api import SessionCache
    rnd = loop.DetRandom(seed).install()
    try:
        for kx in ('rsa', 'ecdhe_rsa', 'dhe_rsa'):
            cache = SessionCache() if resume == 'id' else None
            session = None
            p = None
            for rnd_no in range(2 if resume else 1):
                p = loop.Pair()
                kw = dict(minv=ver, maxv=ver, cipherNames=[cipher], macNames=[mac], useEncryptThenMAC=etm)
                cs = loop.settings(record_size_limit=crsl, **kw)
                ss = loop.settings(record_size_limit=srsl, **kw)
                if resume == 'ticket':
                    ss.ticketKeys = [bytearray(range(32))]
                    ss.ticket_count = 2
                if ver < (3, 4):
                    cs.keyExchangeNames = [kx]
                    ss.keyExchangeNames = [kx]
                chain, key = loop.creds('rsa')
                ckw = dict(settings=cs)
                if session is not None:
                    ckw['session'] = session
                skw = dict(certChain=chain, privateKey=key, settings=ss)
                if cache is not None:
                    skw['sessionCache'] = cache
                if presize is not None:
                    # documented use: recordSize "can be set to low value ... at the beginning of connection"
                    p.client.recordSize, p.server.recordSize = presize
                co, so = p.handshake(client_kw=ckw, server_kw=skw)
                if not (loop.classify(co) == ('ok',) and loop.classify(so) == ('ok',)):
                    p = None
                    break
                if resume and rnd_no == 0:
                    p.transfer(p.server, p.client, b'x')          # lets the client pick up NewSessionTicket
                    session = p.client.session
                    p.close_both()
                elif resume and not (p.client.resumed and p.server.resumed):
                    return None
            if p is not None:
                return p
            if ver >= (3, 4):
                break
        return None
    finally:
        rnd.uninstall()


def enumerate_combo(args):
    ver, cipher, mac = args
    p = handshake(ver, cipher, mac, True, 2 ** 14 + 1, 2 ** 14 + 1, 1)
    if p is None:
        return None
    return (ver, cipher, mac, bool(p.client.encryptThenMAC))


def parse_records(buf):
    out = []
    i = 0
    while i + 5 <= len(buf):
        n = (buf[i + 3] << 8) | buf[i + 4]
        out.append((buf[i], (buf[i + 1], buf[i + 2]), n))
        i += 5 + n
    return out, i == len(buf)


def plain_range(info, ver, etm, mac_len, body_len):
    """(min, max) plaintext bytes a record with this body length can carry (direct from the RFCs)."""
    kind, a, b = info
    if ver >= (3, 4):
        return body_len - a, body_len - a            # inner plaintext incl. type and padding
    if kind == 'aead':
        return body_len - a - b, body_len - a - b
    if kind in ('stream', 'null'):
        return body_len - mac_len, body_len - mac_len
    iv = a if ver >= (3, 2) else 0                    # CBC: at least 1, at most block-size bytes of padding
    if etm:
        return body_len - mac_len - iv - a, body_len - mac_len - iv - 1
    return body_len - iv - mac_len - a, body_len - iv - mac_len - 1


def conn_case(args):
    """One live connection: handshake, random schedule both ways.  Returns a result dict."""
    (ver, cipher, mac, etm, crsl, srsl, user_c, user_s, seed, quick, pad) = args[:11]
    opt = dict(args[11]) if len(args) > 11 and args[11] else {}
    import loop
    rng = random.Random(seed)
    res = dict(args=args, viol=[], stats=dict(writes=0, reads=0, bytes=0, records=0), lens=[], lims=[])
    p = handshake(ver, cipher, mac, etm, crsl, srsl, seed, resume=opt.get('resume'),
                  presize=(user_c, user_s) if opt.get('presize') else None)
    if p is None:
        res['skip'] = 'handshake failed'
        return res
    cname = p.client.getCipherName()
    info = CIPHER_INFO[cname]
    etm_on = bool(p.client.encryptThenMAC)
    mac_len = MAC_LEN[mac]
    t13 = ver >= (3, 4)
    ends = {'c': p.client, 's': p.server}
    socks = {'c': p.csock, 's': p.ssock}
    if not opt.get('presize'):          # otherwise it was assigned before the handshake and must still be in force
        ends['c'].recordSize = user_c
        ends['s'].recordSize = user_s
    if pad is not None and t13:
        for e in ends.values():
            e._recordLayer.padding_cb = U.pad_fn(pad)
    # limit in force, from the property text: the peer's advertised record_size_limit (both sent the extension)
    negotiated = bool(crsl) and bool(srsl) and ver >= (3, 1)
    adv = {'c': min(crsl or 0, 2 ** 14 + 1), 's': min(srsl or 0, 2 ** 14 + 1 if t13 else 2 ** 14)}
    limit = {}
    for me, peer in (('c', 's'), ('s', 'c')):
        proto = 2 ** 14 + 1 if t13 else 2 ** 14
        lim = min(adv[peer], proto) if negotiated else proto
        limit[me] = lim
        user = user_c if me == 'c' else user_s
        res['lims'].append((t13, me == 'c', adv[peer] if me == 'c' else (crsl if peer == 'c' else srsl), negotiated,
                            crsl if me == 'c' else srsl, ends[me]._send_record_limit, ends[me]._recv_record_limit))
    mark = {k: sum(len(x) for x in socks[k].sent_log) for k in socks}
    written = {'c': bytearray(), 's': bytearray()}
    got = {'c': bytearray(), 's': bytearray()}       # got[x] = bytes read by x (written by the other)
    small = cname == '3des'
    wire_lens = {'c': [], 's': []}

    def do_write(me, data):
        ep = ends[me]
        out = loop.drive([ep.writeAsync(data)])[0]
        if out[0] != 'ok':
            res['viol'].append(('write-failed', repr(loop.classify(out))))
            return False
        written[me] += data
        raw = b''.join(socks[me].sent_log)
        new = raw[mark[me]:]
        mark[me] = len(raw)
        recs, whole = parse_records(new)
        if not whole:
            res['viol'].append(('wire-not-record-aligned', me))
        lens = []
        lo_sum = hi_sum = 0
        user = user_c if me == 'c' else user_s
        for ty, hv, n in recs:
            res['stats']['records'] += 1
            if ty != 23:
                res['viol'].append(('unexpected-record-type', ty))
                continue
            lo, hi = plain_range(info, ver, etm_on, mac_len, n)
            lens.append(n)
            lo_sum += max(lo, 0)
            hi_sum += hi
            cap = limit[me] if t13 else min(limit[me], user)
            if t13:
                # content+type+padding <= peer's record_size_limit; content <= user recordSize
                if lo > cap:
                    res['viol'].append(('record-exceeds-limit', 'inner plaintext %d > record_size_limit %d' % (lo, cap), n))
                elif pad is None and lo - 1 > user:
                    res['viol'].append(('record-exceeds-limit', 'content %d > recordSize %d' % (lo - 1, user), n))
            elif lo > cap:
                res['viol'].append(('record-exceeds-limit', 'plaintext >= %d > limit %d' % (lo, cap), n))
        if t13:
            if not (len(data) + len(recs) <= hi_sum if pad is None else True) or (pad is None and hi_sum != len(data) + len(recs)):
                res['viol'].append(('plaintext-accounting', 'sum of inner plaintext %d != data %d + %d type bytes' % (hi_sum, len(data), len(recs))))
        elif not (lo_sum <= len(data) <= hi_sum):
            res['viol'].append(('plaintext-accounting', 'data %d not within [%d,%d] carried by records' % (len(data), lo_sum, hi_sum)))
        wire_lens[me].append((len(data), lens))
        res['stats']['writes'] += 1
        res['stats']['bytes'] += len(data)
        return True

    def do_read(me, mx, mn):
        ep = ends[me]
        peer = 's' if me == 'c' else 'c'
        val = [None]

        def g():
            for r in ep.readAsync(mx, mn):
                if r in (0, 1) and not isinstance(r, (bytes, bytearray)):
                    yield r
                else:
                    val[0] = bytes(r)
        out = loop.drive([g()], max_steps=20000)[0]
        if out[0] != 'ok' or val[0] is None:
            res['viol'].append(('read-failed', repr(loop.classify(out))))
            return False
        exp_all = bytes(written[peer][len(got[me]):])
        r = val[0]
        if r != exp_all[:len(r)]:
            res['viol'].append(('fifo', 'read returned bytes that are not the next bytes written', len(got[me])))
            return False
        if mx is not None and len(r) > mx:
            res['viol'].append(('read-max', 'returned %d > max %d' % (len(r), mx)))
        if len(r) < min(mn, len(exp_all), mx if mx is not None else len(exp_all)):
            res['viol'].append(('read-min', 'returned %d < min %d' % (len(r), mn)))
        got[me] += r
        res['stats']['reads'] += 1
        return True

    if 'close' in opt:
        # the writer writes n bytes and closes (close_notify, or abruptly with ignoreAbruptClose on the reader);
        # the reader consumes fixed frames read(frame, frame): everything written must be read, then b''
        n, frame, how, wside = opt['close']
        rside = 's' if wside == 'c' else 'c'
        data = rand_bytes(rng, n)
        if do_write(wside, data):
            if how == 'notify':
                loop.drive([ends[wside].closeAsync()])
            else:
                ends[rside].ignoreAbruptClose = True
                socks[wside].close()
            out = bytearray()
            for _ in range(n // max(frame, 1) + 4):
                val = [None]

                def g():
                    for r in ends[rside].readAsync(frame, frame):
                        if r in (0, 1) and not isinstance(r, (bytes, bytearray)):
                            yield r
                        else:
                            val[0] = bytes(r)
                o = loop.drive([g()], max_steps=20000)[0]
                if o[0] != 'ok' or val[0] is None:
                    res['viol'].append(('read-failed-at-close', repr(loop.classify(o)), len(out)))
                    break
                if val[0] == b'':
                    break
                out += val[0]
                res['stats']['reads'] += 1
            if not res['viol'] and bytes(out) != data:
                res['viol'].append(('lost-at-close', 'writer wrote %d bytes and closed (%s); read(%d,%d) frames returned %d bytes'
                                    % (n, how, frame, frame, len(out)), len(out)))
        res['lens'] = wire_lens
        res['mode'] = dict(cname=cname, etm=etm_on, mac_len=mac_len, info=info,
                           send_limit={k: ends[k]._send_record_limit for k in ends}, user={'c': user_c, 's': user_s})
        res['lims'] = []
        return res
    nops = 10 if quick else 24
    # both sides first write across two record boundaries (2L+1 bytes), then the random schedule
    for me in 'cs':
        L = min(limit[me] - (1 if t13 else 0), user_c if me == 'c' else user_s)
        n = 2 * L + 1 if (L <= 1000 or not quick) else L + 1
        if n <= (1500 if small else 33000):
            do_write(me, rand_bytes(rng, n))
    for _ in range(nops):
        if res['viol']:
            break
        me = rng.choice('cs')
        peer = 's' if me == 'c' else 'c'
        if rng.random() < 0.55:
            L = min(limit[me] - (1 if t13 else 0), user_c if me == 'c' else user_s)
            cands = [0, 1, 2, 15, 16, 17, L - 1, L, L + 1, 2 * L, 2 * L + 1, 3 * L + 2, rng.randrange(0, 300)]
            n = rng.choice([x for x in cands if 0 <= x <= (1500 if small else (40000 if not quick else 33000))])
            if not do_write(me, rand_bytes(rng, n)):
                break
        else:
            avail = len(written[peer]) - len(got[me])
            if avail <= 0:
                continue
            mn = rng.choice([0, 1, 1, 5, 100, avail])
            mn = min(mn, avail)
            mx = rng.choice([None, 1, 7, 64, 1000, 70000, max(mn, 1)])
            if not do_read(me, mx, mn):
                break
    # drain
    for me in 'cs':
        peer = 's' if me == 'c' else 'c'
        guard = 0
        while len(got[me]) < len(written[peer]) and not res['viol'] and guard < 10000:
            guard += 1
            if not do_read(me, None, 1):
                break
        if not res['viol'] and bytes(got[me]) != bytes(written[peer]):
            res['viol'].append(('fifo', 'bytes read != bytes written', len(got[me])))
    # nothing extra arrives: both ends close cleanly and a further read returns b''
    res['lens'] = wire_lens
    res['mode'] = dict(cname=cname, etm=etm_on, mac_len=mac_len, info=info,
                       send_limit={k: ends[k]._send_record_limit for k in ends},
                       user={'c': user_c, 's': user_s})
    return res


def model_cfg_for(res, me):
    """Toy configuration with the negotiated suite's geometry, to predict record body lengths."""
    (ver, cipher, mac, etm, crsl, srsl, user_c, user_s, seed, quick, pad) = res['args'][:11]
    m = res['mode']
    kind, a, b = m['info']
    if ver >= (3, 4):
        mode, kw = 'tls13', dict(tag=a, t13name='aes128gcm' if b else 'chacha20-poly1305', pad=pad)
    elif kind == 'aead':
        mode, kw = ('aead-aes' if b else 'aead-chacha'), dict(tag=a)
    elif kind == 'cbc':
        mode, kw = ('etm' if m['etm'] else 'cbc'), dict(bs=a, mds=m['mac_len'])
    elif kind == 'stream':
        mode, kw = 'stream', dict(mds=m['mac_len'])
    else:
        mode, kw = 'null', dict(mds=m['mac_len'])
    return U.default_cfg(mode, ver, send_limit=m['send_limit'][me], **kw)


# ==========================================================================================
def jbytes(b):
    return b.hex() if isinstance(b, (bytes, bytearray)) else b


def run(ctx):
    quick = ctx.tier == 'quick'
    res = vlib.proof_stage(ctx, 'Props/C01.v', model_targets=['Model/C01_RecordPipe.vo', 'Model/C02_RecordAccept.vo', 'Toy/C01_ToyCipher.vo'])
    ctx.log('proof stage ok=%s failing=%s' % (res['ok'], res['failing']))
    ctx.cov['trusted_base'] = [
        'Coq 8.16.1 kernel + vm_compute (case evaluation)',
        'cipher / MAC / AEAD objects as oracles under Spec/C01_Contracts.v (cipher_ok, aead_ok, mac_ok); primitives are C09',
        'CBC MAC-and-pad check = Spec.CbcCheck.well_formed (C12)',
        'hand-written model Model/C01_RecordPipe.v, tied by byte-exact correspondence with toy primitives '
        '(harness/c01_toys.py = Toy/C01_ToyCipher.v) and by live connections',
        'in-memory socket pair of harness/loop.py delivers bytes in order (network FIFO)',
    ]
    ctx.assumptions += [
        'record limits: 1 <= send limit <= peer recv limit <= 2^14; MAC length <= 1024, block size <= 256, tag <= 255',
        'TLS 1.3 padding_cb returns k with 0 <= k <= max(0, max_padding) (user code; stated guard)',
        'fewer than 2^64 records per key epoch (sequence number encoding)',
        'content type 1..255; SSLv3-framed records only (SSLv2 framing and early-data skipping not modelled)',
    ]
    found = False
    tie_broken = None
    model_ok = res['model_ok']

    # ---------------- (a) record level ----------------------------------------------------
    cases = record_cases(ctx, quick)
    send_lits, recv_lits, meta = [], [], []
    for c, recs, cls in cases:
        outs, fseq, fcs = U.impl_send(c, recs)
        wires = [U.parse_wire(o) for o in outs if not isinstance(o, int)]
        routs, rseq, rcs = U.impl_recv(c, wires)
        key = (c['mode'], tuple(c['ver']), c['bs'], c['mds'], c['tag'], cls, str(c['pad']))
        ctx.count('record-toy-exact', len(recs), [key + (len(d) // 16,) for _, d in recs],
                  sample=dict(mode=c['mode'], ver=c['ver'], cls=cls, lens=[len(d) for _, d in recs]) if len(meta) % 61 == 0 else None)
        # direct oracle (needs no Coq): what the receiver yields is what the sender was given, in order,
        # unless the record exceeds the receiver's limit (then RecordOverflow and nothing after it)
        consumed = 0
        for i, (ty, d) in enumerate(recs):
            if i >= len(outs) or isinstance(outs[i], int):
                if cls == 'sweep' and c['seq'] + consumed < 2 ** 64:
                    found = True
                    ctx.violation('record-send-failed:%s:%s' % (c['mode'], c['ver']), 'sendRecord raised on a legal record',
                                  {'cfg': {k: jbytes(v) for k, v in c.items()}, 'rec': [ty, d.hex()]})
                break
            if i >= len(routs):
                break
            code, rty, rpl = routs[i]
            if not (c['mode'] == 'tls13' and ty == 20):
                consumed += 1
            too_big = len(d) > c['recv_limit']
            if c['mode'] == 'tls13' and ty != 20 and c['pad'] is not None:
                k = U.pad_fn(c['pad'])(len(d) + 1, ty, c['send_limit'] - len(d) - 2)
                if len(d) + 1 + k > c['recv_limit'] + 1:      # padding callback outside its guard
                    too_big = True
            if code == 0 and (rty != ty or rpl != d or too_big):
                found = True
                ctx.violation('record-roundtrip:%s:%s' % (c['mode'], c['ver']),
                              'recvRecord delivered (%d, %d bytes) for a record sent as (%d, %d bytes)%s'
                              % (rty, len(rpl), ty, len(d), ' above the receive limit' if too_big else ''),
                              {'cfg': {k: jbytes(v) for k, v in c.items()}, 'recs': [[t, x.hex()] for t, x in recs], 'index': i})
            elif code != 0 and not too_big:
                found = True
                ctx.violation('record-rejected:%s:%s' % (c['mode'], c['ver']),
                              'recvRecord rejected (%s) the record its peer sent next' % U.ERRNAME.get(code, code),
                              {'cfg': {k: jbytes(v) for k, v in c.items()}, 'recs': [[t, x.hex()] for t, x in recs], 'index': i})
            if code != 0:
                break
        send_lits.append(U.send_case_lit(c, recs, outs, fseq, fcs))
        recv_lits.append(U.recv_case_lit(c, wires, routs, rseq, rcs))
        meta.append((c, cls))
    ctx.log('record level: %d configurations, direct oracle done' % len(cases))

    l4 = l4_cases(ctx, quick)
    l4_lits = []
    for c, user, data in l4:
        wires, fseq, fcs = l4_send_impl(c, user, data)
        L = min(user, c['send_limit'])
        ctx.count('sendMsg-fragmentation', 1, [(c['mode'], tuple(c['ver']), user, c['send_limit'], (len(data) - L) if abs(len(data) - L) < 3 else len(data) // max(L, 1))])
        # direct oracle: receiver side reassembles exactly the data; each record within the limit
        routs, _, _ = U.impl_recv(dict(c, recv_limit=2 ** 14), [U.parse_wire(w) for w in wires])
        joined = b''.join(pl for code, ty, pl in routs if code == 0)
        over = [len(pl) for code, ty, pl in routs if len(pl) > L]
        if joined != data or any(code != 0 or ty != 23 for code, ty, pl in routs) or over:
            found = True
            ctx.violation('fragmentation:%s:%s' % (c['mode'], c['ver']),
                          '_sendMsg records do not reassemble to the data or exceed min(recordSize, limit)=%d (%r)' % (L, over[:3]),
                          {'cfg': {k: jbytes(v) for k, v in c.items()}, 'user': user, 'data': data.hex()})
        l4_lits.append('(%s, %s, %s, %s, %s, [%s], %s, %s)' % (
            U.cfg_lit(c), U.prim_lit(c), U.st_lit(c), zlit(user), blit(data), ';'.join(blit(w) for w in wires), zlit(fseq), U.zlist(fcs)))

    rcases = read_cases(ctx, 60 if quick else 400)
    read_lits = []
    for chunks, calls in rcases:
        outs = read_impl(chunks, calls)
        ctx.count('readAsync-buffer', len(calls), [(mx, mn, len(o)) for (mx, mn), o in zip(calls, outs)])
        has_close = None in chunks
        data = b''.join(x for x in (chunks[:chunks.index(None)] if has_close else chunks))
        # a read(None, 1) that returns b'' means: closed and nothing buffered -- then everything must have come out
        lost = has_close and len(outs) == len(calls) and calls[-1] == (None, 1) and outs[-1] == b'' and b''.join(outs) != data
        if lost:
            found = True
            ctx.violation('readAsync-lost-at-close', 'the peer wrote %d bytes and closed; readAsync calls %r returned only %d bytes'
                          % (len(data), calls, len(b''.join(outs))), {'chunks': [x.hex() if x is not None else None for x in chunks], 'calls': calls})
        if b''.join(outs) != data[:sum(len(o) for o in outs)] or any(mx is not None and len(o) > mx for (mx, mn), o in zip(calls, outs)):
            found = True
            ctx.violation('readAsync-fifo', 'readAsync returned bytes out of order or more than max',
                          {'chunks': [x.hex() if x is not None else None for x in chunks], 'calls': calls})
        arr = [x for x in chunks if x or x is None]
        read_lits.append('([%s], [%s], [%s])' % (
            ';'.join('(%s, %s)' % ('None' if mx is None else '(Some %d)' % mx, zlit(mn)) for mx, mn in calls),
            ';'.join('AClose' if a is None else 'AData %s' % blit(a) for a in arr), ';'.join(blit(o) for o in outs)))

    # ---------------- (b) connection level --------------------------------------------------
    pool = multiprocessing.Pool(vlib.NPROC)
    try:
        combos = [x for x in pool.map(enumerate_combo, [(v, ci, m) for v in ALL_VERSIONS for ci in ALL_CIPHERS for m in ALL_MACS]) if x]
        ctx.log('negotiable (version, cipher, mac): %d' % len(combos))
        ctx.cov['negotiable'] = ['%d.%d/%s/%s' % (v[0], v[1], ci, m) for v, ci, m, _ in combos]
        jobs = []
        rsls = [64, 100, 2 ** 14, 2 ** 14 + 1]
        users = [1, 37, 64, 100, 2 ** 14]
        for (ver, ci, m, etm_possible) in combos:
            etms = [True, False] if etm_possible else [False]
            for etm in etms:
                if quick:
                    picks = [(ctx.rng.choice(rsls), ctx.rng.choice(rsls), ctx.rng.choice(users), ctx.rng.choice(users)),
                             (2 ** 14 + 1, 2 ** 14 + 1, 2 ** 14, 2 ** 14),
                             (ctx.rng.choice([64, 100]), ctx.rng.choice([64, 100]), 2 ** 14, 2 ** 14)]
                else:
                    # the full 4x4 grid of limits for two representative ciphers, the diagonal + 2 random pairs for the rest
                    grid = [(a, b) for a in rsls for b in rsls]
                    if ci not in ('aes128', 'aes128gcm'):
                        grid = [(a, a) for a in rsls] + [ctx.rng.choice(grid), ctx.rng.choice(grid)]
                    picks = [(a, b, ctx.rng.choice(users), ctx.rng.choice(users)) for a, b in grid]
                    picks += [(2 ** 14 + 1, 2 ** 14 + 1, u, u) for u in users]
                    picks += [(None, 2 ** 14 + 1, 2 ** 14, 2 ** 14), (100, None, 2 ** 14, 100)]
                for (a, b, uc, us) in picks:
                    pad = None
                    if ver >= (3, 4):
                        pad = ctx.rng.choice([None, None, ('max', 5), ('blk', 64), ('max', 100000)])   # all within the stated guard
                    jobs.append((ver, ci, m, etm, a, b, uc, us, ctx.rng.randrange(1 << 30), quick, pad))
                # resumed connections (session ID / ticket / TLS 1.3 PSK) with non-default limits on either side
                if etm == etms[0] and (not quick or ci in ('aes128', 'aes128gcm')):
                    for mode in ('id', 'ticket'):
                        if mode == 'id' and ver >= (3, 4):
                            continue
                        for (a, b) in ((2 ** 14 + 1, 64), (100, 2 ** 14 + 1)) if quick else \
                                ((2 ** 14 + 1, 64), (100, 2 ** 14 + 1), (64, 100), (2 ** 14, 2 ** 14 + 1), (None, 64)):
                            jobs.append((ver, ci, m, etm, a, b, 2 ** 14, 2 ** 14, ctx.rng.randrange(1 << 30), quick, None,
                                         (('resume', mode),)))
                # recordSize assigned BEFORE the handshake (full and resumed) must still be the limit in force afterwards
                if etm == etms[0] and (not quick or ci in ('aes128', 'aes128gcm', 'rc4')):
                    for (uc, us, rmode) in ((256, 37, None), (64, 2 ** 14, 'id' if ver < (3, 4) else 'ticket')) if quick else \
                            ((256, 37, None), (64, 2 ** 14, 'id' if ver < (3, 4) else 'ticket'), (100, 100, 'ticket'), (2 ** 14, 64, None)):
                        o = (('presize', True),) + ((('resume', rmode),) if rmode else ())
                        jobs.append((ver, ci, m, etm, 2 ** 14 + 1, 2 ** 14 + 1, uc, us, ctx.rng.randrange(1 << 30), quick, None, o))
                # the peer closes while the reader waits for `min` bytes
                if etm == etms[0] and (not quick or ci in ('aes128', 'aes128gcm')):
                    for how in ('notify', 'abrupt'):
                        for (n, frame) in ((100, 30), (5, 64)) if quick else ((100, 30), (5, 64), (1, 2), (300, 300), (301, 300), (40000, 16000)):
                            jobs.append((ver, ci, m, etm, 2 ** 14 + 1, 2 ** 14 + 1, 2 ** 14, 2 ** 14, ctx.rng.randrange(1 << 30), quick, None,
                                         (('close', (n, frame, how, ctx.rng.choice('cs'))),)))
        results = pool.map(conn_case, jobs, chunksize=1)
        # TLS 1.3 KeyUpdate histories: requested / unsolicited, both roles, sequential and crossing, data after each
        ku_jobs = [(ci, ctx.rng.randrange(1 << 30), 6 if quick else 10)
                   for ci in ('aes128gcm', 'chacha20-poly1305', 'aes256gcm', 'aes128ccm') for _ in range(4 if quick else 20)]
        ku_results = pool.map(c02_live2.ku_history_case, ku_jobs)
    finally:
        pool.close()
        pool.join()
    len_lits, lim_lits = [], []
    nskip = 0
    for r in results:
        (ver, ci, m, etm, a, b, uc, us, seed, _, pad) = r['args'][:11]
        ropt = dict(r['args'][11]) if len(r['args']) > 11 and r['args'][11] else {}
        if r.get('skip'):
            nskip += 1
            continue
        st = r['stats']
        ctx.count('live-connection', st['writes'] + st['reads'],
                  [(ver, ci, m, r['mode']['etm'], a, b, uc, us, str(pad), str(sorted(ropt.items())))],
                  sample=dict(ver=ver, cipher=ci, mac=m, etm=etm, rsl=[a, b], recordSize=[uc, us], stats=st) if len(len_lits) % 37 == 0 else None)
        ctx.count('live-records', st['records'])
        for v in r['viol']:
            found = True
            ctx.violation('live:%s%s:%d.%d:%s:%s:etm=%s' % (v[0], ':resumed' if 'resume' in ropt else '', ver[0], ver[1], ci, m, r['mode']['etm'] if 'mode' in r else etm),
                          'live connection: %s' % (v,), {'args': list(r['args']), 'violation': list(v),
                                                         'how': 'harness/props/C01.py conn_case(args)'})
        for me in 'cs':
            if r['lens'][me]:
                c = model_cfg_for(r, me)
                len_lits.append('(%s, %s, %s, %s, [%s])' % (
                    U.cfg_lit(c), U.prim_lit(c), U.st_lit(c), zlit(r['mode']['user'][me]),
                    ';'.join('(%d, %s)' % (n, U.zlist(ls)) for n, ls in r['lens'][me])))
        for (t13, client, ext, negotiated, own, isend, irecv) in r['lims']:
            if negotiated and ext and own:
                # value actually carried by the peer's extension
                carried = min(ext, 2 ** 14 + 1 if t13 else 2 ** 14) if client else ext
                lim_lits.append('(%s, %s, %d, %d, %d, %d)' % (vlib.boollit(t13), vlib.boollit(client), carried, own, isend, irecv))
    ctx.log('live connections: %d run, %d skipped' % (len(results) - nskip, nskip))
    ku_lits = []
    for r in ku_results:
        if r.get('skip'):
            continue
        ctx.count('keyupdate-history', len(r['ops']), [tuple(r['ops'][:3])])
        for suffix, text in r['viol']:
            found = True
            ctx.violation('live:%s:keyupdate-history' % suffix, 'TLS 1.3 %s: %s' % (r['args'][0], text),
                          {'ku_history_args': list(r['args']), 'ops': [list(o) for o in r['ops']],
                           'how': 'harness/c02_live2.py ku_history_case(args)'})
        if r['gens'] is not None:
            g = r['gens']
            if min(g) < 0:
                found = True
                ctx.violation('live:keyupdate-stored-secret:keyupdate-history', 'a stored traffic secret is not on the HKDF chain of its direction',
                              {'ku_history_args': list(r['args']), 'gens': g})
            else:
                ku_lits.append('([%s], (%d, %d, %d, %d)%%nat)' % (';'.join(c02_live2.ku_model_ops(r['ops'])), g[0], g[1], g[2], g[3]))
    # every assignment to the record-size-limit state in /repo against the table limit_in_force was written for
    lim_diffs, _ = c01_sites.diff_sites(vlib.REPO)
    ctx.count('limit-sites', len(c01_sites.EXPECTED_LIMIT_SITES), [('sites', len(lim_diffs))])
    if lim_diffs:
        tie_broken = 'record_size_limit assignment sites differ from the modelled table: ' + '; '.join(lim_diffs[:4])

    # ---------------- model vs implementation (vm_compute) ---------------------------------
    if model_ok:
        def shard(n):
            return max(8, (n + 7) // 8)
        kinds = (('C01s', 'SendCase', 'chk_send', send_lits), ('C01r', 'RecvCase', 'chk_recv', recv_lits),
                 ('C01f', 'L4Case', 'chk_l4', l4_lits), ('C01b', 'ReadCase', 'chk_read', read_lits),
                 ('C01n', 'LenCase', 'chk_len', len_lits), ('C01m', 'LimCase', 'chk_lim', sorted(set(lim_lits))),
                 ('C01k', 'KuCase', 'chk_ku', ku_lits))
        from multiprocessing.pool import ThreadPool
        with ThreadPool(3) as tp:          # the evaluations are independent coqc runs: overlap them
            evals = tp.map(lambda k: vlib.coq_bad_indices(k[0], U.IMPORTS, k[1], k[2], k[3], shard=shard(len(k[3])),
                                                          preamble=L4_PREAMBLE), kinds)
        for (name, ctype, fn, lits), (bad, errs) in zip(kinds, evals):
            ctx.count('model-vs-impl:' + fn, len(lits), [(fn, len(lits) - len(bad))])
            for e in errs:
                tie_broken = 'case evaluation failed (%s): %s' % (fn, e[:300])
            for i in bad[:5]:
                ctx.log('%s: model/implementation disagreement on case %d' % (fn, i))
                desc = ''
                if fn in ('chk_send', 'chk_recv'):
                    c, cls = meta[i]
                    desc = '%s %s bs=%d mds=%d tag=%d pad=%s class=%s' % (c['mode'], c['ver'], c['bs'], c['mds'], c['tag'], c['pad'], cls)
                elif fn == 'chk_l4':
                    c, user, data = l4[i]
                    desc = '%s %s recordSize=%d limit=%d len=%d' % (c['mode'], c['ver'], user, c['send_limit'], len(data))
                else:
                    desc = lits[i][:300]
                tie_broken = 'model (%s) disagrees with the implementation on: %s' % (fn, desc)
    else:
        tie_broken = 'model does not compile: %s' % res['failing']
    ctx.cov['rule'] = ('record level: every (version x mode x block size x MAC length / tag / padding callback) with payloads 0..3 blocks, '
                       'around the receive limit and around 2^14; distinct = (mode, version, bs, mac, tag, class, pad, length/16). '
                       'live: every negotiable (version, cipher, mac) x EtM x record_size_limit pair x recordSize pair; distinct = that tuple')
    if tie_broken and not found:
        ctx.violation('tie-broken', tie_broken, {'correspondence': 'Model/C01_RecordPipe.v vs tlslite/recordlayer.py, tlsrecordlayer.py',
                                                 'detail': tie_broken}, found_input=False)
        found = True
    vlib.broken_proof_verdict(ctx, res, found)


def replay(ctx, path):
    import json
    with open(path) as f:
        r = json.load(f)
    if 'args' in r:
        a = r['args']
        a[0] = tuple(a[0])
        if a[10] is not None:
            a[10] = tuple(a[10])
        if len(a) > 11 and a[11]:
            a[11] = tuple((k, tuple(v) if isinstance(v, list) else v) for k, v in a[11])
        out = conn_case(tuple(a))
        print('violations:', out['viol'], 'stats:', out['stats'])
        return 1 if out['viol'] else 0
    if 'ku_history_args' in r:
        out = c02_live2.ku_history_case(tuple(r['ku_history_args']))
        print(out)
        return 1 if out['viol'] else 0
    if 'cfg' in r and 'recs' in r:
        c = r['cfg']
        for k in ('enc_key', 'mac_key', 'iv', 'fixed_nonce', 'fixed_iv'):
            c[k] = bytes.fromhex(c[k])
        c['ver'] = tuple(c['ver'])
        if c['pad'] is not None:
            c['pad'] = tuple(c['pad'])
        recs = [(t, bytes.fromhex(x)) for t, x in r['recs']]
        outs, _, _ = U.impl_send(c, recs)
        routs, _, _ = U.impl_recv(c, [U.parse_wire(o) for o in outs if not isinstance(o, int)])
        ok = [(t, p) for _, t, p in routs] == recs
        print('sent', len(recs), 'received', [(code, t, len(p)) for code, t, p in routs], 'roundtrip ok:', ok)
        return 0 if ok else 1
    print(json.dumps(r, indent=1)[:2000])
    return 1
