"""C16: post-handshake control traffic never disturbs the data stream or key sync.

Tie: hand model coq/Model/C16_PostHs.v + correspondence.  Random operation histories are run
step by step on a live client/server pair (harness/c16_live.py) and, by vm_compute, on the Coq
model; compared per operation: result class, bytes returned, the plaintext records the acting
endpoint put on the wire, the four key generations (position of the session's traffic secrets
in the HKDF "traffic upd" chain, computed independently with hmac/hashlib); at the end tickets,
recorded client chain, outstanding PHA contexts, heartbeat payloads handed to the callbacks,
closed flags.  Theorems in coq/Props/C16.v are about that model for ALL histories.

The direct oracle (property text, independent of the model; runs even when Coq is broken):
FIFO prefix/equality of data per direction, a probe each way after the history, key positions
equal to the number of KeyUpdates owed, heartbeat callbacks = request payloads, chain recorded
only after a valid reply, injected malformed/unsolicited/not-permitted control records answered
by a fatal alert and nothing delivered past them, no undocumented exception, no alert in an
honest history."""
import json
import multiprocessing
import os
import random
import sys
import traceback

import vlib
from vlib import blit, zlit, boollit, listlit

LEVEL = 'proof'
META = {
    'text': 'Coq theorems (Props/C16.v) over ALL operation histories of a two-endpoint model of the post-handshake '
            'record/control layer (KeyUpdate, heartbeat, post-handshake auth, NewSessionTicket, alerts, close): every record '
            'is opened under the generation it was written under, data is a FIFO whatever control traffic is interleaved, a '
            'KeyUpdate request is answered exactly once, heartbeat responses echo the request record, a chain is recorded only '
            'after CertificateVerify and Finished verify and a context authenticates once, bad control records are fatal. '
            'The model is run by vm_compute on the same random histories as a live tlslite-ng pair and compared step by step.',
    'note': 'Trusted: Coq kernel + vm_compute; the hand model (tied by the per-step correspondence: result, bytes, plaintext '
            'records sent, key generations from the real secrets); AEAD opens only under the right generation (ideal) ; fresh '
            '32-byte PHA contexts do not collide; signature/Finished validity is an input bit of the model.',
    'technique': 'Rocq/Coq proof over hand model + vm_compute correspondence against live endpoints',
}

IMPORTS = ['Model.C16_PostHs']
MODEL_TARGETS = ['Model/C16_PostHs.vo']


# ------------------------------------------------------------------------------------------
# history generation + execution + direct oracle (worker side)
class Hist(object):
    def __init__(self, live, rng, klass):
        self.live, self.rng, self.klass = live, rng, klass
        self.ops, self.obs = [], []
        self.viol = []                        # (key, what)
        self.written = {True: bytearray(), False: bytearray()}
        self.got = {True: bytearray(), False: bytearray()}
        self.first_err = {True: None, False: None}     # (op index, code)
        self.closed_by_api = {True: False, False: False}
        self.honest = True
        self.benign_only = True               # no fatal-expected events so far
        self.ku_api = {True: 0, False: 0}
        self.ku_req_api = {True: 0, False: 0}
        self.hb_req = {True: [], False: []}
        self.hb_exact = True
        self.must_fatal = []                  # (side b, class, pos, allowed codes, op index)
        self.valid_replies = 0
        self.acc = 0
        self.chain_obj = live.s.session.clientCertChain
        self.requests = 0
        self.tags = set()
        self.min_rs = min(live.c.recordSize, live.s.recordSize)
        self.hb_need = 0

    # -- one operation
    def do(self, a, op, tag=None):
        L = self.live
        i = len(self.ops)
        if tag:
            self.tags.add(tag)
        rs_before = L.conn(a).recordSize
        if op[0] == 'ORequestAuth' and len(op) == 3:   # (replay files written before a078a25)
            op = ('ORequestAuth', op[2])
        o = L.do(a, op)
        if op[0] == 'OSetRecSize':
            op = ('OSetRecSize', op[1], o['rs_eff'])   # (user value, effective value = min(user, negotiated send limit))
        self.ops.append((a, op))
        self.obs.append(o)
        code = o['code']
        k = op[0]
        if code == 9000:
            self.v('undocumented-exception:%s:%s' % (k, o['desc'].split(':')[1] if ':' in o['desc'] else o['desc']),
                   'operation %s raised an undocumented exception: %s' % (k, o['desc']))
        if o['foreign']:
            self.v('foreign-records', 'the other endpoint sent records during %s' % k)
        if not o['keys_ok']:
            self.v('record-keys-not-from-secret', 'record layer nonce is not the one derived from the session secret after %s' % k)
        if -1 in o['gens']:
            self.v('secret-off-chain', 'a traffic secret is not HKDF^n(traffic upd) of the initial secret after %s' % k)
        if code >= 100 and code not in (2000, 3000) and self.first_err[a] is None:
            self.first_err[a] = (i, code)
        if k == 'OWrite' and code == 0:
            self.written[a] += bytes(op[1])
        if k == 'ORead':
            self.got[a] += o['data']
            if not bytes(self.written[not a]).startswith(bytes(self.got[a])):
                self.v('fifo-broken', 'bytes returned by read() are not a prefix of what the peer wrote')
        if k == 'OKeyUpdate' and code == 0:
            self.ku_api[a] += 1
            self.ku_req_api[a] += 1 if op[1] else 0
        if k == 'OClose':
            self.closed_by_api[a] = True
        if k == 'OSetDev' and op[1]:
            self.honest = False
            self.tags.add('pha-dev%d' % op[1])
        if k == 'OReplayPha' and code == 0:
            self.honest = False
            self.tags.add('pha-replay')
            self.must_fatal.append((False, 'pha-replay', len(self.written[True]), (10, 47), i))
            self.benign_only = False
        if k == 'OInject':
            self.honest = False
            m, cls, allowed = op[1], op[2], op[3]
            self.tags.add('inject:' + cls)
            if allowed is not None:
                self.must_fatal.append((not a, cls, len(self.written[a]), tuple(allowed), i))
                self.benign_only = False
            if m[0] == 'MHB':
                self.hb_exact = False
        if k == 'ORequestAuth' and code == 0:
            self.requests += 1
            if not op[1]:
                self.tags.add('pha-empty-compress-list')
        if k == 'OSetRecSize':
            self.min_rs = min(self.min_rs, o['rs_eff'])
        # RFC 6520 section 4: a HeartbeatMessage is never split over records (the peer parses every
        # heartbeat record as a whole message): what write_heartbeat sends is ONE record holding the whole
        # request, what a read sends are whole responses with 16 bytes of padding
        if k == 'OHeartbeat' and code == 0:
            want = 3 + len(op[1]) + op[2]
            if [len(b) for b in o['raw_hb']] != [want] or o['raw_hb'][0][:3] != bytes([1, len(op[1]) >> 8, len(op[1]) & 255]):
                self.v('heartbeat-fragmented:request', 'write_heartbeat(%d-byte payload, padding %d) with recordSize %d put '
                       'records of %s bytes on the wire instead of one whole message' % (
                           len(op[1]), op[2], rs_before, [len(b) for b in o['raw_hb']]))
        if k == 'ORead':
            for b in o['raw_hb']:
                if len(b) < 3 or b[0] != 2 or 3 + ((b[1] << 8) | b[2]) + 16 != len(b):
                    self.v('heartbeat-fragmented:response', 'a read answered a heartbeat request with records of %s bytes '
                           '(recordSize %d): not whole heartbeat_response messages' % ([len(x) for x in o['raw_hb']], rs_before))
                    break
        if k == 'OHeartbeat' and code == 0:
            fits = 3 + len(op[1]) + op[2] <= rs_before
            self.hb_need = max(self.hb_need, 3 + len(op[1]) + max(16, op[2]))
            if fits and op[2] >= 16 and self.negotiated_hb():
                self.hb_req[a].append(list(op[1]))
            elif not fits:
                self.hb_exact = False
                self.tags.add('hb-oversize')
        # PHA bookkeeping: replies sent by the client in this step
        if a and k == 'ORead' and any(r[0] == 11 for r in o['recs']):   # (OReplayPha is not a new reply)
            cv = [r for r in o['recs'] if r[0] == 15]
            fin = [r for r in o['recs'] if r[0] == 20]
            ok = bool((not cv or cv[0][1] == [1]) and fin and fin[0][1] == [1] and L.dev in (0, 4, 6))
            if ok:
                self.valid_replies += 1
            else:
                self.must_fatal.append((False, 'pha-dev%d' % L.dev, len(self.written[True]),
                                        (10,) if L.dev == 7 else (47, 51, 116), i))
                self.benign_only = False
            if L.dev == 6 and L.s.client_cert_required:
                self.must_fatal.append((False, 'pha-empty-chain-required', len(self.written[True]), (116,), i))
                self.valid_replies -= 1 if ok else 0
                self.benign_only = False
        cur = L.s.session.clientCertChain
        if cur is not self.chain_obj:
            self.chain_obj = cur
            self.acc += 1
            if not (k == 'ORead' and not a):
                self.v('chain-recorded-outside-read', 'clientCertChain changed during %s by %s' % (k, 'client' if a else 'server'))
            if self.acc > self.valid_replies:
                self.v('chain-recorded-without-valid-proof',
                       'server recorded a client chain %d times but only %d valid (signature+Finished, fresh context) replies were sent'
                       % (self.acc, self.valid_replies))
        return o

    def v(self, key, what):
        if key not in [x[0] for x in self.viol]:
            self.viol.append((key, what))

    def negotiated_hb(self):
        c = self.live.cfg
        return bool(c['c_hb'] and c['s_hb'])

    def open_(self, a):
        return not self.live.conn(a).closed

    # -- deviations
    def inject(self, a, m, cls, allowed):
        if not self.open_(a):
            return
        if m[0] in ('MKUx', 'MFinx', 'MHB', 'MKU', 'MUnexp', 'MCV', 'MFin', 'MNST') and not self.live.inject_fits(a, m):
            return                       # (would be fragmented by the injecting side: not the class meant)
        self.do(a, ('OInject', m, cls, None if allowed is None else list(allowed)))

    # -- drain: read on both sides until nothing moves
    def drain(self):
        for _ in range(60):
            moved = False
            for a in (True, False):
                for _ in range(200):
                    o = self.do(a, ('ORead', 0))
                    if o['code'] == 0 and (o['data'] or o['recs'] or self.open_(a)):
                        moved = True
                        if not self.open_(a) and not o['data']:
                            break
                        continue
                    if o['recs']:
                        moved = True
                    break
            if not moved:
                break

    def finish(self):
        L = self.live
        self.drain()
        both_open = self.open_(True) and self.open_(False)
        if both_open:
            for a in (True, False):
                probe = bytes([0x50 + a]) * 5
                self.do(a, ('OWrite', probe), tag='probe')
            self.drain()
        fin = L.final()
        expect_alive = self.benign_only and not any(self.closed_by_api.values())
        errs = [e for e in self.first_err.values() if e]
        if expect_alive:
            if errs or not both_open:
                why = 'pha-empty-compress-list' if 'pha-empty-compress-list' in self.tags else \
                    ('hb-oversize' if 'hb-oversize' in self.tags else 'honest')
                self.v('connection-killed:%s' % (why if why != 'honest' else 'honest:' + ','.join(str(e[1]) for e in sorted(errs))),
                       'a history of permitted operations ended with alerts %s (ops %s)' % (
                           [e[1] for e in errs], [self.ops[e[0]][1][0] for e in errs]))
            else:
                for a in (True, False):
                    if bytes(self.got[a]) != bytes(self.written[not a]):
                        self.v('data-lost', 'after draining, %s received %d of %d bytes' % (
                            'client' if a else 'server', len(self.got[a]), len(self.written[not a])))
                g = self.obs[-1]['gens']
                if L.v13:
                    want_cw = self.ku_api[True] + self.ku_req_api[False]
                    want_sw = self.ku_api[False] + self.ku_req_api[True]
                    if g != [want_cw, want_sw, want_sw, want_cw]:
                        self.v('key-generations', 'after draining the key generations are %s; owed: client write/server read %d, '
                               'server write/client read %d' % (g, want_cw, want_sw))
                    cs, ss = L.c.session, L.s.session
                    if bytes(cs.cl_app_secret) != bytes(ss.cl_app_secret) or bytes(cs.sr_app_secret) != bytes(ss.sr_app_secret):
                        self.v('secrets-differ', 'after draining the two ends hold different traffic secrets')
                if self.hb_need > self.min_rs:
                    self.tags.add('hb-fragmented')
                if self.hb_exact and self.hb_need <= self.min_rs:
                    for a, key in ((True, 'hb_c'), (False, 'hb_s')):
                        has_cb = L.conn(a).heartbeat_response_callback is not None
                        if has_cb and fin[key] != self.hb_req[a]:
                            self.v('heartbeat-echo', 'heartbeat callbacks of %s got %r, requests were %r' % (
                                'client' if a else 'server', fin[key][:4], self.hb_req[a][:4]))
        # heartbeat payloads must always be payloads that were requested
        for a, key in ((True, 'hb_c'), (False, 'hb_s')):
            if not any(t.startswith('inject:hb') for t in self.tags):
                sent = [bytes(op[1]) for (x, op) in self.ops if x == a and op[0] == 'OHeartbeat']
                for pl in fin[key]:
                    if bytes(pl) not in sent:
                        self.v('heartbeat-echo-foreign-payload',
                               'a heartbeat response delivered to the %s callback carries a payload that was never requested '
                               '(a heartbeat message was split over several records, by write_heartbeat or by the responder, and the peer '
                               'answered / accepted a fragment)' % ('client' if a else 'server'))
        # injected bad control records: fatal alert, nothing delivered past them
        for (b, cls, pos, allowed, idx) in self.must_fatal:
            fe = self.first_err[b]
            if fe is not None and fe[0] < idx:
                continue                      # already dead before the injection
            if self.closed_by_api[b] or (self.first_err[not b] is not None and self.first_err[not b][0] < idx):
                continue
            peer_err = self.first_err[not b]
            if fe is None:
                if self.open_(b):
                    self.v('bad-control-not-fatal:' + cls, '%s processed a %s record without a fatal alert' % (
                        'client' if b else 'server', cls))
                continue
            if fe[1] >= 1000:                  # a remote alert reached b first (the sender died for another reason)
                continue
            if fe[1] - 100 not in allowed and not any(x[4] < idx for x in self.must_fatal if x[0] == b and x is not None and x[4] != idx):
                self.v('bad-control-wrong-alert:%s:%d' % (cls, fe[1] - 100), '%s answered %s with alert %d, expected one of %s' % (
                    'client' if b else 'server', cls, fe[1] - 100, list(allowed)))
            if len(self.got[b]) > pos and not any(x[4] < idx for x in self.must_fatal if x[0] == b):
                self.v('data-after-bad-control:' + cls, 'data written after the bad record was delivered')
        if fin['chain'] not in (0, 7):
            self.v('foreign-chain', 'server recorded a chain that is not the client\'s')
        if fin['chain'] == 7 and self.valid_replies == 0:
            self.v('chain-recorded-without-valid-proof', 'server holds a client chain but no valid reply was ever sent')
        if fin['srv_tickets']:
            self.v('bad-control-not-fatal:nst-to-server', 'server stored %d NewSessionTicket(s) sent by the client' % fin['srv_tickets'])
        return fin


def rdata(rng, rs):
    n = rng.choice([0, 1, 2, 5, 17, rs - 1, rs, rs + 1, 2 * rs + 3, rng.randrange(0, 80), rng.randrange(0, 40)])
    n = max(0, min(n, 210))
    return bytes(rng.randrange(256) for _ in range(n))


def gen_cfg(rng, klass, seed):
    ver = (3, 4)
    if klass == 'old':
        ver = rng.choice([(3, 3), (3, 3), (3, 2)])        # (TLS 1.0 CBC splits records 1/n-1: not modelled)
    hb = rng.random()
    c_hb, s_hb = True, True
    if hb < 0.12:
        c_hb, s_hb = rng.choice([(False, False), (True, False), (False, True)])
    cipher = rng.choice(['aes128gcm', 'aes256gcm', 'chacha20-poly1305']) if ver == (3, 4) else 'aes128'
    nst = rng.choice([-1, 0, 1, 2, 3]) if ver == (3, 4) else rng.choice([-1, 1])
    c_rsl = rng.choice([None] * 5 + [64, 100, 300, 1000])
    if ver != (3, 4) and nst >= 0 and c_rsl is not None:
        # (outside C16, reported: TLS <= 1.2 + tickets + a client record_size_limit below the size of the
        # unprotected NewSessionTicket message makes the client abort the handshake with record_overflow)
        c_rsl = 1000
    return dict(seed=seed, ver=list(ver), c_hb=c_hb, s_hb=s_hb, c_cb=rng.random() < 0.85, s_cb=rng.random() < 0.85,
                c_cert=rng.random() < (0.85 if ver == (3, 4) else 0.3), cert_required=rng.random() < 0.3,
                nst=nst,
                cipher=cipher, ccred=rng.choice(['client-rsa', 'client-ecdsa', 'client-ed25519']),
                recsize=rng.choice([16384, 16384, 16384, 64, 100, 257, 1024]),
                # RFC 8449 record_size_limit: asymmetric send limits of the two directions
                c_rsl=c_rsl, s_rsl=rng.choice([None] * 5 + [64, 100, 300, 1000]))


def random_ops(H, n):
    rng, L = H.rng, H.live
    for _ in range(n):
        a = rng.random() < 0.5
        conn = L.conn(a)
        r = rng.random()
        if r < 0.26:
            H.do(a, ('OWrite', rdata(rng, min(conn.recordSize, 100))))
        elif r < 0.58:
            H.do(a, ('ORead', rng.choice([0, 0, 0, 0, 1, 7, 50])))
        elif r < 0.72:
            H.do(a, ('OKeyUpdate', rng.random() < 0.5))
        elif r < 0.80:
            pl, pad = hb_payload(H, a)
            H.do(a, ('OHeartbeat', pl, pad))
        elif r < 0.86:
            H.do(False, ('ORequestAuth', True))
        elif r < 0.89:
            if L.v13 and L.cfg['nst'] >= 0 and H.open_(False):
                H.do(False, ('OTickets', rng.choice([0, 1, 2, 3])))
        elif r < 0.93:
            H.do(a, ('OSetRecSize', rng.choice([64, 100, 257, 1024, 16384])))
        elif r < 0.94:
            H.do(a, ('ORequestAuth', True))                 # also from the client: must be refused locally
        else:
            H.do(a, ('ORead', 0))


def hb_payload(H, a, craft=None):
    """heartbeat request sizes around BOTH limits: the requester's send limit (largest request that fits /
    first that is refused) and the responder's (largest request still answered / first whose answer would
    have to be fragmented).  Optionally the payload is shaped so that, IF the answer were fragmented at
    the responder's limit, its second record would parse as a heartbeat message of its own."""
    rng, L = H.rng, H.live
    rs_me, rs_peer = L.conn(a).recordSize, L.conn(not a).recordSize
    pad = rng.choice([16, 16, 16, 17, 20, 0])
    cands = [rng.randrange(0, 40), rng.randrange(0, 40), rs_me - 3 - pad - 1, rs_me - 3 - pad, rs_me - 3 - pad + 1,
             rs_peer - 19 - 1, rs_peer - 19, rs_peer - 19 + 1, rs_peer - 19 + rng.randrange(2, 30), rs_peer + 5]
    cands = [c for c in cands if 0 <= c <= 1100]
    n = rng.choice(cands)
    pl = bytearray(rng.randrange(256) for _ in range(n))
    if craft is None:
        craft = rng.random() < 0.5
    off = rs_peer - 3                    # where the 2nd record of a fragmented answer would start (in the payload)
    if craft and 0 <= off and off + 3 <= n:
        k = min(n - off - 3, rng.choice([1, 4, 9]))
        pl[off:off + 3] = bytes([rng.choice([2, 2, 1]), 0, k])
    return bytes(pl), pad


MACROS = ['simul', 'burst', 'ku-frag', 'pha', 'pha2', 'hb', 'tickets', 'none', 'ku-pingpong', 'ku-split', 'hb-asym', 'hb-asym']


def macro(H, name):
    rng, L = H.rng, H.live
    if name == 'simul':                 # both sides request an update before reading anything
        H.do(True, ('OKeyUpdate', True), tag='simultaneous-update')
        H.do(False, ('OKeyUpdate', True))
        H.do(True, ('OWrite', rdata(rng, 64)))
        H.do(False, ('OWrite', rdata(rng, 64)))
    elif name == 'burst':
        a = rng.random() < 0.5
        for _ in range(rng.randrange(2, 8)):
            H.do(a, ('OKeyUpdate', rng.random() < 0.6), tag='burst')
        H.do(a, ('OWrite', rdata(rng, 64)))
    elif name == 'ku-frag':             # KeyUpdate between the fragments of large writes, reader uses small max
        a = rng.random() < 0.5
        H.do(a, ('OSetRecSize', rng.choice([64, 100])), tag='ku-between-fragments')
        H.do(a, ('OWrite', bytes(rng.randrange(256) for _ in range(rng.randrange(130, 260)))))
        H.do(a, ('OKeyUpdate', rng.random() < 0.5))
        H.do(a, ('OWrite', bytes(rng.randrange(256) for _ in range(rng.randrange(130, 260)))))
        for _ in range(rng.randrange(2, 6)):
            H.do(not a, ('ORead', rng.choice([0, 10, 33])))
            if rng.random() < 0.3:
                H.do(not a, ('OKeyUpdate', True))
    elif name in ('pha', 'pha2'):
        H.do(False, ('ORequestAuth', True), tag='pha')
        if name == 'pha2':
            if rng.random() < 0.5:
                H.do(True, ('OKeyUpdate', rng.random() < 0.5))
            H.do(False, ('ORequestAuth', True), tag='pha-two-outstanding')
        if rng.random() < 0.4:
            H.do(rng.random() < 0.5, ('OKeyUpdate', True))
        H.do(True, ('ORead', 0))
        if name == 'pha2':
            H.do(True, ('ORead', 0))
        if rng.random() < 0.7:
            H.do(False, ('ORead', 0))
    elif name == 'hb':
        for a in (True, False):
            H.do(a, ('OHeartbeat', rdata(rng, 30)[:30], 16), tag='hb')
    elif name == 'tickets':
        if L.v13 and L.cfg['nst'] >= 0 and H.open_(False):
            H.do(False, ('OTickets', rng.choice([1, 2, 4])), tag='tickets')
    elif name == 'ku-split':            # a (legal) KeyUpdate spread over two records, keys changed after it
        if L.v13:
            a = rng.random() < 0.5
            if H.open_(a):
                H.do(a, ('OKeyUpdate', rng.random() < 0.5, rng.choice([1, 2, 3, 4])), tag='ku-split')
                H.do(a, ('OWrite', rdata(rng, 40)))
                H.do(not a, ('ORead', 0))
    elif name == 'hb-asym':             # asymmetric record sizes, requests around both limits, both directions
        a = rng.random() < 0.5
        if H.negotiated_hb() and H.open_(a) and H.open_(not a):
            H.do(not a, ('OSetRecSize', rng.choice([64, 80, 100, 130])), tag='hb-asymmetric-limits')
            H.do(a, ('OSetRecSize', rng.choice([257, 1024, 16384])))
            for _ in range(rng.randrange(1, 4)):
                pl, pad = hb_payload(H, a, craft=rng.random() < 0.7)
                H.do(a, ('OHeartbeat', pl, pad))
                H.do(not a, ('ORead', 0))
                H.do(a, ('ORead', 0))
            if rng.random() < 0.5:
                pl, pad = hb_payload(H, not a)
                H.do(not a, ('OHeartbeat', pl, pad))
    elif name == 'ku-pingpong':
        for _ in range(rng.randrange(2, 5)):
            a = rng.random() < 0.5
            H.do(a, ('OKeyUpdate', True), tag='pingpong')
            H.do(not a, ('ORead', 0))


# every deviation class once (the quick tier runs each of them under every record-size profile)
DEV13 = ['ku-bad-value', 'ku-bad-len', 'unexp-hs', 'nst-to-server', 'certreq-no-pha', 'certreq-from-client',
         'cert-unsolicited', 'cert-unknown-ctx', 'cert-to-client', 'cv-stray', 'fin-stray', 'hb-not-negotiated',
         'hb-empty', 'hb-short-pad', 'hb-unsolicited-resp', 'hb-garbage', 'hb-unknown-type', 'hb-oversize',
         'hb-oversize-crafted', 'pha-dev', 'pha-empty-compress', 'pha-replay', 'ku-coalesced', 'finx-stray', 'pha-dev7']
DEV12 = ['unexp-hs', 'hb-not-negotiated', 'hb-empty', 'hb-short-pad', 'hb-unsolicited-resp', 'hb-garbage',
         'hb-unknown-type', 'hb-oversize', 'hb-oversize-crafted', 'nst-v12']
PROFILES = {'default': dict(recsize=16384, c_rsl=None, s_rsl=None),
            'small': dict(recsize=64, c_rsl=64, s_rsl=64),
            'asym-c': dict(recsize=16384, c_rsl=100, s_rsl=None),
            'asym-s': dict(recsize=257, c_rsl=None, s_rsl=64)}


def fitting_tail(H, a, mk, kinds):
    """a tail kind for an alignment violation whose record fits the injecting side's record size"""
    kinds = list(kinds)
    H.rng.shuffle(kinds)
    for kind in kinds + ['frag1']:
        if H.live.inject_fits(a, mk(kind)):
            return kind
    return 'frag1'


def deviation(H, force=None):
    """one deviation of the peer (or a setting that the property says must be harmless)"""
    rng, L = H.rng, H.live
    v13 = L.v13
    choices = ['ku-bad-value', 'ku-bad-len', 'unexp-hs', 'nst-to-server', 'certreq-no-pha', 'certreq-from-client',
               'cert-unsolicited', 'cert-unknown-ctx', 'cert-to-client', 'cv-stray', 'fin-stray', 'hb-not-negotiated',
               'hb-empty', 'hb-short-pad', 'hb-unsolicited-resp', 'hb-garbage', 'hb-unknown-type', 'hb-oversize',
               'hb-oversize-crafted', 'pha-dev', 'pha-dev', 'pha-dev', 'pha-dev', 'pha-dev', 'pha-empty-compress',
               'pha-replay', 'pha-replay', 'pha-replay',
               # record-alignment violations of the key-changing messages (RFC 8446 5.1)
               'ku-coalesced', 'ku-coalesced', 'ku-coalesced', 'ku-coalesced', 'finx-stray', 'pha-dev7', 'pha-dev7']
    if not v13:
        choices = ['unexp-hs', 'hb-not-negotiated', 'hb-empty', 'hb-short-pad', 'hb-unsolicited-resp', 'hb-garbage',
                   'hb-unknown-type', 'hb-oversize', 'hb-oversize-crafted', 'nst-v12']
    d = force or rng.choice(choices)
    a = rng.random() < 0.5
    hbneg = H.negotiated_hb()
    if not hbneg and rng.random() < 0.6 and not force:
        d = 'hb-not-negotiated'
    if d == 'ku-coalesced':
        # KeyUpdate (valid or not) followed in its record by a whole message / by the first bytes of one
        v = rng.choice([0, 0, 1, 1, 2])
        kind = fitting_tail(H, a, lambda k_: ('MKUx', v, k_), ['nst', 'ku', 'frag', 'frag1', 'certreq'])
        if rng.random() < 0.4:
            H.do(a, ('OKeyUpdate', rng.random() < 0.5))      # (a correctly aligned one first)
        H.inject(a, ('MKUx', v, kind), d + ':' + kind, (10,))
        if rng.random() < 0.5:
            H.do(a, ('OWrite', rdata(rng, 30)))
    elif d == 'finx-stray':
        H.inject(a, ('MFinx', False, fitting_tail(H, a, lambda k_: ('MFinx', False, k_), ['nst', 'ku', 'frag'])), d, (10,))
    elif d == 'ku-bad-value':
        H.inject(a, ('MKU', rng.choice([2, 3, 255, 128])), d, (47,))
    elif d == 'ku-bad-len':
        H.inject(a, ('MKU', -1), d, (50,))
    elif d == 'unexp-hs':
        H.inject(a, ('MUnexp',), d, (10,))
    elif d == 'nst-to-server':
        H.inject(True, ('MNST',), d, (10,))
    elif d == 'nst-v12':
        H.inject(a, ('MNST',), d, (10,))
    elif d == 'certreq-no-pha':
        if not L.c._client_keypair:
            H.inject(False, ('MCertReq', 5000 + rng.randrange(100), True), d, (10,))
    elif d == 'certreq-from-client':
        H.inject(True, ('MCertReq', 5000 + rng.randrange(100), True), d, (10,))
    elif d == 'cert-unsolicited':
        if not L.s._cert_requests:
            H.inject(True, ('MCert', 6000 + rng.randrange(100), 7), d, (10, 47))   # 47 if a request is issued before it is read
    elif d == 'cert-unknown-ctx':
        if L.s._pha_supported:
            H.do(False, ('ORequestAuth', True))
            H.inject(True, ('MCert', rng.choice([0, 6000 + rng.randrange(100)]), rng.choice([0, 7])), d, (47,))
    elif d == 'cert-to-client':
        H.inject(False, ('MCert', 6000, 7), d, (10,))
    elif d == 'cv-stray':
        H.inject(a, ('MCV', False), d, (10,))
    elif d == 'fin-stray':
        H.inject(a, ('MFin', False), d, (10,))
    elif d == 'hb-not-negotiated':
        if not hbneg:
            pl = list(rdata(rng, 20))[:20]
            H.inject(a, ('MHB', [rng.choice([1, 2]), 0, len(pl)] + pl + [0xA5] * 16), d, (10,))
    elif d == 'hb-empty':
        H.inject(a, ('MHB', []), d, (10,))
    elif d == 'hb-short-pad':
        if hbneg:
            pl = list(rdata(rng, 20))[:20]
            H.inject(a, ('MHB', [1, 0, len(pl)] + pl + [0xA5] * rng.choice([0, 1, 15])), d, None)
    elif d == 'hb-unsolicited-resp':
        if hbneg:
            pl = list(rdata(rng, 20))[:20]
            H.inject(a, ('MHB', [2, 0, len(pl)] + pl + [0xA5] * 16), d, None)
    elif d == 'hb-garbage':
        if hbneg:
            H.inject(a, ('MHB', rng.choice([[1], [1, 0], [1, 0, 50, 1, 2, 3], [2, 255, 255], [1, 0, 0]])), d, None)
    elif d == 'hb-unknown-type':
        if hbneg:
            H.inject(a, ('MHB', [rng.choice([0, 3, 255]), 0, 2, 9, 9] + [0xA5] * 16), d, None)
    elif d == 'hb-oversize':
        rs = rng.choice([64, 100])
        H.do(a, ('OSetRecSize', rs))
        H.do(a, ('OHeartbeat', bytes(rng.randrange(256) for _ in range(rs + rng.randrange(0, 80))), 16), tag='hb-oversize')
    elif d == 'hb-oversize-crafted':
        # the second fragment is itself a well-formed request for another payload
        rs = 64
        H.do(a, ('OSetRecSize', rs))
        inner = [1, 0, 5] + list(b'hello') + [0x33] * 20
        pl = bytes([0x42] * (rs - 3)) + bytes(inner)
        H.do(a, ('OHeartbeat', pl, 0), tag='hb-oversize')
    elif d in ('pha-dev', 'pha-dev7'):
        if L.c._client_keypair:
            H.honest = False
            mode = 7 if d == 'pha-dev7' else rng.choice([1, 2, 3, 4, 5, 6, 7])
            if mode == 4:               # a genuinely replayed context: answer one request honestly first
                H.do(False, ('ORequestAuth', True))
                H.do(True, ('ORead', 0))
                if rng.random() < 0.7:
                    H.do(False, ('ORead', 0))
            H.do(True, ('OSetDev', mode))
            H.do(False, ('ORequestAuth', True))
            if rng.random() < 0.3:
                H.do(rng.random() < 0.5, ('OKeyUpdate', rng.random() < 0.5))
            H.do(True, ('ORead', 0))
            H.do(False, ('ORead', 0))
            if rng.random() < 0.5:
                H.do(True, ('OSetDev', 0))
    elif d == 'pha-replay':
        if L.c._client_keypair and H.open_(True) and H.open_(False):
            if L.captured is None:
                H.do(False, ('ORequestAuth', True))
                H.do(True, ('ORead', 0))
            if rng.random() < 0.75:
                H.do(False, ('ORead', 0))          # usually the server has already accepted the original
            if rng.random() < 0.3:
                H.do(False, ('ORequestAuth', True))  # another request outstanding: Certificate is an allowed type
            if rng.random() < 0.3:
                H.do(True, ('OKeyUpdate', rng.random() < 0.5))
            if L.captured is not None and L.captured[1]:
                H.do(True, ('OReplayPha',))
                H.do(False, ('ORead', 0))
    elif d == 'pha-empty-compress':
        # certificate_compression_receive=[] is accepted by HandshakeSettings.validate()
        H.do(False, ('ORequestAuth', False), tag='pha-empty-compress-list')
        if rng.random() < 0.5:
            H.do(True, ('OWrite', rdata(rng, 50)))
    elif d == 'hb-mode':
        pass


def run_history(args):
    seed, klass, n_ops, fixed = args
    from c16_live import Live
    rng = random.Random(seed)
    live = None
    try:
        force = None
        if fixed is not None and 'force' in fixed:
            # systematic part of the plan: one deviation class under one record-size profile
            cfg = gen_cfg(rng, klass, seed)
            cfg.update(PROFILES[fixed['profile']])
            cfg.update(c_cert=fixed['force'] != 'certreq-no-pha', c_hb=True, s_hb=fixed['force'] != 'hb-not-negotiated')
            if tuple(cfg['ver']) != (3, 4):
                cfg['nst'] = -1
            force, fixed = fixed, None
        elif fixed is not None:
            cfg = fixed['cfg']
        else:
            cfg = gen_cfg(rng, klass, seed)
        live = Live(cfg)
        mc, ms = live.model_cfg(True), live.model_cfg(False)
        H = Hist(live, rng, klass)
        if fixed is not None:
            for (a, op) in fixed['ops']:
                H.do(a, op)
            H.finish()
            fin = live.final()
        elif force is not None:
            H.tags.add('grid:%s:%s' % (force['force'], force['profile']))
            random_ops(H, rng.randrange(0, 7))
            deviation(H, force=force['force'])
            random_ops(H, rng.randrange(0, 5))
            H.finish()
            fin = live.final()
        else:
            for _ in range(rng.randrange(0, 3)):
                macro(H, rng.choice(MACROS))
            random_ops(H, rng.randrange(2, n_ops))
            if klass in ('deviant', 'old') and rng.random() < (1.0 if klass == 'deviant' else 0.5):
                deviation(H)
                random_ops(H, rng.randrange(0, 10))
            elif rng.random() < 0.4:
                macro(H, rng.choice(MACROS))
                random_ops(H, rng.randrange(0, 8))
            if rng.random() < 0.12:
                H.do(rng.random() < 0.5, ('OClose',), tag='close')
                random_ops(H, rng.randrange(0, 6))
            H.finish()
            fin = live.final()
        obs = [dict(code=o['code'], data=o['data'], recs=o['recs'], gens=o['gens'], desc=o['desc']) for o in H.obs]
        return dict(ok=True, seed=seed, klass=klass, cfg=cfg, mc=mc, ms=ms, v13=live.v13, nst=live.nst_inflight,
                    ops=H.ops, obs=obs, fin=fin, viol=H.viol, tags=sorted(H.tags))
    except Exception:  # noqa
        return dict(ok=False, seed=seed, klass=klass, err=traceback.format_exc())
    finally:
        if live is not None:
            live.cleanup()


# ------------------------------------------------------------------------------------------
# Gallina literals
def msg_lit(m):
    k = m[0]
    if k == 'MKU':
        return '(MKU %s)' % zlit(m[1])
    if k == 'MHB':
        return '(MHB %s)' % blit(m[1])
    if k == 'MNST':
        return 'MNST'
    if k == 'MCertReq':
        return '(MCertReq %d %s)' % (m[1], boollit(m[2]))
    if k == 'MCert':
        return '(MCert %d %d)' % (m[1], m[2])
    if k == 'MCV':
        return '(MCV %s)' % boollit(m[1])
    if k == 'MFin':
        return '(MFin %s)' % boollit(m[1])
    if k == 'MUnexp':
        return 'MUnexp'
    if k == 'MKUx':
        return '(MKUx %s)' % zlit(m[1])
    if k == 'MFinx':
        return '(MFinx %s)' % boollit(m[1])
    raise ValueError(k)


def op_lit(op):
    k = op[0]
    if k == 'OWrite':
        return '(OWrite %s)' % blit(op[1])
    if k == 'ORead':
        return '(ORead %d)' % op[1]
    if k == 'OKeyUpdate':
        return '(OKeyUpdate %s)' % boollit(op[1])
    if k == 'ORequestAuth':
        return '(ORequestAuth %s)' % boollit(op[1])
    if k == 'OHeartbeat':
        return '(OHeartbeat %s %d)' % (blit(op[1]), op[2])
    if k == 'OTickets':
        return '(OTickets %d)' % op[1]
    if k == 'OClose':
        return 'OClose'
    if k == 'OSetRecSize':
        return '(OSetRecSize %d)' % (op[2] if len(op) > 2 else op[1])
    if k == 'OSetDev':
        return '(OSetDev %d)' % op[1]
    if k == 'OInject':
        return '(OInject %s)' % msg_lit(op[1])
    if k == 'OReplayPha':
        return 'OReplayPha'
    raise ValueError(k)


def cfg_lit(c):
    return '(mkcfg %s %s %s %s %s %s %s %s %d %d %d)' % (
        boollit(c['is_cl']), boollit(c['hb_sup']), boollit(c['hb_recv']), boollit(c['hb_send']), boollit(c['hb_cb']),
        boollit(c['pha_key']), boollit(c['pha_sup']), boollit(c['cert_required']), c['my_chain'], c['recsize'], c['dev'])


def zl(xs):
    return '[' + ';'.join(zlit(x) for x in xs) + ']'


def obs_lit(o):
    recs = '[' + ';'.join('(%d,%s)' % (c, zl(p)) for (c, p) in o['recs']) + ']'
    return '(%d,%s,%s,%s)' % (o['code'], blit(o['data']), recs, zl(o['gens']))


def fin_lit(f):
    return '(%d,%d,%d,%s,%s,%s,%s)' % (f['tickets'], f['chain'], f['pending'], listlit(f['hb_c'], blit),
                                       listlit(f['hb_s'], blit), boollit(f['closed_c']), boollit(f['closed_s']))


def case_lit(r):
    ops = '[' + ';'.join('(%s,%s)' % (boollit(a), op_lit(op)) for (a, op) in r['ops']) + ']'
    obs = '[' + ';'.join(obs_lit(o) for o in r['obs']) + ']'
    return '(%s,%s,%s,%d,%s,%s,%s)' % (boollit(r['v13']), cfg_lit(r['mc']), cfg_lit(r['ms']), r['nst'], ops, obs,
                                       fin_lit(r['fin']))


def jops(ops):
    out = []
    for (a, op) in ops:
        o = [op[0]]
        for x in op[1:]:
            if isinstance(x, (bytes, bytearray)):
                o.append({'hex': bytes(x).hex()})
            elif isinstance(x, tuple):
                o.append({'msg': [list(y) if isinstance(y, (list, tuple)) else y for y in x]})
            elif isinstance(x, list):
                o.append({'list': x})
            else:
                o.append(x)
        out.append([bool(a), o])
    return out


def unjops(j):
    ops = []
    for a, o in j:
        op = [o[0]]
        for x in o[1:]:
            if isinstance(x, dict) and 'hex' in x:
                op.append(bytes.fromhex(x['hex']))
            elif isinstance(x, dict) and 'msg' in x:
                op.append(tuple(x['msg']))
            elif isinstance(x, dict) and 'list' in x:
                op.append(x['list'])
            else:
                op.append(x)
        ops.append((a, tuple(op)))
    return ops


def replay_obj(r, extra=None):
    d = {'cfg': r['cfg'], 'ops': jops(r['ops']), 'klass': r['klass'], 'hist_seed': r['seed'],
         'how': './check C16 --replay <this file>  (runs the history on a live pair from /repo and prints the oracle verdicts)'}
    d.update(extra or {})
    return d


def model_diag(r):
    """first differing operation between model and implementation (diagnostics for the log/replay)"""
    lit = case_lit(r)
    pre = ('Definition c : caseT := %s.\n'
           'Definition d := let \'(v13, cc, sc, nst, ops, obs, fin) := c in first_diff (snd (run (init v13 cc sc nst) ops)) obs 0.\n'
           'Definition o := let \'(v13, cc, sc, nst, ops, obs, fin) := c in '
           'map (fun x => (code (fst x), data (fst x), map (fun r => (tag r, msg_code (body r))) (emitted (fst x)), snd x)) '
           '(snd (run (init v13 cc sc nst) ops)).\n' % lit)
    rc, out = vlib.coq_eval('C16_diag_%d' % (r['seed'] % 100000), IMPORTS, ['d', 'nth (Z.to_nat d) o (0,[],[],[])'], preamble=pre)
    import re
    m = re.search(r'=\s*(-?\d+)\s*:\s*Z', out)
    idx = int(m.group(1)) if m else None
    return idx, out[-1500:]


def eval_cases(ctx, lits, shard):
    """vlib.coq_bad_indices + one retry (fewer processes) of shards whose coqc was killed (loaded machine)"""
    import re
    tmo = 900 if ctx.tier == 'quick' else 2700
    bad, errs = vlib.coq_bad_indices('C16', IMPORTS, 'caseT', 'chk_case', lits, shard=shard, timeout=tmo)
    if not errs:
        return bad, errs
    ns = max(1, (len(lits) + shard - 1) // shard)
    redo = sorted(set(int(m.group(1)) for e in errs for m in [re.match(r'C16_(\d+):', e)] if m))
    if len(redo) != len(errs):
        return bad, errs
    ctx.log('retrying %d case shard(s) whose evaluation was killed: %s' % (len(redo), redo))
    idx = [i for k in redo for i in range(k, len(lits), ns)]
    saved = vlib.NPROC
    vlib.NPROC = max(4, saved // 2)
    try:
        bad2, errs2 = vlib.coq_bad_indices('C16r', IMPORTS, 'caseT', 'chk_case', [lits[i] for i in idx],
                                           shard=shard, timeout=tmo)
    finally:
        vlib.NPROC = saved
    return sorted(bad + [idx[j] for j in bad2]), errs2


# ------------------------------------------------------------------------------------------
def plan(ctx):
    quick = ctx.tier == 'quick'
    n = 220 if quick else 3000
    jobs = []
    # corpus first: every deviation class x every record-size profile (so that the quick tier reaches
    # every class/size combination the thorough tier can reach), then random histories
    for rep_ in range(1 if quick else 3):
        for prof in sorted(PROFILES):
            for d in DEV13:
                jobs.append((ctx.rng.randrange(1 << 48), 'deviant', 0, {'force': d, 'profile': prof}))
            for d in DEV12:
                if prof in ('default', 'small'):
                    jobs.append((ctx.rng.randrange(1 << 48), 'old', 0, {'force': d, 'profile': prof}))
    for i in range(n):
        seed = ctx.rng.randrange(1 << 48)
        r = i % 20
        klass = 'old' if r in (3, 13) else ('deviant' if r % 2 == 1 else 'honest')
        jobs.append((seed, klass, 28 if quick else 40, None))
    return jobs


def cov_key(r):
    kinds = tuple(sorted(set(op[0] for (_, op) in r['ops'])))
    codes = tuple(sorted(set(o['code'] for o in r['obs'] if o['code'] >= 100)))
    g = r['obs'][-1]['gens'] if r['obs'] else [0] * 4
    return (tuple(r['cfg']['ver']), r['klass'], tuple(r['tags']), codes, min(max(g), 6), len(kinds))


def run(ctx):
    quick = ctx.tier == 'quick'
    res = vlib.proof_stage(ctx, 'Props/C16.v', model_targets=MODEL_TARGETS)
    ctx.log('proof stage ok=%s failing=%s' % (res['ok'], res['failing']))
    ctx.cov['trusted_base'] = [
        'Coq 8.16.1 kernel + vm_compute (case evaluation)',
        'hand model Model/C16_PostHs.v, tied per operation to the live endpoints (result, bytes, plaintext records, key generations)',
        'ideal AEAD: a record opens only under the generation it was written under (tag check of the model)',
        'PHA contexts (32 random bytes) do not collide; signature / Finished validity are input bits of the model',
        'harness/loop.py in-memory sockets deliver whole records in order (TCP)',
    ]
    ctx.assumptions += ['recordSize >= 1', 'transport is reliable and in order (faults are C17)',
                        'heartbeat: malformed/short-padded/unsolicited-response records are silently discarded (RFC 6520) rather than fatal']
    jobs = plan(ctx)
    with multiprocessing.Pool(vlib.NPROC) as pool:
        results = pool.map(run_history, jobs, chunksize=4)
    found = False
    tie_broken = None
    good = []
    known_keys = set(k.get('key') for k in ctx.known if k.get('status') == 'known')
    for r in results:
        if not r['ok']:
            tie_broken = 'history runner failed (seed %d): %s' % (r['seed'], r['err'].splitlines()[-1])
            ctx.log(r['err'])
            continue
        good.append(r)
        ctx.count('live-history(oracle)', 1, [cov_key(r)],
                  sample={'cfg': r['cfg'], 'ops': jops(r['ops'])[:12], 'tags': r['tags']} if len(good) % 61 == 1 else None)
        ctx.count('live-operations', len(r['ops']), [])
        for key, what in r['viol']:
            if ctx.violation(key, what, replay_obj(r)):
                found = True                       # (a known finding does not count as the failing input of a broken tie)
    ctx.log('live histories: %d (%d ops), oracle violations in %d' % (
        len(good), sum(len(r['ops']) for r in good), sum(1 for r in good if r['viol'])))
    # ---- the model on the same histories
    if res['model_ok']:
        lits = [case_lit(r) for r in good]
        bad, errs = eval_cases(ctx, lits, max(4, (len(lits) + 31) // 32) if quick else 60)
        ctx.count('model-vs-impl(vm_compute)', len(lits), [('agree', len(lits) - len(bad))])
        for e in errs:
            tie_broken = 'case evaluation failed: ' + e[:400]
        for i in bad[:4]:
            r = good[i]
            idx, out = model_diag(r)
            what = 'model and implementation disagree at operation %s of history seed=%d: %s' % (
                idx, r['seed'], (jops(r['ops'])[idx] if idx is not None and 0 <= idx < len(r['ops']) else 'final summary'))
            impl_o = ({k: (v.hex() if isinstance(v, bytes) else v) for k, v in r['obs'][idx].items()}
                      if idx is not None and 0 <= idx < len(r['obs']) else r['fin'])
            ctx.log(what + '\nmodel: ' + out + '\nimpl: %r cfg=%r' % (impl_o, r['cfg']))
            if not [k for k, _ in r['viol'] if k not in known_keys]:
                tie_broken = what
                ctx.notes.append({'disagreement': what, 'model': out, 'impl': impl_o})
                last_bad = replay_obj(r, {'disagree_at': idx})
    else:
        tie_broken = 'model does not compile: %s' % res['failing']
    ctx.cov['rule'] = ('history = 0-2 scripted scenarios (simultaneous update, KeyUpdate burst, KeyUpdate between fragments, PHA with '
                       'one/two outstanding requests, heartbeat, tickets) + random operations by either side + (deviant class) one '
                       'malformed/unsolicited/not-permitted control record or lying PHA client + drain + probe each way; TLS 1.3 '
                       '(3 suites) and TLS 1.0-1.2; distinct = (version, class, scenario tags, alert codes seen, max generation, '
                       'number of operation kinds)')
    if tie_broken and not found:
        rep = dict(locals().get('last_bad') or {})
        rep.update({'correspondence': 'Model/C16_PostHs.v vs live tlslite-ng pair', 'detail': tie_broken})
        ctx.violation('tie-broken', tie_broken, rep, found_input=False)
        found = True
    vlib.broken_proof_verdict(ctx, res, found)


def replay(ctx, path):
    with open(path) as f:
        r = json.load(f)
    if 'ops' not in r:
        print('nothing to replay (no concrete history in this file): %s' % r.get('what'))
        return 1
    fixed = {'cfg': r['cfg'], 'ops': unjops(r['ops'])}
    out = run_history((r.get('hist_seed', 0), r.get('klass', 'honest'), 0, fixed))
    if not out['ok']:
        print(out['err'])
        return 1
    for (a, op), o in zip(out['ops'], out['obs']):
        print('%s %-12s -> code=%d %s data=%d bytes recs=%s gens=%s' % (
            'C' if a else 'S', op[0], o['code'], o['desc'], len(o['data']), [(c, p[:6]) for c, p in o['recs']], o['gens']))
    print('final:', out['fin'])
    for key, what in out['viol']:
        print('ORACLE: %s -- %s' % (key, what))
    return 1 if out['viol'] else 0
