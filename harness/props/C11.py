"""C11: RSA key transport gives an attacker no padding oracle.

Tie: translator (coq/Gen/C11_RsaDecrypt.v and coq/Gen/C11_RsaKex.v are regenerated from
tlslite/utils/rsakey.py and tlslite/keyexchange.py on every run by translator/pylite_c11.py),
plus a hand model of the server tail (coq/Model/C11_ServerTail.v) tied by live handshakes.
Theorems: coq/Props/C11.v.  Correspondence: real keys, crafted ciphertexts of every class,
generated model + Coq spec evaluated by vm_compute with recorded SHA-256/HMAC/private-op
oracle tables; direct property oracle (written from the property text and the implicit
rejection draft) on the implementation; live RSA-key-exchange handshakes with a deviating
client (harness/c11_live.py)."""
import hashlib
import hmac as pyhmac
import json
import os
import re
import sys
import types

import vlib
from vlib import blit, zlit

sys.path.insert(0, os.path.join(vlib.ROOT, 'translator'))
import units  # noqa: E402
import c11_keys  # noqa: E402

LEVEL = 'proof'
META = {
    'text': 'Coq theorems (Props/C11.v) about Gallina text regenerated on every run from RSAKey.decrypt/_dec_prf/'
            '_raw_private_key_op_bytes and RSAKeyExchange.processClientKeyExchange: for every key size (80..524280 bit) '
            'and every ciphertext the constant-time decryption equals the plain implicit-rejection specification '
            '(message iff 00 02 | >=8 non-zero | 00 | M, else the tail of the PRF message whose length is the last of '
            '128 masked candidates below k-10), is total (None exactly for wrong length or value >= n, never raises), '
            'the result for an invalid block does not depend on the block (2-safety), processClientKeyExchange always '
            'yields 48 bytes and never raises, and on the server model any two malformed encrypted premasters lead to '
            'the same continuation / the same single fatal alert. Generated models, Coq spec and the Python code are '
            'evaluated on the same crafted ciphertexts (vm_compute, recorded oracle tables); live handshakes with a '
            'deviating client compare the server wire behaviour across malformation classes.',
    'note': 'Trusted: Coq kernel + vm_compute; translator/pylite.py + pylite_c11.py (validated by evaluation on every '
            'run); Base/C11_Lib.v hand models of numBits/numBytes/numberToByteArray/bytesToNumber (validated); '
            'SHA-256/HMAC-SHA256/private operation/getRandomBytes as oracles (HMAC: 32 output bytes; private op: '
            'non-negative); _key_hash cache coherent with d; Spec/C11_Pkcs1Dec.v as the reading of the implicit '
            'rejection draft; Model/C11_ServerTail.v hand model (crypto abstract) tied only by live handshakes. '
            'Timing/memory-access side channels are NOT covered (functional and wire behaviour only).',
    'technique': 'Rocq/Coq proof over translator-regenerated model + vm_compute correspondence + live 2-run comparison',
}
EXC = {'IndexError': 1, 'ValueError': 2, 'AssertionError': 3, 'AttributeError': 4, 'TypeError': 5,
       'KeyError': 6, 'ZeroDivisionError': 9, 'StopIteration': 101, 'OverflowError': 102}
MODEL_TARGETS = ['Base/C11_Lib.vo', 'Gen/C11_RsaDecrypt.vo', 'Gen/C11_RsaKex.vo', 'Gen/C11_RsaPrivOp.vo', 'Spec/C11_Pkcs1Dec.vo',
                 'Model/C11_ServerTail.vo']


# --------------------------------------------------------------------------- keys
_KEYS = {}


def get_key(name):
    """name: 'pem' (tests/serverX509Key.pem) or modulus bits of harness/c11_keys.py"""
    if name in _KEYS:
        return _KEYS[name]
    from tlslite.utils.python_rsakey import Python_RSAKey
    if name == 'pem':
        from tlslite.utils.keyfactory import parsePEMKey
        with open(os.path.join(vlib.REPO, 'tests', 'serverX509Key.pem')) as f:
            key = parsePEMKey(f.read(), private=True, implementations=['python'])
    else:
        p, q = c11_keys.PRIMES[int(name)]
        key = Python_RSAKey(p * q, 65537, 0, p, q)
    n, e, d = int(key.n), int(key.e), int(key.d)
    # H-rsa-key: the key really is an RSA key (checked here, assumed by nothing in the proofs)
    for x in (2, 3, n - 2, 0x1234567):
        assert pow(pow(x % n, e, n), d, n) == x % n, 'invalid test key %s' % name
    _KEYS[name] = key
    return key


def kbytes(n):
    return (int(n).bit_length() + 7) // 8


# --------------------------------------------------------------------------- direct oracle (property text + draft)
def o_hmac(k, m):
    return pyhmac.new(bytes(k), bytes(m), hashlib.sha256).digest()


def o_prf(key, label, nbytes):
    out, i = b'', 0
    while len(out) < nbytes:
        out += o_hmac(key, i.to_bytes(2, 'big') + label + ((nbytes * 8) & 0xffff).to_bytes(2, 'big'))
        i += 1
    return out[:nbytes]


def o_unpad(em):
    """M iff em = 00 02 PS 00 M, |PS| >= 8, PS non-zero; else None"""
    if len(em) < 11 or em[0] != 0 or em[1] != 2:
        return None
    s = em.find(b'\x00', 2)
    if s < 10:
        return None
    return em[s + 1:]


def o_synth(n, d, ct):
    k = kbytes(n)
    kdk = o_hmac(hashlib.sha256(d.to_bytes(k, 'big')).digest(), ct)
    lr = o_prf(kdk, b'length', 256)
    mr = o_prf(kdk, b'message', k)
    t = 0
    while (1 << t) - 1 < k - 10:
        t += 1
    mask = (1 << t) - 1
    sl = 0
    for i in range(128):
        c = ((lr[2 * i] << 8) | lr[2 * i + 1]) & mask
        if c <= k - 11:
            sl = c
    return mr[k - sl:]


def o_decrypt(n, d, ct, em):
    """the property: None iff publicly invalid; M iff valid; else the synthetic message"""
    k = kbytes(n)
    if len(ct) != k or int.from_bytes(ct, 'big') >= n:
        return None
    m = o_unpad(em)
    if m is not None:
        return m
    return o_synth(n, d, ct)


# --------------------------------------------------------------------------- running the implementation
class Recording(object):
    """Records every secureHMAC call made by tlslite.utils.rsakey (oracle table)."""

    def __init__(self):
        self.hmac = {}
        self.hash = {}

    def __enter__(self):
        import tlslite.utils.rsakey as rk
        self.rk = rk
        self.orig = rk.secureHMAC
        self.orig_hash = rk.secureHash

        def rech(data, alg):
            r = self.orig_hash(data, alg)
            if alg == 'sha256':
                self.hash[bytes(data)] = bytes(r)
            return r
        rk.secureHash = rech

        def rec(k, b, alg):
            r = self.orig(k, b, alg)
            if alg == 'sha256':
                self.hmac[(bytes(k), bytes(b))] = bytes(r)
            return r
        rk.secureHMAC = rec
        return self

    def __exit__(self, *a):
        self.rk.secureHMAC = self.orig
        self.rk.secureHash = self.orig_hash


def run_decrypt(key, ct, forced_em=None):
    """Returns dict(out=bytes|None, exc=code, hmac=table, raw=table).  forced_em: the block the private
    operation is made to return (the key object is the harness's own instance)."""
    raw = {}
    orig = type(key)._rawPrivateKeyOp
    kh = key.__dict__.get('_key_hash', 'MISSING')
    cache_before = None if (kh is None or isinstance(kh, str)) else bytes(kh)

    def raw_op(m):
        r = orig(key, m) if forced_em is None else int.from_bytes(forced_em, 'big')
        raw[int(m)] = int(r)
        return r
    key._rawPrivateKeyOp = raw_op
    try:
        with Recording() as rec:
            try:
                r = key.decrypt(bytearray(ct))
                res = dict(out=None if r is None else bytes(r), exc=0, isnone=r is None)
            except Exception as e:  # noqa
                res = dict(out=None, exc=EXC.get(type(e).__name__, 100), isnone=False, excname=type(e).__name__)
    finally:
        del key._rawPrivateKeyOp
    res['hmac'] = rec.hmac
    res['hash'] = rec.hash
    res['raw'] = raw
    res['cache_before'] = cache_before
    kh = key.__dict__.get('_key_hash', None)
    res['cache_after'] = None if kh is None else bytes(kh)
    return res


def enc_em(key, em):
    return pow(int.from_bytes(em, 'big'), int(key.e), int(key.n)).to_bytes(kbytes(key.n), 'big')


def nz(rng, m):
    return bytes(rng.randrange(1, 256) for _ in range(m))


def pkcs(rng, k, msg):
    assert 0 <= len(msg) <= k - 11, 'message of %d bytes does not fit a %d-byte modulus' % (len(msg), k)
    return b'\x00\x02' + nz(rng, k - 3 - len(msg)) + b'\x00' + msg


def em_classes(rng, k, n):
    """(class, em) for every validity/defect class of a k-byte block (all < n)."""
    out = []
    rb = lambda m: bytes(rng.randrange(256) for _ in range(m))
    lens = sorted(set(x for x in (0, 1, 2, 47, 48, 49, k - 12, k - 11, rng.randrange(0, k - 10)) if 0 <= x <= k - 11))
    for L in lens:
        tag = 'max' if L == k - 11 else str(L) if L in (0, 1, 48) else 'other'
        out.append(('valid-len-' + tag, pkcs(rng, k, rb(L))))
    if k - 11 >= 4:
        out.append(('valid-msg-leading-zero', pkcs(rng, k, b'\x00\x00' + rb(2))))
    base = bytearray(pkcs(rng, k, rb(min(20, k - 11))))
    for v in (1, 2):
        e = bytearray(base); e[0] = v
        if int.from_bytes(e, 'big') < n:
            out.append(('first-byte-nonzero', bytes(e)))
    for v in (0, 1, 3, 255):
        e = bytearray(base); e[1] = v
        out.append(('second-byte-not-2', bytes(e)))
    for i in range(2, 10):
        e = bytearray(base); e[i] = 0
        out.append(('zero-in-first-8-ps', bytes(e)))
    out.append(('no-separator', b'\x00\x02' + nz(rng, k - 2)))
    out.append(('separator-last', b'\x00\x02' + nz(rng, k - 3) + b'\x00'))
    out.append(('separator-at-10', b'\x00\x02' + nz(rng, 8) + b'\x00' + rb(k - 11)))
    e = bytearray(b'\x00\x02' + nz(rng, k - 2))
    if k >= 24:
        e[5] = 0; e[20] = 0
        out.append(('zero-early-and-late', bytes(e)))
    e = bytearray(base); e[0] = 1; e[1] = 7; e[4] = 0
    if int.from_bytes(e, 'big') < n:
        out.append(('several-defects', bytes(e)))
    out.append(('all-zero-block', bytes(k)))
    out.append(('block-one', bytes(k - 1) + b'\x01'))
    out.append(('block-0002-zeros', b'\x00\x02' + bytes(k - 2)))
    while True:
        r = rb(k)
        if int.from_bytes(r, 'big') < n:
            out.append(('random-block', r))
            break
    return out


def public_invalid(rng, k, n):
    top = (1 << (8 * k)) - 1
    out = [('ct-eq-n', n.to_bytes(k, 'big'))]
    if n + 1 <= top:
        out.append(('ct-n-plus-1', (n + 1).to_bytes(k, 'big')))
    out.append(('ct-all-ff', top.to_bytes(k, 'big')))
    small = (n - 1).to_bytes(k, 'big')
    out += [('ct-short', small[1:]), ('ct-long', b'\x00' + small), ('ct-empty', b''),
            ('ct-one-byte', b'\x05'), ('ct-long-2k', small + small)]
    return out


def jcase(c):
    return {k: (v.hex() if isinstance(v, (bytes, bytearray)) else v) for k, v in c.items()
            if k not in ('impl', 'keyobj')}


# --------------------------------------------------------------------------- Coq literals
def hexlit(x):
    """big integers as hexadecimal literals (decimal parsing is quadratic in coqc)"""
    x = int(x)
    return ('0x%x' % x) if x >= 0 else '(-0x%x)' % -x


def tbl(items):
    return '[' + ';'.join('(%s,%s)' % (blit(k), blit(v)) for k, v in items) + ']'


def hm_key(k, m):
    return bytes([]) + bytes(k) + bytes(m), len(k)


def hmac_tbl(table):
    # two-argument oracle encoded as one list: len(key) :: key ++ msg
    return '[' + ';'.join('(%s,%s)' % ('[' + ';'.join([str(len(k))] + [str(b) for b in k + m]) + ']', blit(v))
                          for (k, m), v in table.items()) + ']'


def res_lit(res):
    if res['exc']:
        return 'None', res['exc']
    return ('(Some %s)' % vlib.optlit(res['out'], blit)), 0


def decrypt_lit(key, ct, res):
    n, d = int(key.n), int(key.d)
    k = kbytes(n)
    # SHA-256 oracle table: what the run asked for, plus the one value the specification needs (computed here)
    hts = dict(res.get('hash', {}))
    hts[d.to_bytes(k, 'big')] = hashlib.sha256(d.to_bytes(k, 'big')).digest()
    ht = tbl(sorted(hts.items()))
    rt = '[' + ';'.join('(%s,%s)' % (hexlit(a), hexlit(b)) for a, b in res['raw'].items()) + ']'
    impl, code = res_lit(res)
    return '(%s, %s, %s, %s, %s, %s, %s, %s, %d)' % (hexlit(n), hexlit(d), vlib.optlit(res.get('cache_before'), blit), blit(ct),
                                                     ht, hmac_tbl(res['hmac']), rt, impl, code)


def robust_bad_indices(*a, **kw):
    """vlib.coq_bad_indices, but a coqc that was killed from outside or ran into the wall-clock limit (machine load)
    is retried once with a longer limit instead of being reported"""
    r, errs = vlib.coq_bad_indices(*a, **kw)
    if errs and all(re.search(r'rc=(-9|137|124|-15|143)\b', e) for e in errs):
        kw = dict(kw)
        kw['timeout'] = 3 * kw.get('timeout', 900)
        r, errs = vlib.coq_bad_indices(*a, **kw)
    return r, errs


PREAMBLE = '''
From TV Require Import Gen.ConstantTime.
Definition hm2 (t : list (list Z * list Z)) (k m : list Z) : list Z := table_lookup t (zlen k :: k ++ m).
Fixpoint raw_lookup (t : list (Z * Z)) (q : Z) : Z :=
  match t with [] => -1 | (a, b) :: t' => if a =? q then b else raw_lookup t' q end.
Definition CaseT := (Z * Z * option (list Z) * list Z * list (list Z * list Z) * list (list Z * list Z) * list (Z * Z)
                     * option (option (list Z)) * Z)%type.
(* the generated decrypt, given the cached _key_hash the object carried before the call *)
Definition chk_model (c : CaseT) : bool :=
  let '(n, d, cache, enc, ht, mt, rt, impl, code) := c in
  res_matches opt_list_eqb (decrypt (table_lookup ht) (hm2 mt) (raw_lookup rt) true n d "rsa"%string cache enc) impl code.
(* the specification does not know any cache: key hash = SHA-256(d) *)
Definition chk_spec (c : CaseT) : bool :=
  let '(n, d, cache, enc, ht, mt, rt, impl, code) := c in
  match impl with
  | Some r => opt_list_eqb (spec_decrypt (table_lookup ht) (hm2 mt) (raw_lookup rt) n d enc) r
  | None => false
  end.
Definition PrivT := (Z * Z * Z * Z * Z * list (Z * Z) * (Z * Z * Z) * (Z * Z * Z) * (Z * Z * Z * Z) * (Z * Z * Z))%type.
Definition chk_privop (c : PrivT) : bool :=
  let '(n, e, b, u, m, ht, g, iv, pw, want) := c in
  let '(g1, g2, gv) := g in let '(i1, i2, ivv) := iv in let '(p1, p2, p3, pv) := pw in
  let '(wc, wb, wu) := want in
  match rawPrivateKeyOp (raw_lookup ht)
          (fun a b0 => if (a =? g1) && (b0 =? g2) then gv else -1)
          (fun a b0 => if (a =? i1) && (b0 =? i2) then ivv else -1)
          (fun a b0 c0 => if (a =? p1) && (b0 =? p2) && (c0 =? p3) then pv else -1)
          n e b u m with
  | Ok (c', (b', u')) => (c' =? wc) && (b' =? wb) && (u' =? wu)
  | Err _ => false
  end.
Definition HistT := (Z * Z * Z * Z * list Z * list (Z * Z) * (Z * Z * Z) * (Z * Z * Z) * (Z * Z * Z * Z)
                     * list Z * (Z * Z))%type.
Definition chk_history (c : HistT) : bool :=
  let '(n, e, b, u, ms, ht, g, iv, pw, want, wst) := c in
  let '(g1, g2, gv) := g in let '(i1, i2, ivv) := iv in let '(p1, p2, p3, pv) := pw in
  match run_ops (raw_lookup ht)
          (fun a b0 => if (a =? g1) && (b0 =? g2) then gv else -1)
          (fun a b0 => if (a =? i1) && (b0 =? i2) then ivv else -1)
          (fun a b0 c0 => if (a =? p1) && (b0 =? p2) && (c0 =? p3) then pv else -1)
          n e (b, u) ms with
  | Ok (rs, (b', u')) => list_eqb rs want && (b' =? fst wst) && (u' =? snd wst)
  | Err _ => false
  end.
Definition KexT := (option (list Z) * list Z * (Z * Z) * (Z * Z) * option (option (list Z)) * Z)%type.
Definition chk_kex (c : KexT) : bool :=
  let '(r, rnd, cv, sv, impl, code) := c in
  res_matches opt_list_eqb (processClientKeyExchange (fun _ => r) (fun _ => rnd) cv sv [1]) impl code.
Definition chk_kex_spec (c : KexT) : bool :=
  let '(r, rnd, cv, sv, impl, code) := c in
  match impl with Some (Some x) => list_eqb (kex_spec cv sv r rnd) x | _ => false end.
'''
IMPORTS = ['Base.C11_Lib', 'Gen.C11_RsaDecrypt', 'Gen.C11_RsaKex', 'Gen.C11_RsaPrivOp', 'Spec.C11_Pkcs1Dec', 'Model.C11_ServerTail',
           'Proofs.C11_PrivOp']


# --------------------------------------------------------------------------- decrypt cases
def gen_decrypt_cases(ctx, quick):
    """list of dict(keyname, cls, ct, forced_em|None, em (expected block))"""
    rng = ctx.rng
    names = ['pem', 88, 96, 512, 1096, 1104] + ([] if quick else [1024, 2048, 3072])
    reps = 1 if quick else 3
    cases = []
    for name in names:
        key = get_key(name)
        n, k = int(key.n), kbytes(key.n)
        for _ in range(reps):
            for cls, em in em_classes(rng, k, n):
                cases.append(dict(key=name, cls=cls, ct=enc_em(key, em), forced=None, em=em))
            for cls, ct in public_invalid(rng, k, n):
                cases.append(dict(key=name, cls=cls, ct=ct, forced=None, em=b''))
            for cls, ct in (('ct-zero', bytes(k)), ('ct-one', bytes(k - 1) + b'\x01'), ('ct-n-minus-1', (n - 1).to_bytes(k, 'big'))):
                cases.append(dict(key=name, cls=cls, ct=ct, forced=None, em=None))
            while True:
                ct = bytes(rng.randrange(256) for _ in range(k))
                if int.from_bytes(ct, 'big') < n:
                    break
            cases.append(dict(key=name, cls='ct-random', ct=ct, forced=None, em=None))
    return cases


def gen_forced_groups(ctx, quick):
    """For one ciphertext (one PRF stream) the private operation is made to return each block class."""
    rng = ctx.rng
    names = [96, 512, 1096, 'pem'] + ([] if quick else [88, 1024, 1104, 2048, 3072])
    groups = []
    for name in names:
        key = get_key(name)
        n, k = int(key.n), kbytes(key.n)
        for _ in range((1 if name == 'pem' else 2) if quick else 4):
            while True:
                ct = bytes(rng.randrange(256) for _ in range(k))
                if int.from_bytes(ct, 'big') < n:
                    break
            groups.append(dict(key=name, ct=ct, ems=em_classes(rng, k, n)))
    return groups


def key_of(c):
    return c['keyobj'] if c.get('keyobj') is not None else get_key(c['key'])


def check_decrypt_oracle(ctx, case, res, res2):
    """The property itself on one implementation run.  Returns True if a violation was reported."""
    key = key_of(case)
    n, d = int(key.n), int(key.d)
    cls = case['cls']
    em = case['em']
    if em is None:                      # block unknown to the harness: take it from the real private operation
        ems = list(res['raw'].values())
        em = ems[0].to_bytes(kbytes(n), 'big') if ems else b''
    want = o_decrypt(n, d, case['ct'], em)
    rep = dict(kind='decrypt', case=jcase(case), how='harness/props/C11.py replay: key.decrypt(ct) (forced = block the '
               'private operation is made to return)')
    if res['exc']:
        ctx.violation('decrypt-raises:%s' % cls, 'RSAKey.decrypt raises %s for ciphertext class %s (key %s)'
                      % (res.get('excname'), cls, case['key']), rep)
        return True
    if (res['out'], res['exc']) != (res2['out'], res2['exc']):
        ctx.violation('decrypt-nondeterministic:%s' % cls, 'two decryptions of the same ciphertext differ (class %s, key %s): '
                      '%r vs %r' % (cls, case['key'], res['out'], res2['out']), rep)
        return True
    if res['out'] != want:
        kind = ('publicly valid ciphertext yields failure' if res['out'] is None else
                'publicly invalid ciphertext yields a message' if want is None else
                'valid padding does not yield the message' if o_unpad(em) is not None else
                'invalid padding does not yield the synthetic message of the draft')
        ctx.violation('decrypt!=spec:%s' % cls, '%s: decrypt returns %s, property says %s (class %s, key %s)'
                      % (kind, None if res['out'] is None else res['out'].hex(), None if want is None else want.hex(),
                         cls, case['key']), dict(rep, impl=None if res['out'] is None else res['out'].hex(),
                                                 spec=None if want is None else want.hex()))
        return True
    return False


# --------------------------------------------------------------------------- key exchange cases
def run_kex(r, rnd, cv, sv):
    import tlslite.keyexchange as kx
    fake_key = types.SimpleNamespace(decrypt=lambda b: (None if r is None else bytearray(r)))
    kex = kx.RSAKeyExchange(0x002f, types.SimpleNamespace(client_version=cv),
                            types.SimpleNamespace(server_version=sv), fake_key)
    orig = kx.getRandomBytes
    calls = []

    def grb(n_):
        calls.append(n_)
        return bytearray(rnd[:n_])
    kx.getRandomBytes = grb
    try:
        try:
            out = kex.processClientKeyExchange(types.SimpleNamespace(encryptedPreMasterSecret=bytearray(b'\x01')))
            return dict(out=None if out is None else bytes(out), exc=0, calls=calls)
        except Exception as e:  # noqa
            return dict(out=None, exc=EXC.get(type(e).__name__, 100), excname=type(e).__name__, calls=calls)
    finally:
        kx.getRandomBytes = orig


PM_VERSIONS = [(3, 0), (3, 1), (3, 2), (3, 3), (3, 4), (3, 5), (2, 0), (2, 255), (4, 0), (0, 0), (3, 255),
               (0, 3), (1, 3), (255, 255)]


def version_class(v, cv, sv):
    """where the premaster's version bytes lie relative to the advertised / negotiated version"""
    if v == cv:
        return 'pm-version=client'
    if v == sv:
        return 'pm-version=negotiated'
    if sv < v < cv:
        return 'pm-version-between'
    if v[0] != 3:
        return 'pm-version-other-major'
    return 'pm-version-above' if v > cv else 'pm-version-below'


def gen_kex_cases(ctx, quick):
    """every (client_version, negotiated version) pair -- equal, adjacent and with gaps of 2, 3, 4 -- times every
    premaster version value of PM_VERSIONS and the length / emptiness classes of the decrypt result"""
    rng = ctx.rng
    rb = lambda m: bytes(rng.randrange(256) for _ in range(m))
    cases = []
    vers = [(3, 0), (3, 1), (3, 2), (3, 3)]
    for cv in vers + [(3, 4)]:
        for sv in vers:
            if sv > cv:
                continue
            rs = [('none', None), ('empty', b''), ('len-1', rb(1)), ('len-47', bytes(cv) + rb(45)),
                  ('len-49', bytes(cv) + rb(47)), ('swapped-version', bytes([cv[1], cv[0]]) + rb(46)),
                  ('zero-version', bytes(48)), ('len-2', bytes(cv)), ('len-128', bytes(cv) + rb(126)),
                  ('random-48', rb(48))]
            for v in PM_VERSIONS:
                rs.append((version_class(v, cv, sv), bytes(v) + rb(46)))
                if not quick:
                    rs.append((version_class(v, cv, sv) + '/len-47', bytes(v) + rb(45)))
            for cls, r in rs:
                cases.append(dict(cls=cls, r=r, rnd=rb(48), cv=cv, sv=sv))
    return cases


def kex_oracle(c):
    """the property: the decrypted value is used iff it is 48 bytes and starts with the version the client
    advertised (or, tolerated, exactly the negotiated one); anything else -> the random premaster"""
    r = c['r']
    if r is not None and len(r) == 48 and (tuple(r[:2]) == c['cv'] or tuple(r[:2]) == c['sv']):
        return r
    return c['rnd']


def kex_lit(c, res):
    impl, code = res_lit(res)
    return '(%s, %s, (%d,%d), (%d,%d), %s, %d)' % (vlib.optlit(c['r'], blit), blit(c['rnd']), c['cv'][0], c['cv'][1],
                                                   c['sv'][0], c['sv'][1], impl, code)


# --------------------------------------------------------------------------- helper validation
def helper_cases(ctx, quick):
    from tlslite.utils import cryptomath as cm
    rng = ctx.rng
    lits, meta = [], []
    vals = [0, 1, 2, 127, 128, 255, 256, 65535, 65536, 2 ** 80 - 1, 2 ** 80, 2 ** 1023, 2 ** 1024 - 1, 2 ** 1024, 2 ** 1024 + 1]
    vals += [rng.getrandbits(rng.choice([7, 8, 9, 63, 64, 65, 1024, 2047])) for _ in range(12 if quick else 100)]
    for v in vals:
        lits.append('Z.eqb (numBits %s) %d && Z.eqb (numBytes %s) %d' % (hexlit(v), cm.numBits(v), hexlit(v), cm.numBytes(v)))
        meta.append(('numBits/numBytes', v))
    for v in vals:
        for kk in (0, 1, 2, 3, cm.numBytes(v), cm.numBytes(v) + 1, max(0, cm.numBytes(v) - 1)):
            try:
                r = cm.numberToByteArray(v, kk)
                lit = 'res_matches list_eqb (numberToByteArray %s %d) (Some %s) 0' % (hexlit(v), kk, blit(r))
            except Exception as e:  # noqa
                lit = 'res_matches list_eqb (numberToByteArray %s %d) None %d' % (hexlit(v), kk, EXC.get(type(e).__name__, 100))
            lits.append(lit)
            meta.append(('numberToByteArray', (v, kk)))
    try:
        cm.numberToByteArray(-1, 2)
        neg = 'res_matches list_eqb (numberToByteArray (-1) 2) (Some []) 0'
    except Exception as e:  # noqa
        neg = 'res_matches list_eqb (numberToByteArray (-1) 2) None %d' % EXC.get(type(e).__name__, 100)
    lits.append(neg)
    meta.append(('numberToByteArray', (-1, 2)))
    for m in [0, 1, 2, 3, 11, 64, 129]:
        b = bytes(rng.randrange(256) for _ in range(m))
        for bb in (b, bytes(m), b'\xff' * m):
            lits.append('Z.eqb (bytesToNumber %s) %s' % (blit(bb), hexlit(cm.bytesToNumber(bytearray(bb)))))
            meta.append(('bytesToNumber', bb.hex()))
    # _dec_prf with recorded HMAC table
    key = get_key(96)
    for L in [0, 8, 16, 248, 256, 264, 512, 2048, 12 * 8, 7, 12, 2049, 256 * 8 + 8]:
        kk = bytes(rng.randrange(256) for _ in range(rng.choice([0, 1, 32])))
        label = rng.choice([b'length', b'message', b'', b'x'])
        with Recording() as rec:
            try:
                r = key._dec_prf(bytearray(kk), label, L)
                impl, code = '(Some %s)' % blit(r), 0
            except Exception as e:  # noqa
                impl, code = 'None', EXC.get(type(e).__name__, 100)
        lits.append('res_matches list_eqb (dec_prf (fun k m => table_lookup %s (zlen k :: k ++ m)) %s %s %d) %s %d'
                    % (hmac_tbl(rec.hmac), blit(kk), blit(label), L, impl, code))
        meta.append(('_dec_prf', L))
    return lits, meta


# --------------------------------------------------------------------------- every way a key object comes into existence
def der_len(n):
    if n < 128:
        return bytes([n])
    b = n.to_bytes((n.bit_length() + 7) // 8, 'big')
    return bytes([0x80 | len(b)]) + b


def der_int(x):
    b = x.to_bytes(x.bit_length() // 8 + 1, 'big')
    return b'\x02' + der_len(len(b)) + b


def pem_of(ints, pkcs8):
    import base64
    body = b''.join(der_int(int(x)) for x in [0] + list(ints))
    der = b'\x30' + der_len(len(body)) + body
    label = 'RSA PRIVATE KEY'
    if pkcs8:
        alg = bytes.fromhex('300d06092a864886f70d0101010500')
        body = der_int(0) + alg + b'\x04' + der_len(len(der)) + der
        der = b'\x30' + der_len(len(body)) + body
        label = 'PRIVATE KEY'
    b64 = base64.b64encode(der).decode()
    return '-----BEGIN %s-----\n%s\n-----END %s-----\n' % (
        label, '\n'.join(b64[i:i + 64] for i in range(0, len(b64), 64)), label)


def construction_paths(ctx, quick):
    """(path name, thunk -> key object).  The integers of the fixed-prime keys are used wherever the path takes
    integers; generate()/generateRSAKey() draw their own (deterministically, through loop.DetRandom)."""
    import copy
    import loop
    from tlslite.utils.python_rsakey import Python_RSAKey
    from tlslite.utils import keyfactory
    out = []
    for name in ([512, 1096] if quick else [96, 512, 1096, 1104, 2048]):
        src = get_key(name)
        I = dict(n=int(src.n), e=int(src.e), d=int(src.d), p=int(src.p), q=int(src.q), dP=int(src.dP), dQ=int(src.dQ),
                 qInv=int(src.qInv))
        ints = [I[x] for x in ('n', 'e', 'd', 'p', 'q', 'dP', 'dQ', 'qInv')]

        def empty_then_assign(I=I):
            k = Python_RSAKey()
            for a, v in I.items():
                setattr(k, a, v)
            return k

        def used(f, I=I):
            k = Python_RSAKey(**I)
            f(k)
            return k
        tag = '%s' % name
        out += [
            ('integers-full/' + tag, lambda I=I: Python_RSAKey(**I)),
            ('integers-derive-crt/' + tag, lambda I=I: Python_RSAKey(I['n'], I['e'], I['d'], I['p'], I['q'])),
            ('integers-derive-d/' + tag, lambda I=I: Python_RSAKey(I['n'], I['e'], 0, I['p'], I['q'])),
            ('empty-then-assign/' + tag, empty_then_assign),
            ('parsePEMKey-pkcs1/' + tag, lambda ints=ints: keyfactory.parsePEMKey(pem_of(ints, False), private=True,
                                                                                 implementations=['python'])),
            ('parsePEMKey-pkcs8/' + tag, lambda ints=ints: keyfactory.parsePEMKey(pem_of(ints, True), private=True,
                                                                                 implementations=['python'])),
            ('parsePrivateKey-pkcs8/' + tag, lambda ints=ints: keyfactory.parsePrivateKey(pem_of(ints, True))),
            ('Python_RSAKey.parsePEM/' + tag, lambda ints=ints: Python_RSAKey.parsePEM(pem_of(ints, False))),
            ('copy.copy-fresh/' + tag, lambda I=I: copy.copy(Python_RSAKey(**I))),
            ('copy.copy-used/' + tag, lambda I=I: copy.copy(used(lambda k: k.decrypt(bytearray(kbytes(I['n'])))))),
            ('after-encrypt/' + tag, lambda I=I: used(lambda k: k.encrypt(bytearray(b'x')))),
            ('after-hashAndSign/' + tag, lambda I=I: used(lambda k: k.hashAndSign(bytearray(b'abc')))),
        ]
    for bits in ([256, 512] if quick else [128, 256, 512, 768, 1024]):
        seed = ctx.rng.randrange(1, 2 ** 31)

        def gen(f, bits=bits, seed=seed):
            det = loop.DetRandom(seed).install()
            try:
                return f(bits)
            finally:
                det.uninstall()
        out.append(('generate/%d' % bits, lambda gen=gen: gen(Python_RSAKey.generate)))
        out.append(('generateRSAKey/%d' % bits,
                    lambda gen=gen: gen(lambda b: keyfactory.generateRSAKey(b, implementations=['python']))))
    out.append(('parsePEMKey-tests-serverX509Key', lambda: get_key_fresh_pem()))
    return out


def get_key_fresh_pem():
    from tlslite.utils.keyfactory import parsePEMKey
    with open(os.path.join(vlib.REPO, 'tests', 'serverX509Key.pem')) as f:
        return parsePEMKey(f.read(), private=True, implementations=['python'])


def construction_stage(ctx, quick):
    """'same integers => same decrypt() on every ciphertext' and '_key_hash is missing/empty or SHA-256(d)', on every
    construction path.  Returns (found, cases, impls) -- the cases also go through the Coq model and spec."""
    found = False
    cases, impls = [], []
    rng = ctx.rng
    for path, thunk in construction_paths(ctx, quick):
        try:
            key = thunk()
        except Exception as e:  # noqa
            ctx.log('construction path %s not available: %s: %s' % (path, type(e).__name__, str(e)[:120]))
            ctx.count('decrypt-per-construction-path', 1, [(path, 'unavailable')])
            continue
        n, d, k = int(key.n), int(key.d), kbytes(key.n)
        want_hash = hashlib.sha256(d.to_bytes(k, 'big')).digest()
        ems = [('valid', pkcs(rng, k, bytes(rng.randrange(256) for _ in range(min(20, k - 11))))),
               ('no-separator', b'\x00\x02' + nz(rng, k - 2)),
               ('second-byte-not-2', b'\x00\x01' + nz(rng, k - 3) + b'\x00'),
               ('zero-in-first-8-ps', b'\x00\x02' + nz(rng, 3) + b'\x00' + nz(rng, k - 7) + b'\x00')]
        todo = [(cls, enc_em(key, em), em) for cls, em in ems]
        while True:
            ct = bytes(rng.randrange(256) for _ in range(k))
            if int.from_bytes(ct, 'big') < n:
                todo.append(('ct-random', ct, None))
                break
        p0 = path.split('/')[0]
        for cls, ct, em in todo:
            c = dict(key=path, keyobj=key, cls='via:%s:%s' % (p0, cls), ct=ct, forced=None, em=em, path=path,
                     ints={a: '%x' % int(getattr(key, a)) for a in ('n', 'e', 'd', 'p', 'q', 'dP', 'dQ', 'qInv')})
            r1 = run_decrypt(key, ct)
            r2 = run_decrypt(key, ct)
            cases.append(c)
            impls.append(r1)
            ctx.count('decrypt-per-construction-path', 1, [(path, cls)])
            cb = r1['cache_before']
            if cb not in (None, b'', want_hash) or r1['cache_after'] != want_hash:
                found = True
                which = 'before' if cb not in (None, b'', want_hash) else 'after'
                val = cb if which == 'before' else r1['cache_after']
                ctx.violation('key-hash-invariant:%s' % p0,
                              'a key object obtained through %s carries _key_hash = %s %s decrypt(); the invariant is '
                              '"missing, empty or SHA-256(I2OSP(d,k))" = %s%s: the synthetic message for invalid padding is not '
                              'keyed with the private exponent' % (
                                  path, None if val is None else val.hex(), which, want_hash.hex(),
                                  ' (it is SHA-256 of the empty string, a public constant)'
                                  if val == hashlib.sha256(b'').digest() else ''),
                              dict(kind='construct', path=path, case=jcase(c)))
            if check_decrypt_oracle(ctx, c, r1, r2):
                found = True
    return found, cases, impls


# --------------------------------------------------------------------------- private operation (translation validation)
def privop_cases(ctx, quick):
    """real Python_RSAKey._rawPrivateKeyOp with recorded oracles, cold (first pass) and warm"""
    import tlslite.utils.python_rsakey as prk
    import c11_conc
    lits, meta = [], []
    for name in ([88, 512, 'pem'] if quick else [88, 96, 512, 1024, 1096, 'pem', 3072]):
        key = c11_conc.fresh_key(get_key(name))
        n, e = int(key.n), int(key.e)
        for step in range(3):
            m = ctx.rng.randrange(0, n)
            rec = {'h': [], 'g': (-2, -2, -2), 'i': (-2, -2, -2), 'p': (-2, -2, -2, -2)}
            orig = (prk.getRandomNumber, prk.invMod, prk.powMod)

            def grn(a, b):
                v = orig[0](a, b)
                rec['g'] = (int(a), int(b), int(v))
                return v

            def inv(a, b):
                v = orig[1](a, b)
                rec['i'] = (int(a), int(b), int(v))
                return v

            def pw(a, b, c):
                v = orig[2](a, b, c)
                rec['p'] = (int(a), int(b), int(c), int(v))
                return v

            def helper(x, _k=key):
                v = type(_k)._rawPrivateKeyOpHelper(_k, x)
                rec['h'].append((int(x), int(v)))
                return v
            b0, u0 = int(key.blinder), int(key.unblinder)
            prk.getRandomNumber, prk.invMod, prk.powMod = grn, inv, pw
            key._rawPrivateKeyOpHelper = helper
            try:
                c = int(key._rawPrivateKeyOp(m))
            finally:
                prk.getRandomNumber, prk.invMod, prk.powMod = orig
                del key._rawPrivateKeyOpHelper
            h = hexlit
            lits.append('(%s, %s, %s, %s, %s, [%s], (%s,%s,%s), (%s,%s,%s), (%s,%s,%s,%s), (%s,%s,%s))' % (
                h(n), h(e), h(b0), h(u0), h(m), ';'.join('(%s,%s)' % (h(a), h(b)) for a, b in rec['h']),
                h(rec['g'][0]), h(rec['g'][1]), h(rec['g'][2]), h(rec['i'][0]), h(rec['i'][1]), h(rec['i'][2]),
                h(rec['p'][0]), h(rec['p'][1]), h(rec['p'][2]), h(rec['p'][3]),
                h(c), h(int(key.blinder)), h(int(key.unblinder))))
            meta.append((name, 'cold' if b0 == 0 else 'warm'))
            # the property of the operation itself: c = m^d mod n
            if c != pow(m, int(key.d), n):
                ctx.violation('privop-wrong-result', '_rawPrivateKeyOp(%d) != m^d mod n for key %s' % (m, name),
                              dict(kind='privop', rsa_key=str(name), m=m))
    return lits, meta


# --------------------------------------------------------------------------- long histories of ONE key object
KEY_ATTRS = {'n', 'e', 'd', 'p', 'q', 'dP', 'dQ', 'qInv', 'blinder', 'unblinder', '_lock', 'key_type', '_key_hash'}


def state_vector_obligation(ctx):
    """every attribute of a key object is one the models know (n, e, d, CRT values, the blinding pair, the lock,
    key_type, _key_hash): a new attribute is new object state the theorems say nothing about -> broken tie"""
    import c11_conc
    key = c11_conc.fresh_key(get_key(512))
    k = kbytes(key.n)
    seen = set(vars(key))
    key.decrypt(bytearray(enc_em(key, pkcs(ctx.rng, k, b'x'))))
    key.hashAndSign(bytearray(b'abc'))
    seen |= set(vars(key))
    extra = sorted(seen - KEY_ATTRS)
    if extra:
        return 'Python_RSAKey objects carry attribute(s) %s that no C11 model knows (object state outside the theorems)' % extra
    return None


def history_plan(i, offset):
    return ('valid', 'invalid', 'sign', 'valid')[(i + 1 + offset) % 4]


def history_stage(ctx, quick):
    """several hundred private-key operations on ONE key object (cold start): validly padded ciphertexts, invalid
    ones and signatures interleaved; every decrypt must equal the property oracle, every signature must verify
    (public operation), whatever the position in the history.  Returns (found, tie message or None)."""
    import c11_conc
    rng = ctx.rng
    found, tie = False, None
    plans = [(512, 600, 0)] if quick else [(512, 1100, 0), (512, 600, 1), (512, 600, 2), (96, 600, 0), (1096, 300, 3), ('pem', 300, 0)]
    for name, nops, offset in plans:
        src = get_key(name)
        key = c11_conc.fresh_key(src)
        n, d, k = int(key.n), int(key.d), kbytes(key.n)
        room = k - 11
        prev = None
        for i in range(nops):
            cls = history_plan(i, offset)
            if cls == 'sign' and k < 62:
                cls = 'valid'                      # a SHA-1 DigestInfo does not fit the tiny keys
            if cls == 'valid':
                msg = bytes(rng.randrange(256) for _ in range(rng.randrange(0, room + 1)))
                em = pkcs(rng, k, msg)
            elif cls == 'invalid':
                em = b'\x00\x02' + nz(rng, k - 2) if i % 8 < 4 else b'\x00\x01' + nz(rng, k - 3) + b'\x00'
            b0, u0 = int(key.blinder), int(key.unblinder)
            if cls == 'sign':
                data = bytes(rng.randrange(256) for _ in range(16))
                try:
                    sig = key.hashAndSign(bytearray(data))
                    ok = bool(key.hashAndVerify(sig, bytearray(data)))
                    got = 'signature verifies' if ok else 'signature does NOT verify'
                except Exception as e:  # noqa
                    ok, got = False, 'EXC:%s:%s' % (type(e).__name__, e)
                want = 'signature verifies'
                ct = data
            else:
                ct = enc_em(key, em)
                want = o_decrypt(n, d, ct, em)
                try:
                    r = key.decrypt(bytearray(ct))
                    got = None if r is None else bytes(r)
                except Exception as e:  # noqa
                    got = 'EXC:%s:%s' % (type(e).__name__, e)
                ok = got == want
            ctx.count('decrypt-long-history', 1, [(name, offset, cls, min(i // 64, 20))])
            if not ok:
                found = True
                fmt = lambda x: x.hex() if isinstance(x, (bytes, bytearray)) else repr(x)
                ctx.violation('decrypt-history:%s' % cls,
                              'private-key operation #%d on ONE %s-bit key object (history: %d operations before it, pattern '
                              'valid/invalid/sign interleaved, cold start): %s gives %s instead of %s -- the result depends on '
                              'the history of the key object, not only on key and input'
                              % (i + 1, name, i, {'valid': 'a validly padded ciphertext', 'invalid': 'an invalidly padded ciphertext',
                                                  'sign': 'hashAndSign'}[cls], fmt(got), fmt(want)),
                              dict(kind='history', rsa_key=str(name), nops=i + 1, offset=offset, cls=cls, input=ct.hex(),
                                   how='harness/props/C11.py replay: repeats the deterministic history up to this operation'))
                break
            # the state law of the model (tie, not property): the pair is squared by every operation
            b1, u1 = int(key.blinder), int(key.unblinder)
            if b0 != 0 and (b1, u1) != (b0 * b0 % n, u0 * u0 % n) and tie is None:
                tie = ('blinding pair after operation #%d on a %s-bit key object is not the square of the pair before it '
                       '(model: Proofs/C11_PrivOp.next_pair)' % (i + 1, name))
    return found, tie


def history_model_cases(ctx, quick):
    """run_ops (generated _rawPrivateKeyOp iterated) against consecutive real private operations of one object:
    results and the final blinding pair; also the closed form (b^(2^k), u^(2^k)) mod n"""
    import tlslite.utils.python_rsakey as prk
    import c11_conc
    lits, meta, tie = [], [], None
    for name, steps in ([(96, 40), (512, 24)] if quick else [(88, 60), (96, 300), (512, 80), (1096, 30)]):
        key = c11_conc.fresh_key(get_key(name))
        n, e = int(key.n), int(key.e)
        for phase in ('cold', 'warm'):
            rec = {'h': {}, 'g': (-2, -2, -2), 'i': (-2, -2, -2), 'p': (-2, -2, -2, -2)}
            orig = (prk.getRandomNumber, prk.invMod, prk.powMod)

            def grn(a, b):
                v = orig[0](a, b)
                rec['g'] = (int(a), int(b), int(v))
                return v

            def inv(a, b):
                v = orig[1](a, b)
                rec['i'] = (int(a), int(b), int(v))
                return v

            def pw(a, b, c):
                v = orig[2](a, b, c)
                rec['p'] = (int(a), int(b), int(c), int(v))
                return v

            def helper(x, _k=key):
                v = type(_k)._rawPrivateKeyOpHelper(_k, x)
                rec['h'][int(x)] = int(v)
                return v
            b0, u0 = int(key.blinder), int(key.unblinder)
            ms = [ctx.rng.randrange(0, n) for _ in range(steps)]
            prk.getRandomNumber, prk.invMod, prk.powMod = grn, inv, pw
            key._rawPrivateKeyOpHelper = helper
            try:
                rs = [int(key._rawPrivateKeyOp(m)) for m in ms]
            finally:
                prk.getRandomNumber, prk.invMod, prk.powMod = orig
                del key._rawPrivateKeyOpHelper
            b1, u1 = int(key.blinder), int(key.unblinder)
            if b0 != 0 and (b1, u1) != (pow(b0, 2 ** steps, n), pow(u0, 2 ** steps, n)) and tie is None:
                tie = 'after %d operations the blinding pair of a %s-bit key is not (b^(2^k), u^(2^k)) mod n' % (steps, name)
            h = hexlit
            lits.append('(%s, %s, %s, %s, [%s], [%s], (%s,%s,%s), (%s,%s,%s), (%s,%s,%s,%s), [%s], (%s,%s))' % (
                h(n), h(e), h(b0), h(u0), ';'.join(h(m) for m in ms),
                ';'.join('(%s,%s)' % (h(a), h(b)) for a, b in rec['h'].items()),
                h(rec['g'][0]), h(rec['g'][1]), h(rec['g'][2]), h(rec['i'][0]), h(rec['i'][1]), h(rec['i'][2]),
                h(rec['p'][0]), h(rec['p'][1]), h(rec['p'][2]), h(rec['p'][3]),
                ';'.join(h(r) for r in rs), h(b1), h(u1)))
            meta.append((name, phase, steps))
    return lits, meta, tie


# --------------------------------------------------------------------------- determinism under concurrency
def conc_stage(ctx, quick):
    """Forced interleavings of 2-3 decrypt() calls on one key object.  Returns True if a violation was reported."""
    import c11_conc
    rng = ctx.rng
    found = False
    for name in ([512, 'pem'] if quick else [96, 512, 1096, 'pem', 2048]):
        key = get_key(name)
        n, d, k = int(key.n), int(key.d), kbytes(key.n)
        room = k - 11                    # longest message the key can carry (1 byte for the 96-bit key)
        if room < 1:
            continue
        msgs = {'A': (b'thread-A ' + bytes(rng.randrange(256) for _ in range(8)))[:room],
                'B': (b'thread-B ' + bytes(rng.randrange(256) for _ in range(20)))[:room],
                'C': (b'C' + bytes(rng.randrange(256) for _ in range(3)))[:room]}
        cts = {t: enc_em(key, pkcs(rng, k, m)) for t, m in msgs.items()}
        bad_em = b'\x00\x02' + nz(rng, k - 2)                       # no separator
        probe_valid = enc_em(key, pkcs(rng, k, (b'probe ' + bytes(rng.randrange(256) for _ in range(10)))[:room]))
        probe_msg = o_unpad(pow(int.from_bytes(probe_valid, 'big'), d, n).to_bytes(k, 'big'))
        probe_invalid = enc_em(key, bad_em)
        probes = [probe_valid, probe_invalid]
        want_probes = [probe_msg, o_decrypt(n, d, probe_invalid, bad_em)]
        three = (name == 512) or not quick
        for warm in (True, False):
            pts = c11_conc.access_points(key, cts['A'], warm, probe_valid)
            ctx.count('decrypt-concurrent-forced-schedules', 1, [(name, warm, 'access-points', len(pts))])
            plans = []
            for (_t, i, kind, field) in pts:
                plans.append(({'A': (i, 'B')}, ('A', 'B'), '%s-%s' % (kind, field)))
                if three:
                    for j in (0, 2, 3, 4):
                        plans.append(({'A': (i, 'B'), 'B': (j, 'C')}, ('A', 'B', 'C'), '%s-%s' % (kind, field)))
            for triggers, names, where in plans:
                sub = {t: cts[t] for t in names}
                # B sometimes decrypts the invalid ciphertext: its synthetic message must not change either
                expect = {t: msgs[t] for t in names}
                if len(names) == 2 and rng.random() < 0.3:
                    sub['B'] = probe_invalid
                    expect['B'] = want_probes[1]
                out = c11_conc.run_schedule(key, sub, triggers, warm, probes)
                ctx.count('decrypt-concurrent-forced-schedules', 1, [(name, warm, where, len(names))])
                wrong = [(t, out['res'].get(t)) for t in names if t in out['res'] and out['res'][t] != expect[t]]
                wrong_p = [(i, r) for i, (r, w) in enumerate(zip(out['probe_res'], want_probes)) if r != w]
                if wrong or wrong_p:
                    found = True
                    fmt = lambda x: x.hex() if isinstance(x, (bytes, bytearray)) else repr(x)
                    what = ('decrypt is not a function of key and ciphertext under concurrency (key %s, blinding %s): '
                            'with the schedule "after thread A\'s access #%d to the blinding pair (%s) run thread B%s" '
                            % (name, 'initialised' if warm else 'not yet initialised', triggers['A'][0], where,
                               '' if 'B' not in triggers else ', after B\'s access #%d run thread C' % triggers['B'][0]))
                    if wrong:
                        what += ': ' + '; '.join('thread %s got %s instead of %s' % (t, fmt(r), fmt(expect[t])) for t, r in wrong)
                    if wrong_p:
                        what += '; afterwards the same key object decrypts %s to %s' % (
                            'a valid ciphertext' if wrong_p[0][0] == 0 else 'an invalid ciphertext', fmt(wrong_p[0][1]))
                    ctx.violation('decrypt-conc:%s' % where, what,
                                  dict(kind='conc', rsa_key=str(name), warm=warm, triggers={t: list(v) for t, v in triggers.items()},
                                       cts={t: c.hex() for t, c in sub.items()}, expect={t: fmt(v) for t, v in expect.items()},
                                       probes=[p.hex() for p in probes], want_probes=[fmt(w) for w in want_probes],
                                       schedule_log=[list(map(str, e)) for e in out['log']],
                                       how='harness/props/C11.py replay -> c11_conc.run_schedule'))
        # free-running threads (no forced schedule)
        allc = [cts['A'], cts['B'], cts['C'], probe_invalid, probe_valid]
        exp = [msgs['A'], msgs['B'], msgs['C'], want_probes[1], probe_msg]
        bad = c11_conc.free_running(key, allc, exp, 3, 2 if quick else 6)
        ctx.count('decrypt-concurrent-free-running', 3 * (2 if quick else 6) * len(allc), [(name, 'free')])
        if bad:
            found = True
            ctx.violation('decrypt-conc:free-running', 'three free-running threads on one key object (%s): ciphertext #%d decrypts '
                          'to %r instead of %r' % (name, bad[0][0], bad[0][1], exp[bad[0][0]]),
                          dict(kind='conc-free', rsa_key=str(name), cts=[c.hex() for c in allc]))
    return found


# --------------------------------------------------------------------------- run
def run(ctx):
    quick = ctx.tier == 'quick'
    # one report per failing class (key): later hits of the same key are only counted
    seen, raw_violation = {}, ctx.violation

    def violation_once(key, what, replay, found_input=True):
        seen[key] = seen.get(key, 0) + 1
        if seen[key] > 1:
            return True
        return raw_violation(key, what, replay, found_input)
    ctx.violation = violation_once
    tie_broken = None
    for u in ('ConstantTime', 'C11_RsaDecrypt', 'C11_RsaKex', 'C11_RsaPrivOp'):
        try:
            ok, msg = units.generate(u, vlib.COQ)
        except Exception as e:  # noqa  (a translator crash is a broken tie, never the end of the check)
            ok, msg = False, 'translator crashed on %s: %s: %s' % (u, type(e).__name__, e)
            try:
                os.unlink(os.path.join(vlib.COQ, 'Gen', u + '.v'))
            except OSError:
                pass
        ctx.log('translator: %s' % msg)
        if not ok:
            tie_broken = tie_broken or msg
    res = vlib.proof_stage(ctx, 'Props/C11.v', model_targets=MODEL_TARGETS)
    ctx.log('proof stage ok=%s failing=%s' % (res['ok'], res['failing']))
    ctx.cov['trusted_base'] = [
        'Coq 8.16.1 kernel + vm_compute (case evaluation)',
        'translator/pylite.py + translator/pylite_c11.py (Python ast -> Gallina; semantics in their docstrings), validated on every run',
        'Base/C11_Lib.v: hand models of numBits, numBytes, numberToByteArray, bytesToNumber, iterator/while idioms (validated on every run)',
        'oracles: SHA-256, HMAC-SHA256 (32 output bytes), the key object\'s private operation (non-negative result), getRandomBytes',
        'RSAKey._key_hash cache is coherent with d (caching idiom translated as a let)',
        'Python_RSAKey._rawPrivateKeyOp: state-passing model valid under the lexical lock obligation (checked every run); '
        'hypotheses on the key: CRT helper multiplicative mod n, fresh blinding pair consistent (H-rsa-key)',
        'Spec/C11_Pkcs1Dec.v as the reading of PKCS#1 v1.5 + implicit rejection (draft-irtf-cfrg-rsa-guidance)',
        'Model/C11_ServerTail.v: hand model of the server tail with abstract cryptography, tied by live handshakes only',
    ]
    ctx.assumptions += ['11 <= numBytes(n) <= 65535 (80-bit to 524280-bit moduli); key has a private part and key_type "rsa"',
                        'HMAC-SHA256 returns 32 bytes; private operation returns a non-negative integer',
                        'server model: the client Finished record does not authenticate under keys derived from the '
                        'server\'s random premaster (the attacker cannot guess 46+ random bytes)',
                        'no claim about timing or memory-access side channels']
    found = False
    # ---------------- the property on the implementation (search oracle; independent of Coq)
    cases = gen_decrypt_cases(ctx, quick)
    impls = []
    for c in cases:
        key = get_key(c['key'])
        r1 = run_decrypt(key, c['ct'])
        r2 = run_decrypt(key, c['ct'])
        impls.append(r1)
        kind = 'none' if r1['out'] is None else 'len%d' % min(len(r1['out']), 64)
        ctx.count('decrypt-impl-vs-property-oracle', 1, [(c['key'], c['cls'], kind)],
                  sample=jcase(c) if len(impls) % 61 == 1 else None)
        if check_decrypt_oracle(ctx, c, r1, r2):
            found = True
        # cache coherence of _key_hash (anchored state)
        kh = getattr(key, '_key_hash', None)
        if kh is not None and bytes(kh) != hashlib.sha256(int(key.d).to_bytes(kbytes(key.n), 'big')).digest():
            found = True
            ctx.violation('key-hash-incoherent', '_key_hash is not SHA-256 of d for key %s' % c['key'],
                          dict(kind='decrypt', case=jcase(c)))
    ctx.log('decrypt vs property oracle: %d ciphertexts (x2 for determinism)' % len(cases))
    # same ciphertext, every block class forced through the private operation
    groups = gen_forced_groups(ctx, quick)
    forced_cases, forced_impls = [], []
    for g in groups:
        key = get_key(g['key'])
        n, d = int(key.n), int(key.d)
        synth = None
        for cls, em in g['ems']:
            c = dict(key=g['key'], cls='forced:' + cls, ct=g['ct'], forced=em, em=em)
            r1 = run_decrypt(key, g['ct'], forced_em=em)
            r2 = run_decrypt(key, g['ct'], forced_em=em)
            forced_cases.append(c)
            forced_impls.append(r1)
            valid = o_unpad(em) is not None
            ctx.count('decrypt-forced-block-cross-class', 1, [(g['key'], cls, valid)])
            if check_decrypt_oracle(ctx, c, r1, r2):
                found = True
                continue
            if not valid:
                # exact equality across defect classes under the same PRF stream (message and hence length)
                if synth is None:
                    synth = (cls, r1['out'])
                elif r1['out'] != synth[1]:
                    found = True
                    ctx.violation('decrypt-defect-dependent:%s' % cls,
                                  'for the same ciphertext the result for defect class %s (%s) differs from the result for '
                                  'class %s (%s): the padding error kind is observable'
                                  % (cls, r1['out'].hex(), synth[0], synth[1].hex()),
                                  dict(kind='decrypt', case=jcase(c), other_class=synth[0]))
    ctx.log('forced-block groups: %d ciphertexts x ~%d block classes' % (len(groups), len(groups[0]['ems']) if groups else 0))
    # key exchange
    kcases = gen_kex_cases(ctx, quick)
    kimpls = []
    for c in kcases:
        r = run_kex(c['r'], c['rnd'], c['cv'], c['sv'])
        kimpls.append(r)
        want = kex_oracle(c)
        ctx.count('kex-impl-vs-property-oracle', 1, [(c['cv'], c['sv'], c['cls'])])
        rep = dict(kind='kex', case=dict(cls=c['cls'], r=None if c['r'] is None else c['r'].hex(), rnd=c['rnd'].hex(),
                                         cv=list(c['cv']), sv=list(c['sv'])))
        if r['exc']:
            found = True
            ctx.violation('kex-raises:%s' % c['cls'], 'processClientKeyExchange raises %s when decrypt returns class %s'
                          % (r.get('excname'), c['cls']), rep)
        elif r['out'] is None or len(r['out']) != 48 or r['out'] != want or r['calls'] != [48]:
            found = True
            used = ('the DECRYPTED value' if r['out'] == c['r'] else 'the random premaster' if r['out'] == c['rnd']
                    else repr(None if r['out'] is None else r['out'].hex()))
            ctx.violation('kex!=spec:%s' % c['cls'],
                          'processClientKeyExchange uses %s for a ClientKeyExchange whose decrypted premaster is of class %s '
                          '(premaster version bytes %r, ClientHello.client_version %r, negotiated version %r, %s bytes); '
                          'the property says %s: a malformed premaster is treated differently from the other malformations'
                          % (used, c['cls'], None if not c['r'] else tuple(c['r'][:2]), c['cv'], c['sv'],
                             None if c['r'] is None else len(c['r']),
                             'the decrypted value' if want == c['r'] else 'the random premaster'), rep)
    ctx.log('kex vs property oracle: %d cases' % len(kcases))
    # every way a key object comes into existence: same integers => same decrypt(); _key_hash invariant
    cfound, ccases, cimpls = construction_stage(ctx, quick)
    found = found or cfound
    ctx.log('construction paths: %d decrypts' % len(ccases))
    # long histories of one key object; object state vector
    hfound, htie = history_stage(ctx, quick)
    found = found or hfound
    tie_broken = tie_broken or htie or state_vector_obligation(ctx)
    ctx.log('history stage done')
    # determinism of decrypt when one key object is shared by threads (forced schedules)
    if conc_stage(ctx, quick):
        found = True
    ctx.log('concurrency stage done')
    # ---------------- generated models and Coq spec on the same cases
    if res['model_ok'] and tie_broken is None:
        # quick: one representative ciphertext class per construction path goes through Coq (all of them went
        # through the direct oracle above); thorough: all
        keep = [i for i, c in enumerate(ccases) if not quick or c['cls'].endswith(':no-separator')]
        allc = cases + forced_cases + [ccases[i] for i in keep]
        alli = impls + forced_impls + [cimpls[i] for i in keep]
        lits = [decrypt_lit(key_of(c), c['ct'], i) for c, i in zip(allc, alli)]
        (bad_model, bad_spec), errs = robust_bad_indices(
            'C11', IMPORTS, 'CaseT', ['chk_model', 'chk_spec'], lits,
            shard=max(8, (len(lits) + 15) // 16) if quick else 60, preamble=PREAMBLE,
            timeout=900 if quick else 2700)
        ctx.count('decrypt-model-vs-impl(vm_compute)', len(lits), [('agree', len(lits) - len(bad_model))])
        for e in errs:
            tie_broken = 'case evaluation failed: ' + e[:400]
        for i in bad_model[:5]:
            ctx.log('model/impl disagreement on decrypt case %s' % jcase(allc[i]))
            if not found:
                tie_broken = 'generated decrypt disagrees with implementation on case %s' % jcase(allc[i])
        for i in bad_spec[:5]:
            found = True
            ctx.violation('coq-spec!=impl:%s' % allc[i]['cls'], 'Spec.C11_Pkcs1Dec.spec_decrypt disagrees with RSAKey.decrypt '
                          '(class %s, key %s)' % (allc[i]['cls'], allc[i]['key']),
                          dict(kind='decrypt', case=jcase(allc[i]),
                               impl=None if alli[i]['out'] is None else alli[i]['out'].hex()))
        klits = [kex_lit(c, i) for c, i in zip(kcases, kimpls)]
        (badk, badks), errs = robust_bad_indices('C11k', IMPORTS, 'KexT', ['chk_kex', 'chk_kex_spec'], klits,
                                                   shard=max(8, (len(klits) + 7) // 8), preamble=PREAMBLE)
        ctx.count('kex-model-vs-impl(vm_compute)', len(klits), [('agree', len(klits) - len(badk))])
        for e in errs:
            tie_broken = 'kex case evaluation failed: ' + e[:400]
        for i in badk[:3]:
            if not found:
                tie_broken = 'generated processClientKeyExchange disagrees with implementation on %s' % kcases[i]['cls']
        for i in badks[:3]:
            found = True
            ctx.violation('coq-kex-spec!=impl:%s' % kcases[i]['cls'], 'Model.C11_ServerTail.kex_spec disagrees with '
                          'processClientKeyExchange (class %s)' % kcases[i]['cls'], dict(kind='kex', cls=kcases[i]['cls']))
        pl, pm = privop_cases(ctx, quick)
        badp, errs = robust_bad_indices('C11p', IMPORTS, 'PrivT', 'chk_privop', pl, shard=6, preamble=PREAMBLE)
        ctx.count('privop-model-vs-impl(vm_compute)', len(pl), [m for m in pm])
        for e in errs:
            tie_broken = 'private-operation evaluation failed: ' + e[:400]
        for i in badp[:3]:
            tie_broken = 'generated rawPrivateKeyOp disagrees with Python_RSAKey._rawPrivateKeyOp (%s, %s)' % pm[i]
        if 'C11_RsaPrivOp' not in (tie_broken or ''):
            hl2, hm2, htie2 = history_model_cases(ctx, quick)
            tie_broken = tie_broken or htie2
            badhh, errs = robust_bad_indices('C11s', IMPORTS, 'HistT', 'chk_history', hl2, shard=1, preamble=PREAMBLE)
            ctx.count('privop-history-model-vs-impl(vm_compute)', sum(m[2] for m in hm2), [m for m in hm2])
            for e in errs:
                tie_broken = 'private-operation history evaluation failed: ' + e[:400]
            for i in badhh[:3]:
                tie_broken = 'run_ops (generated _rawPrivateKeyOp iterated) disagrees with %d consecutive real operations (%s, %s)' % (hm2[i][2], hm2[i][0], hm2[i][1])
        hl, hm = helper_cases(ctx, quick)
        badh, errs = robust_bad_indices('C11h', IMPORTS, 'bool', '(fun b : bool => b)', hl, shard=24, preamble=PREAMBLE)
        ctx.count('lib-helpers-model-vs-impl', len(hl), [(m[0],) for m in hm])
        for e in errs:
            tie_broken = 'helper evaluation failed: ' + e[:400]
        for i in badh[:3]:
            tie_broken = 'Base/C11_Lib.v %s disagrees with tlslite on %r' % hm[i]
    elif not res['model_ok']:
        tie_broken = tie_broken or ('generated model does not compile: %s' % res['failing'])
    # ---------------- live handshakes: wire behaviour across malformation classes
    import c11_live
    lfound, problems = c11_live.run_live(ctx, quick)
    found = found or lfound
    for p in problems[:3]:
        tie_broken = tie_broken or ('live harness problem: ' + p[:300])
    # the model's prediction: exactly one fatal bad_record_mac, provoked by the client's Finished record
    for (vs, name), bs in sorted(getattr(c11_live, 'LAST_COMMON', {}).items()):
        for b in bs:
            recs = b[0]
            if not (len(recs) == 1 and recs[0][0] == 2 and recs[0][1] == 21 and tuple(recs[0][4:6]) == (2, 20)):
                tie_broken = tie_broken or ('server model predicts [SendAlert 2 bad_record_mac] after the Finished record, '
                                            'live server shows %r for %s %s' % (b, vs, name))
    ctx.cov['rule'] = ('decrypt cases = for each of %d keys (88..3072-bit moduli incl. mask boundaries k-10=127/128): every '
                       'validity/defect class of the encoded block (valid lengths 0,1,48,max; first byte; second byte; zero '
                       'at each of PS positions 2..9; no separator; separator last/at 10; several defects; special blocks), '
                       'publicly invalid ciphertexts (>= n, wrong lengths), special ciphertexts; forced-block groups = one '
                       'ciphertext, every block class through the private operation; non-trivial/distinct = (key, class, '
                       'outcome kind); kex = versions x decrypt-result classes; live = (version, suite variant, class)'
                       % len(set(c['key'] for c in cases)))
    if tie_broken and not found:
        ctx.violation('tie-broken', tie_broken, {'correspondence': 'Gen/C11_RsaDecrypt.v, Gen/C11_RsaKex.v vs tlslite/utils/rsakey.py, '
                                                 'tlslite/keyexchange.py; Model/C11_ServerTail.v vs live server',
                                                 'detail': tie_broken}, found_input=False)
        found = True
    vlib.broken_proof_verdict(ctx, res, found)


def replay(ctx, path):
    with open(path) as f:
        r = json.load(f)
    if 'variant' in r:
        import c11_live
        return c11_live.replay_live(r)
    if r.get('kind') == 'conc':
        import c11_conc
        name = r['rsa_key'] if r['rsa_key'] == 'pem' else int(r['rsa_key'])
        key = get_key(name)
        out = c11_conc.run_schedule(key, {t: bytes.fromhex(c) for t, c in r['cts'].items()},
                                    {t: tuple(v) for t, v in r['triggers'].items()}, r['warm'],
                                    [bytes.fromhex(p) for p in r['probes']])
        fmt = lambda x: x.hex() if isinstance(x, (bytes, bytearray)) else repr(x)
        got = {t: fmt(v) for t, v in out['res'].items()}
        gp = [fmt(v) for v in out['probe_res']]
        for e in out['log']:
            print('  ', e)
        print('results :', got)
        print('expected:', r['expect'])
        print('probes  :', gp, 'expected', r['want_probes'])
        return 0 if (all(got.get(t) == v for t, v in r['expect'].items() if t in got) and gp == r['want_probes']) else 1
    if r.get('kind') == 'history':
        name = r['rsa_key'] if r['rsa_key'] == 'pem' else int(r['rsa_key'])
        # the history is a deterministic function of the seed: re-run the stage restricted to this plan
        import c11_conc
        key = c11_conc.fresh_key(get_key(name))
        n, d, k = int(key.n), int(key.d), kbytes(key.n)
        rng = ctx.rng
        bad = None
        for i in range(int(r['nops']) + 300):
            msg = bytes(rng.randrange(256) for _ in range(rng.randrange(0, k - 10)))
            ct = enc_em(key, pkcs(rng, k, msg))
            got = key.decrypt(bytearray(ct))
            if got is None or bytes(got) != msg:
                bad = (i + 1, msg.hex(), None if got is None else bytes(got).hex())
                break
        print('first wrong decryption of a validly padded ciphertext in %d consecutive operations on one key object: %r'
              % (int(r['nops']) + 300, bad))
        return 0 if bad is None else 1
    if r.get('kind') == 'kex':
        c = r['case']
        c2 = dict(cls=c['cls'], r=None if c['r'] is None else bytes.fromhex(c['r']), rnd=bytes.fromhex(c['rnd']),
                  cv=tuple(c['cv']), sv=tuple(c['sv']))
        out = run_kex(c2['r'], c2['rnd'], c2['cv'], c2['sv'])
        print('impl:', out, 'property:', kex_oracle(c2).hex())
        return 0 if (not out['exc'] and out['out'] == kex_oracle(c2)) else 1
    if r.get('kind') == 'decrypt':
        c = r['case']
        name = c['key'] if c['key'] == 'pem' else int(c['key'])
        key = get_key(name)
        ct = bytes.fromhex(c['ct'])
        forced = bytes.fromhex(c['forced']) if c.get('forced') else None
        out = run_decrypt(key, ct, forced_em=forced)
        em = forced
        if em is None:
            ems = list(out['raw'].values())
            em = ems[0].to_bytes(kbytes(key.n), 'big') if ems else b''
        want = o_decrypt(int(key.n), int(key.d), ct, em)
        print('impl:', None if out['out'] is None else out['out'].hex(), 'exc', out['exc'])
        print('property:', None if want is None else want.hex())
        return 0 if (not out['exc'] and out['out'] == want) else 1
    print('nothing to replay on the implementation: %s' % r.get('what'))
    return 1
