"""C04: tampering with the handshake in flight cannot yield two endpoints that disagree.

Theorems (coq/Props/C04.v): for ALL attacker functions on every flight, both endpoints completing
implies identical transcripts / keys / hellos / views (TLS<=1.2 full and abbreviated, TLS 1.3 full /
HRR / PSK; idealised PRF and hash: suffix _ideal); no downgrade; sentinel written (full + resumed) / checked; SCSV
enforced; second ClientHello bound.  Ties: (a) translator table of every transcript-update, sentinel,
SCSV, Finished-comparison site (obligation transcript_sites_as_modelled); (b) correspondence: an
on-path byte-level proxy between two live endpoints; the model's decision functions are evaluated by
vm_compute on the hellos the live endpoints sent/received and compared with what they did.
The property itself is checked directly on every live run (search oracle, independent of Coq)."""
import hashlib
import json
import multiprocessing
import os
import sys

import vlib
from vlib import zlit, listlit, boollit

sys.path.insert(0, os.path.join(vlib.ROOT, 'translator'))

LEVEL = 'proof'
META = {
    'text': 'Coq theorems (Props/C04.v) about a symbolic handshake model in which the attacker is an arbitrary function '
            'applied to every flight in both directions and the honest endpoints\' message contents are arbitrary oracles: '
            'if both endpoints complete then their transcripts, keys, hellos and negotiated views are equal (TLS<=1.2 full, '
            'abbreviated; TLS 1.3 full, HelloRetryRequest, PSK) and equal the server\'s answer to the honest offer; the '
            'downgrade sentinel is written (full and resumed ServerHello) and checked AT the ServerHello (full and abbreviated), FALLBACK_SCSV '
            'is enforced by the server and emitted by the client for every hello construction (with or without an offered '
            'session), so a fallback retry is refused end to end; the second ClientHello is bound to the first outside the '
            'HRR-permitted extensions. Tied to /repo by a '
            'regenerated site table and by a byte-level man-in-the-middle between live endpoints on which the property '
            'itself and the model\'s decision functions are checked.',
    'note': 'Idealisation (theorems with suffix _ideal): transcript hash and Finished/binder PRF injective, Finished values under '
            'an honest key cannot be produced by the attacker (hypothesis `unforgeable`; false for anonymous key exchange against '
            'a full man-in-the-middle, which the protocol does not claim to resist). Trusted: Coq kernel + vm_compute; '
            'translator/units_c04.py (ast walk); Model/C04_SitesExpected.v as the reading of which sites matter; the live proxy harness.',
    'technique': 'Rocq/Coq proof over hand-written symbolic model + regenerated site table + live man-in-the-middle correspondence',
}
S11 = bytes.fromhex('444f574e47524400')
S12 = bytes.fromhex('444f574e47524401')
HRR_RANDOM = bytes.fromhex('CF21AD74E59A6111BE1D8C021E65B891C2A211167ABB8C5E079E09E2C8A8339C')
MASKS = (0x01, 0x80, 0xff)
ALLOWED_BASELINE_DIFF = {'crandom', 'srandom', 'server_chain', 'client_chain', 'resumed'}
EMS_OFF_QUICK = ('tls12-rich', 'tls10-dhe', 'tls12-clientauth', 'tls12-ticket-issue', 'tls11-srp')
COMBOS = [('ch_strip_tls13', 'sh_strip_sentinel'), ('ch_max_tls11', 'sh_strip_sentinel'),
          ('ch_max_tls10', 'sh_strip_sentinel'), ('ch_versions_only_tls10', 'sh_strip_sentinel'),
          ('ch_strip_ems', 'sh_add_ems'), ('ch_add_ems', 'sh_strip_ems'), ('ch_strip_etm', 'sh_add_etm'),
          ('ch_add_etm', 'sh_strip_etm'), ('ch_only_last_suite', 'sh_change_suite'),
          ('ch_strip_alpn', 'sh_strip_alpn'), ('ch_strip_record_size_limit', 'sh_strip_record_size_limit'),
          ('ch_alpn_only_last', 'sh_alpn_alter'), ('ch_strip_tls13', 'sh_set_sentinel11')]


def vz(v):
    return v[0] * 256 + v[1]


def zid(b):
    return int.from_bytes(hashlib.sha256(bytes(b)).digest()[:6], 'big')


# ------------------------------------------------------------------------------------------
# the property, written directly (no reference to the code under test)
def rfc_sentinel(smax, v):
    """RFC 8446 4.1.3: what the last 8 bytes of ServerHello.random must be (None = unconstrained)"""
    if smax >= (3, 4) and v == (3, 3):
        return S12
    if smax >= (3, 3) and v < (3, 3):
        return S11
    return None


def rfc_client_must_abort(cmax, v, tail):
    if cmax >= (3, 4) and v <= (3, 3) and tail in (S11, S12):
        return True
    if cmax == (3, 3) and v < (3, 3) and tail == S11:
        return True
    return False


def sh_facts(mhex):
    import c04_proxy as P
    from tlslite.constants import ExtensionType
    m = bytes.fromhex(mhex)
    if m[:1] != b'\x02':
        return None
    try:
        sh = P.parse_sh(m)
    except Exception:  # noqa
        return None
    v = tuple(sh.server_version)
    e = sh.getExtension(ExtensionType.supported_versions)
    if v >= (3, 3) and e is not None:
        v = tuple(e.version)
    return {'hrr': bytes(sh.random) == HRR_RANDOM, 'v': v, 'tail': bytes(sh.random[-8:]), 'suite': sh.cipher_suite,
            'obj': sh}


def ch_facts(mhex):
    import c04_proxy as P
    from tlslite.constants import ExtensionType
    m = bytes.fromhex(mhex)
    if m[:1] != b'\x01':
        return None
    try:
        ch = P.parse_ch(m)
    except Exception:  # noqa
        return None
    hi = tuple(ch.client_version)
    e = ch.getExtension(ExtensionType.supported_versions)
    if e is not None and e.versions:
        known = [tuple(x) for x in e.versions if tuple(x) in ((3, 0), (3, 1), (3, 2), (3, 3), (3, 4))]
        if known:
            hi = max(known)
    return {'scsv': 0x5600 in ch.cipher_suites, 'hi': hi, 'obj': ch}


def judge(sc, base, r, ops, held=False):
    """-> list of (key, what) property violations seen in this run"""
    out = []
    cmax, smax = tuple(sc['cs']['maxv']), tuple(sc['ss']['maxv'])
    if r.get('both'):
        diff = [k for k in r['diff'] if k not in base['baseline_diff']]
        if diff:
            out.append(('views-differ:' + ','.join(diff), 'both endpoints completed but their views differ in %s' % diff))
        vs = (r['vc']['version'], r['vc']['suite'])
        if vs != base['negotiated']:
            hv = base['negotiated'][0]          # None: the honest endpoints do not complete at all (refused fallback)
            kind = 'downgrade' if hv is not None and tuple(vs[0]) < tuple(hv) else 'changed'
            out.append(('negotiation-%s' % kind, 'both endpoints completed at %r but the honest endpoints negotiate %r'
                        % (vs, base['negotiated'])))
        if not r['hs_same']:
            out.append(('transcript-not-bound', 'both endpoints completed although plaintext handshake bytes were changed in flight'))
        if not r.get('data_ok'):
            out.append(('keys-differ', 'both endpoints completed but application data does not pass'))
    # sentinel written: every real ServerHello the server SENT
    first_real = True
    for mh in r['wire']['s2c']['sent']:
        f = sh_facts(mh)
        if f is None or f['hrr']:
            continue
        want = rfc_sentinel(smax, f['v'])
        if want is not None and f['tail'] != want:
            resumed = r['wire']['s2c']['nsent'] <= 1 and vz(f['v']) <= 0x303
            out.append(('sentinel-not-written:%s' % ('resumption-serverhello' if sc.get('resume') else 'full-handshake'),
                        'server (max %r) sent a ServerHello for %r whose random does not end in the RFC 8446 4.1.3 value'
                        % (smax, f['v'])))
        break
    # sentinel checked: the first real ServerHello DELIVERED to the client
    for mh in r['wire']['s2c']['dlv']:
        f = sh_facts(mh)
        if f is None or f['hrr']:
            continue
        if rfc_client_must_abort(cmax, f['v'], f['tail']):
            n_ch = len([m for m in r['wire']['c2s']['sent'] if m[:2] == '01'])
            if r['c'] == ('ok',):
                out.append(('sentinel-not-checked', 'client (max %r) completed on a ServerHello for %r carrying a downgrade sentinel'
                            % (cmax, f['v'])))
            elif r['wire']['c2s']['nsent'] > n_ch:
                # must hold even if the lower version's Finished cannot be trusted: stop AT the ServerHello
                out.append(('sentinel-not-checked', 'client (max %r) went on with the key exchange after a ServerHello for %r '
                            'carrying a downgrade sentinel' % (cmax, f['v'])))
            elif r['c'] != ('LocalAlert', 47) and not held:
                out.append(('@need-held-run', ''))       # decide WHERE it stopped: see work()
        break
    # SCSV emission (RFC 7507 sect. 4): a client configured to signal a fallback puts TLS_FALLBACK_SCSV in every hello
    if sc['cs'].get('sendFallbackSCSV'):
        for mh in r['wire']['c2s']['sent']:
            f = ch_facts(mh)
            if f is not None and not f['scsv']:
                out.append(('scsv-not-sent:%s' % ('session-offered' if sc.get('resume') else 'no-session'),
                            'client with sendFallbackSCSV=True sent a ClientHello without TLS_FALLBACK_SCSV'))
                break
    # fallback retry: both ends really support more than the retry offers -> they must never both complete
    if 'true_cmax' in sc and r.get('both'):
        common = min(tuple(sc['true_cmax']), smax)
        if tuple(r['vc']['version']) < common:
            out.append(('fallback-completed-below-common-max',
                        'fallback retry completed at %r although both endpoints support %r' % (r['vc']['version'], common)))
    # SCSV: the first ClientHello DELIVERED to the server
    for mh in r['wire']['c2s']['dlv'][:1]:
        f = ch_facts(mh)
        if f is not None and f['scsv'] and f['hi'] < smax and r['s'] == ('ok',):
            out.append(('scsv-ignored', 'server (max %r) completed although the ClientHello (highest %r) carries TLS_FALLBACK_SCSV'
                        % (smax, f['hi'])))
    return out


# ------------------------------------------------------------------------------------------
_SC = {}


def _scenarios():
    import c04_proxy as P
    if not _SC:
        _SC.update(P.scenarios())
    return _SC


def held_run(P, sc, ops, seed):
    """The client was handed a ServerHello it must refuse (RFC 8446 4.1.3) and it failed with something else than
    illegal_parameter.  Repeat the run but deliver NOTHING after that ServerHello: a client that enforces the sentinel at the
    ServerHello still raises its alert; one that only trips over a later message (Finished, key exchange) now just waits."""
    r2 = P.run_case(sc, [tuple(o) for o in ops] + [('hold_after_sh', 's2c')], seed=seed)
    if 'error' in r2:
        return []
    if r2['c'][0] in ('Deadlock', 'ok'):
        return [('sentinel-not-checked', 'client does not stop AT a ServerHello carrying a downgrade sentinel: with everything '
                 'after the ServerHello withheld it waits for more (%r) instead of sending its alert' % (r2['c'],))]
    return []


def work(job):
    """one attacked handshake + the direct oracle; runs in a pool process"""
    import c04_proxy as P
    name, ops, base, seed, keep = job
    sc = _scenarios()[name]
    try:
        r = P.run_case(sc, [tuple(o) for o in ops], seed=seed)
    except Exception as e:  # noqa
        import traceback
        return {'name': name, 'ops': ops, 'harness_error': traceback.format_exc()[-600:]}
    if 'error' in r:
        return {'name': name, 'ops': ops, 'harness_error': r['error']}
    try:
        viol = judge(sc, base, r, ops)
        if ('@need-held-run', '') in viol:
            viol = [v for v in viol if v[0] != '@need-held-run'] + held_run(P, sc, ops, seed)
    except Exception:  # noqa  an oracle bug must not hide the other cases: reported per case as a broken tie
        import traceback
        return {'name': name, 'ops': ops, 'harness_error': 'oracle failed: ' + traceback.format_exc()[-600:]}
    res = {'name': name, 'ops': ops, 'c': r['c'], 's': r['s'], 'both': r['both'], 'viol': viol,
           'applied': len([a for a in r['applied'] if a[0] != 'rw-error']), 'hs_same': r['hs_same']}
    if keep or viol:
        res['wire'] = r['wire']
        res['cmsg'], res['smsg'] = r['cmsg'], r['smsg']
        res['vc'], res['vs'] = r.get('vc'), r.get('vs')
    return res


def baseline(name):
    import c04_proxy as P
    sc = _scenarios()[name]
    r = P.run_case(sc, [], seed=1, want_trace=True)
    return r


# ------------------------------------------------------------------------------------------
def gen_jobs(ctx, name, b, quick):
    """all tamper cases of one scenario from its honest trace"""
    tr = b['trace']
    rng = ctx.rng
    sc = _scenarios()[name]
    jobs = []
    base = {'baseline_diff': b['diff'], 'negotiated': (b['vc']['version'], b['vc']['suite'])}
    # byte flips over every plaintext record (header included)
    for d in ('c2s', 's2c'):
        offs = []
        for rec in tr[d]['records']:
            if rec['plain']:
                offs += list(range(rec['off'], rec['off'] + rec['len']))
        if quick:
            stride = 40
            ph = rng.randrange(stride)
            sel = [(o, MASKS[(i + ph) % 3]) for i, o in enumerate(offs) if (i + ph) % stride == 0]
            # always the record/handshake headers and the version / random / suite region of the hellos
            sel += [(o, MASKS[o % 3]) for o in offs[:12]]
        else:
            sel = [(o, m) for o in offs for m in MASKS]
        for o, m in sel:
            jobs.append((name, [('flip', d, o, m)], base, 1, False))
    # whole-message operations
    import c04_proxy as P
    nmsg = {d: len(tr[d]['msgs']) for d in ('c2s', 's2c')}
    for d in ('c2s', 's2c'):
        for i in range(nmsg[d]):
            jobs.append((name, [('drop', d, i)], base, 1, False))
            jobs.append((name, [('dup', d, i)], base, 1, False))
            if i + 1 < nmsg[d]:
                jobs.append((name, [('swap', d, i)], base, 1, False))
            for k in sorted(P.INJECT):
                if quick and (i > 1 or k not in ('warning_alert', 'ccs', 'hello_request', 'heartbeat')):
                    continue
                jobs.append((name, [('inject', d, i, k)], base, 1, False))
    # semantic rewrites: every rewrite on every hello of the flow, plus combined two-sided attacks
    import c04_proxy as P
    n_ch = len([m for m in tr['c2s']['msgs'] if m[:2] == '01'])
    n_sh = len([m for m in tr['s2c']['msgs'] if m[:2] == '02'])
    ch_idx = [i for i, m in enumerate(tr['c2s']['msgs']) if m[:2] == '01']
    sh_idx = [i for i, m in enumerate(tr['s2c']['msgs']) if m[:2] == '02']
    class _Px(object):          # what a rewrite may look at: the hellos of the honest run
        msgs_in = {'c2s': [bytes.fromhex(m) for m in tr['c2s']['msgs']], 's2c': [bytes.fromhex(m) for m in tr['s2c']['msgs']]}

    def applicable(d, i, rw):
        m = bytes.fromhex(tr[d]['msgs'][i])
        try:
            y = P.REWRITES[rw](m, _Px)
        except Exception:  # noqa
            return False
        return y is not None and y != m
    for i in ch_idx:
        for rw in P.CH_REWRITES:
            if applicable('c2s', i, rw):
                jobs.append((name, [('rw', 'c2s', i, rw)], base, 1, True))
    for i in sh_idx:
        for rw in P.SH_REWRITES:
            if applicable('s2c', i, rw):
                jobs.append((name, [('rw', 's2c', i, rw)], base, 1, True))
    if ch_idx and sh_idx:
        for a, c in COMBOS:
            if not applicable('c2s', ch_idx[0], a):
                continue
            jobs.append((name, [('rw', 'c2s', ch_idx[0], a), ('rw', 's2c', sh_idx[-1], c)], base, 1, True))
            if len(ch_idx) > 1:
                jobs.append((name, [('rw', 'c2s', ch_idx[0], a), ('rw', 'c2s', ch_idx[1], a),
                                    ('rw', 's2c', sh_idx[-1], c)], base, 1, True))
    # with extended_master_secret switched off by the attacker (extension renamed to an unknown type, or stripped) the key
    # material no longer depends on the transcript: every other tampering is then caught by the Finished comparison ALONE.
    # Crossed with every rewrite of either hello (and, below, with byte flips of the other plaintext messages).
    ems_full = (not quick) or name in EMS_OFF_QUICK
    if ch_idx and not tr['tls13'] and not sc.get('resume') and applicable('c2s', ch_idx[0], 'ch_rename_ems'):
        off = ('rw', 'c2s', ch_idx[0], 'ch_rename_ems')
        if ems_full:
            for rw in P.CH_REWRITES:
                if rw not in ('ch_rename_ems', 'ch_strip_ems', 'ch_add_ems') and applicable('c2s', ch_idx[0], rw):
                    jobs.append((name, [off, ('rw', 'c2s', ch_idx[0], rw)], base, 1, True))
            for i in sh_idx:
                for rw in P.SH_REWRITES:
                    if applicable('s2c', i, rw):
                        jobs.append((name, [off, ('rw', 's2c', i, rw)], base, 1, True))
            for d in ('c2s', 's2c'):
                for i in range(nmsg[d]):
                    jobs.append((name, [off, ('drop', d, i)], base, 1, False))
                    jobs.append((name, [off, ('dup', d, i)], base, 1, False))
        # byte flips in the messages after the hellos (certificate, key exchange, ...)
        for d in ('c2s', 's2c'):
            offs = [o for rec in tr[d]['records'] if rec['plain'] for o in range(rec['off'], rec['off'] + rec['len'])]
            stride = 97 if quick else 7
            for k, o in enumerate(offs):
                if k % stride == (3 if quick else 0) and (ems_full or k % (stride * 4) == 3):
                    jobs.append((name, [off, ('flip', d, o, MASKS[k % 3])], base, 1, False))
    jobs.append((name, [('rw', 'c2s', 0, 'identity'), ('rw', 's2c', 0, 'identity')], base, 1, True))
    return jobs


# ------------------------------------------------------------------------------------------
# abstraction of live hellos into the model's terms
def ext_lit(e, server):
    from tlslite.constants import ExtensionType as E
    t = e.extType
    try:
        data = bytes(e.extData)
    except Exception:  # noqa
        data = b'?'
    if t == E.supported_versions:
        try:
            vs = [vz(e.version)] if server else [vz(v) for v in e.versions]
        except Exception:  # noqa
            vs = [zid(data)]
        return '(%d,%s)' % (t, listlit(vs, zlit))
    if t == E.key_share:
        try:
            if server:
                grp = e.selected_group if hasattr(e, 'selected_group') and e.selected_group is not None else None
                if grp is not None:
                    p = [grp]
                else:
                    p = [e.server_share.group, zid(data)]
            else:
                p = [s.group for s in e.client_shares] + [zid(data)]
        except Exception:  # noqa
            p = [zid(data)]
        return '(%d,%s)' % (t, listlit(p, zlit))
    if t == E.pre_shared_key:
        try:
            if server:
                p = [e.selected]
            else:
                p = [zid(b''.join(bytes(i.identity) + bytes([i.obfuscated_ticket_age & 0xff]) for i in e.identities))]
        except Exception:  # noqa
            p = [zid(data)]
        return '(%d,%s)' % (t, listlit(p, zlit))
    return '(%d,%s)' % (t, listlit([zid(data)] if data else [], zlit))


def ch_lit(ch):
    from tlslite.constants import ExtensionType as E
    exts = ch.extensions or []
    binders = []
    p = ch.getExtension(E.pre_shared_key)
    if p is not None:
        try:
            binders = [bytes(b) for b in p.binders]
        except Exception:  # noqa
            binders = []
    return '(mkCH %d %d %d %s %s %s %s)' % (
        vz(ch.client_version), zid(ch.random), zid(ch.session_id) if ch.session_id else 0,
        listlit(ch.cipher_suites, zlit), listlit(ch.compression_methods, zlit),
        listlit(exts, lambda e: ext_lit(e, False)), listlit(binders, vlib.blit))


def tail_code(t):
    t = bytes(t)
    return 1 if t == S11 else 2 if t == S12 else 3 + int.from_bytes(t, 'big') % (2 ** 40)


def sh_lit(sh):
    hrr = bytes(sh.random) == HRR_RANDOM
    return '(mkSH %d %d %d %s %d %d %s)' % (
        vz(sh.server_version), zid(sh.random[:24]), tail_code(sh.random[24:]), boollit(hrr),
        zid(sh.session_id) if sh.session_id else 0, sh.cipher_suite,
        listlit(sh.extensions or [], lambda e: ext_lit(e, True)))


PREAMBLE = '''
(* K1: server front end.  obs: 0 = no reaction seen, 1 = LocalAlert code, 2 = answered with version v *)
Definition chk_front (c : Z * Z * chello * Z * Z) : bool :=
  let '(smin, smax, ch, kind, val) := c in
  match sel_version smin smax ch with
  | SelErr a => (kind =? 1)
  | SelOk v => if scsv_hit smax v ch then (kind =? 1)
               else negb ((kind =? 1) && (val =? ALERT_INAPPROPRIATE_FALLBACK)) &&
                    (if kind =? 2 then val =? v else true)
  end.
(* the alert of the modelled stops is the one the implementation sends (when no earlier sanity check fired) *)
Definition chk_front_alert (c : Z * Z * chello * Z * Z) : bool :=
  let '(smin, smax, ch, kind, val) := c in
  match sel_version smin smax ch with
  | SelErr a => (val =? a) || negb (val =? ALERT_INAPPROPRIATE_FALLBACK)
  | SelOk v => if scsv_hit smax v ch then (val =? ALERT_INAPPROPRIATE_FALLBACK) || (val =? 47) || (val =? 50) || (val =? 109) || (val =? 40)
               else true
  end.
(* K2: client ServerHello checks.  cobs: 0 = went on, 1 = LocalAlert; dg: the alert text names downgrade protection *)
Definition chk_client (c : Z * Z * chello * shello * Z * Z * bool) : bool :=
  let '(cmin, cmax, ch, sh, cobs, code, dg) := c in
  match client_sh_check (fun _ _ => true) cmin cmax ch sh with
  | VAbort a => (cobs =? 1)
  | VOk => negb dg
  end.
Definition chk_client_dg (c : Z * Z * chello * shello * Z * Z * bool) : bool :=
  let '(cmin, cmax, ch, sh, cobs, code, dg) := c in
  if dg then sentinel_hit cmax (sh_version sh) (sh_tail sh) && (code =? ALERT_ILLEGAL_PARAMETER) else true.
(* K3: sentinel written by every TLS <= 1.2 ServerHello, full or resumed *)
Definition chk_written (c : Z * Z * Z) : bool :=
  let '(smax, v, tail) := c in sentinel_for smax v tail =? tail.
(* K6: cipher-suite list the client puts on the wire *)
Definition chk_suites (c : list Z * bool) : bool :=
  let '(sent, scsv) := c in
  zl_eqb sent (client_hello_suites (filter (fun x => negb ((x =? RENEGO_SCSV) || (x =? FALLBACK_SCSV))) sent) scsv).
(* K4: second ClientHello.  sobs: 1 = the server refused with the "does not match"/key-share family *)
Definition chk_hrr (c : option (list Z) * Z * chello * chello * Z) : bool :=
  let '(ck, g, c1, c2, sobs) := c in
  if hrr_second_ok ck g c1 c2 then negb (sobs =? 1) else negb (sobs =? 0).
'''
HRR_REFUSALS = ('Old Client Hello does not match', 'Client key share does not', 'Multiple key shares', 'Key share missing',
                'Malformed cookie', 'does not contain cookie', 'PSK extension not last')


def model_cases(name, sc, r):
    """Gallina case literals of the kinds K1..K4 from one kept live run"""
    import c04_proxy as P
    from tlslite.constants import ExtensionType as E
    out = {'front': [], 'client': [], 'written': [], 'hrr': [], 'suites': []}
    cmin, cmax = vz(sc['cs']['minv']), vz(sc['cs']['maxv'])
    smin, smax = vz(sc['ss']['minv']), vz(sc['ss']['maxv'])
    w = r['wire']
    chs_dlv = [ch_facts(m) for m in w['c2s']['dlv']]
    chs_sent = [ch_facts(m) for m in w['c2s']['sent']]
    shs_sent = [sh_facts(m) for m in w['s2c']['sent']]
    shs_dlv = [sh_facts(m) for m in w['s2c']['dlv']]
    # K6
    for f in chs_sent:
        if f is not None:
            out['suites'].append('(%s, %s)' % (listlit(f['obj'].cipher_suites, zlit),
                                               boollit(bool(sc['cs'].get('sendFallbackSCSV')))))
    # K1
    if chs_dlv and chs_dlv[0] is not None and w['c2s']['dlv'][0][:2] == '01':
        if shs_sent and shs_sent[0] is not None:
            kind, val = 2, vz(shs_sent[0]['v'])
        elif r['s'][0] == 'LocalAlert':
            kind, val = 1, r['s'][1]
        else:
            kind, val = 0, 0
        out['front'].append('(%d, %d, %s, %d, %d)' % (smin, smax, ch_lit(chs_dlv[0]['obj']), kind, val))
    # K3
    if shs_sent and shs_sent[0] is not None and not shs_sent[0]['hrr']:       # full and resumed ServerHellos
        f = shs_sent[0]
        out['written'].append('(%d, %d, %d)' % (smax, vz(f['v']), tail_code(f['tail'])))
    # K2: the hello the client holds (last one it sent before that ServerHello) and the first real ServerHello delivered
    real = [f for f in shs_dlv if f is not None and not f['hrr']]
    n_hrr = len([f for f in shs_dlv if f is not None and f['hrr']])
    if real and chs_sent and all(c is not None for c in chs_sent) and shs_dlv[0] is not None:
        ch = chs_sent[min(n_hrr, len(chs_sent) - 1)]['obj']
        cobs = 1 if r['c'][0] == 'LocalAlert' else 0
        code = r['c'][1] if r['c'][0] == 'LocalAlert' else 0
        dg = bool(r.get('cmsg') and 'downgrade' in str(r['cmsg']))
        out['client'].append('(%d, %d, %s, %s, %d, %d, %s)' % (cmin, cmax, ch_lit(ch), sh_lit(real[0]['obj']), cobs, code,
                                                              boollit(dg)))
    # K4
    if len(chs_dlv) >= 2 and chs_dlv[0] is not None and chs_dlv[1] is not None and shs_sent and shs_sent[0] is not None \
            and shs_sent[0]['hrr']:
        hrr = shs_sent[0]['obj']
        ck = hrr.getExtension(E.cookie)
        ks = hrr.getExtension(E.key_share)
        if ks is not None:
            refused = bool(r['s'][0] == 'LocalAlert' and r.get('smsg') and any(t in str(r['smsg']) for t in HRR_REFUSALS))
            went_on = len([f for f in shs_sent if f is not None and not f['hrr']]) > 0
            sobs = 1 if refused else 0 if went_on else 2
            cklit = 'None' if ck is None else '(Some %s)' % listlit([zid(bytes(ck.extData))], zlit)
            out['hrr'].append('(%s, %d, %s, %s, %d)' % (cklit, ks.selected_group, ch_lit(chs_dlv[0]['obj']),
                                                       ch_lit(chs_dlv[1]['obj']), sobs))
    return out


# ------------------------------------------------------------------------------------------
def run(ctx):
    import units
    quick = ctx.tier == 'quick'
    ok, msg = units.generate('C04_Sites', vlib.COQ)
    ctx.log('translator: %s' % msg)
    tie_broken = None if ok else msg
    res = vlib.proof_stage(ctx, 'Props/C04.v', model_targets=['Model/C04_Tamper.vo', 'Model/C04_Toy.vo'])
    ctx.log('proof stage ok=%s failing=%s' % (res['ok'], res['failing']))
    ctx.cov['trusted_base'] = [
        'Coq 8.16.1 kernel + vm_compute',
        'idealised primitives: H_ideal_hash, H_ideal_prf, unforgeable (Dolev-Yao reading; theorems suffixed _ideal)',
        'translator/units_c04.py (ast walk over tlsrecordlayer.py, tlsconnection.py, handshakehelpers.py)',
        'coq/Model/C04_SitesExpected.v: which transcript/guard sites the model accounts for (hand-maintained)',
        'harness/c04_proxy.py: the on-path proxy and the abstraction of live hellos into model terms',
    ]
    ctx.assumptions += ['authenticated key exchange: the attacker does not know the endpoints\' master/handshake secrets '
                        '(not true for anonymous suites under full interception)',
                        'message-order automaton (C06) and record protection (C02) are not re-proved here']
    found = False
    # ---- live: honest baselines
    names = sorted(_scenarios())
    pool = multiprocessing.Pool(min(16, os.cpu_count() or 4))
    try:
        bases = dict(zip(names, pool.map(baseline, names)))
        jobs = []
        for n in names:
            b = bases[n]
            if 'error' in b:
                tie_broken = tie_broken or ('baseline %s: %s' % (n, b['error']))
                continue
            expect_fail = n.startswith('scsv-fallback')
            if not expect_fail and not b['both']:
                if ctx.violation('honest-handshake-fails:%s' % n,
                                 'the untampered %s handshake does not complete: %r %r' % (n, b['c'], b['s']),
                                 {'scenario': n, 'ops': [], 'c': b['c'], 's': b['s'],
                                  'how': 'harness/c04_proxy.run_case(scenarios()[name], [])'}):
                    found = True
                continue
            if expect_fail:
                b.setdefault('diff', [])
                b.setdefault('vc', {'version': None, 'suite': None})
                sent = [ch_facts(m) for m in b['wire']['c2s']['sent'][:1]]
                if sent and sent[0] is not None and not sent[0]['scsv']:
                    pass        # the client did not send the signal: reported by judge() as scsv-not-sent
                elif b['s'] != ('LocalAlert', 86):
                    if ctx.violation('scsv-ignored', 'server did not answer inappropriate_fallback to an honest fallback hello '
                                     'with SCSV: %r' % (b['s'],), {'scenario': n, 'ops': [], 's': b['s']}):
                        found = True
            extra = set(b['diff']) - ALLOWED_BASELINE_DIFF
            if extra:
                if ctx.violation('views-differ:honest:' + ','.join(sorted(extra)),
                                 'honest %s handshake: views differ in %s' % (n, sorted(extra)),
                                 {'scenario': n, 'ops': [], 'vc': b.get('vc'), 'vs': b.get('vs')}):
                    found = True
            # the untampered run is judged first, so that a defect that needs no attacker is reported as such
            if 'wire' in b:
                b0 = {'baseline_diff': b['diff'], 'negotiated': (b['vc']['version'], b['vc']['suite'])}
                for k, what in judge(_scenarios()[n], b0, b, []):
                    if ctx.violation(k, '%s [%s untampered]' % (what, n),
                                     {'scenario': n, 'ops': [], 'c': b['c'], 's': b['s'],
                                      'how': './check C04 --replay <this file>'}):
                        found = True
            jobs += gen_jobs(ctx, n, b, quick)
        ctx.log('%d scenarios, %d attacked handshakes' % (len(names), len(jobs)))
        results = pool.map(work, jobs, chunksize=16)
    finally:
        pool.close()
        pool.join()
    # ---- direct oracle
    n_both = 0
    seen = set()
    lits = {'front': [], 'client': [], 'written': [], 'hrr': [], 'suites': []}
    meta = {'front': [], 'client': [], 'written': [], 'hrr': [], 'suites': []}
    for r in results:
        if 'harness_error' in r:
            tie_broken = tie_broken or ('harness error in %s %r: %s' % (r['name'], r['ops'], r['harness_error'][-300:]))
            continue
        kind = '+'.join(o[0] if o[0] != 'rw' else o[3] for o in r['ops'])
        opk = r['ops'][0][0]
        key = (r['name'], kind if opk == 'rw' else opk, r['c'][:2], r['s'][:2])
        ctx.count('live-mitm:' + ('rewrite' if opk == 'rw' else opk), 1, [key],
                  sample={'scenario': r['name'], 'ops': r['ops'], 'c': r['c'], 's': r['s']} if r['both'] and r['applied'] else None)
        n_both += bool(r['both'])
        for k, what in r['viol']:
            # a known finding does not count as "found": it must not mask a broken proof / broken tie
            if ctx.violation(k, '%s [%s %s]' % (what, r['name'], kind),
                             {'scenario': r['name'], 'ops': r['ops'], 'c': r['c'], 's': r['s'], 'vc': r.get('vc'),
                              'vs': r.get('vs'),
                              'how': './check C04 --replay <this file>  (harness/c04_proxy.run_case(scenarios()[scenario], ops))'}):
                found = True
        if 'wire' in r and opk == 'rw':
            mc = model_cases(r['name'], _scenarios()[r['name']], r)
            for k in lits:
                for l in mc[k]:
                    if l not in seen:
                        seen.add(l)
                        lits[k].append(l)
                        meta[k].append((r['name'], r['ops'], r['c'], r['s']))
    ctx.log('live: %d runs, %d with both endpoints completing' % (len(results), n_both))
    # honest baselines also feed the model cases
    for n in names:
        b = bases[n]
        if 'wire' in b:
            mc = model_cases(n, _scenarios()[n], b)
            for k in lits:
                for l in mc[k]:
                    if l not in seen:
                        seen.add(l)
                        lits[k].append(l)
                        meta[k].append((n, [], b['c'], b['s']))
    # ---- model decision functions vs implementation (vm_compute)
    if res['model_ok']:
        plan = [('front', 'Z * Z * chello * Z * Z', ['chk_front', 'chk_front_alert']),
                ('client', 'Z * Z * chello * shello * Z * Z * bool', ['chk_client', 'chk_client_dg']),
                ('written', 'Z * Z * Z', ['chk_written']),
                ('hrr', 'option (list Z) * Z * chello * chello * Z', ['chk_hrr']),
                ('suites', 'list Z * bool', ['chk_suites'])]
        for k, ty, fns in plan:
            if not lits[k]:
                continue
            bads, errs = vlib.coq_bad_indices('C04' + k, ['Model.C04_Tamper'], ty, fns, lits[k],
                                              shard=max(20, (len(lits[k]) + 15) // 16), preamble=PREAMBLE)
            ctx.count('model-vs-impl:' + k, len(lits[k]), [(m[0], str(m[1])) for m in meta[k]])
            for e in errs:
                tie_broken = tie_broken or ('case evaluation failed: ' + e[:400])
            for fi, bad in enumerate(bads):
                for i in bad[:4]:
                    ctx.log('model/impl disagreement %s on %r' % (fns[fi], meta[k][i]))
                    tie_broken = tie_broken or ('%s: model disagrees with implementation on scenario %s ops %r (client %r, server %r)'
                                                % (fns[fi], meta[k][i][0], meta[k][i][1], meta[k][i][2], meta[k][i][3]))
    else:
        tie_broken = tie_broken or ('model does not compile: %s' % res['failing'])
    ctx.cov['rule'] = ('one case = one handshake between live endpoints with one attacker action: XOR of one byte of a plaintext '
                       'record (header included; %s), drop/duplicate/swap of one plaintext handshake message, insertion of an alert/CCS/empty/HelloRequest/unknown/heartbeat record in front of '
                       'one, or a re-serialised '
                       'rewrite of a hello (%d ClientHello and %d ServerHello rewrites + %d two-sided combinations) for %d scenarios '
                       '(SSLv3..TLS1.3 x RSA/DHE/ECDHE/SRP/anon/ECDSA, HRR, PSK, session-id/ticket/TLS1.3 resumption, SCSV); '
                       'distinct = (scenario, action class, both outcomes)'
                       % ('every 40th byte + the first 12 of each direction, rotating masks' if quick else 'every byte x masks 0x01,0x80,0xff',
                          len(__import__('c04_proxy').CH_REWRITES), len(__import__('c04_proxy').SH_REWRITES), len(COMBOS), len(names)))
    if tie_broken and not found:
        ctx.violation('tie-broken', tie_broken, {'correspondence': 'Model/C04_Tamper.v vs live endpoints / site table',
                                                 'detail': tie_broken}, found_input=False)
        found = True
    vlib.broken_proof_verdict(ctx, res, found)


def replay(ctx, path):
    import c04_proxy as P
    with open(path) as f:
        r = json.load(f)
    if 'scenario' not in r:
        print(json.dumps(r, indent=1)[:3000])
        return 1
    sc = P.scenarios()[r['scenario']]
    b = P.run_case(sc, [], seed=1, want_trace=True)
    base = {'baseline_diff': b.get('diff', []), 'negotiated': (b.get('vc', {}).get('version'), b.get('vc', {}).get('suite'))}
    out = P.run_case(sc, [tuple(o) for o in r.get('ops', [])], seed=1)
    v = judge(sc, base, out, r.get('ops', []))
    if ('@need-held-run', '') in v:
        v = [x for x in v if x[0] != '@need-held-run'] + held_run(P, sc, r.get('ops', []), 1)
    print('client:', out['c'], out.get('cmsg'))
    print('server:', out['s'], out.get('smsg'))
    print('both complete:', out['both'], 'view diff:', out.get('diff'))
    print('violations:', v)
    return 1 if v else 0
