"""C12: the CBC MAC-and-padding check accepts exactly the well-formed records.

Tie: translator (coq/Gen/ConstantTime.v regenerated from /repo on every run).
Theorem (coq/Props/C12.v): the generated ct_check_cbc_mac_and_pad equals
Spec.CbcCheck.well_formed for every body.  Correspondence: generated model and
spec evaluated by vm_compute on the same cases as the Python function."""
import hashlib
import hmac as pyhmac
import os
import sys

import vlib
from vlib import blit, zlit
from toys import ToyMac

sys.path.insert(0, os.path.join(vlib.ROOT, 'translator'))
import units  # noqa: E402

LEVEL = 'proof'
META = {
    'text': 'Coq theorems (Props/C12.v) about the Gallina text regenerated from tlslite/utils/constanttime.py on every run: '
            'the constant-time helpers equal the plain comparisons on the whole 32-bit range, and the combined check equals '
            'the direct specification well_formed for every body, MAC oracle, sequence number, type and version. '
            'The generated model, the Coq spec and the Python function are evaluated on the same cases (vm_compute).',
    'note': 'Trusted: Coq kernel + vm_compute; translator/pylite.py (validated by evaluation against the Python function); '
            'hmac objects behave as a function of the concatenated input (oracle); bodies < 65536 bytes; '
            'Spec/CbcCheck.v as the reading of the RFC.',
    'technique': 'Rocq/Coq proof over translator-regenerated model + vm_compute correspondence',
}
VERSIONS = [(3, 0), (3, 1), (3, 2), (3, 3)]
ALGS = [('md5', 16, 64), ('sha1', 20, 64), ('sha256', 32, 64), ('sha384', 48, 128)]
EXC = {'IndexError': 1, 'ValueError': 2, 'AssertionError': 3, 'AttributeError': 4, 'TypeError': 5,
       'KeyError': 6, 'ZeroDivisionError': 9}


class RecMac(object):
    """Wraps a real hmac object and records every (message -> digest) query."""

    def __init__(self, inner, acc, table, block_size):
        self.inner, self.acc, self.table = inner, acc, table
        self.digest_size = inner.digest_size
        self.block_size = block_size

    def copy(self):
        return RecMac(self.inner.copy(), self.acc, self.table, self.block_size)

    def update(self, d):
        self.inner.update(d)
        self.acc = self.acc + bytes(d)

    def digest(self):
        r = self.inner.digest()
        self.table[self.acc] = r
        return r


def header(seq, ty, ver, m):
    h = bytes(seq) + bytes([ty])
    if ver != (3, 0):
        h += bytes(ver)
    return h + bytes([m >> 8, m & 0xff])


def mk_mac(case):
    """The MAC object as the record layer itself makes it (RecordLayer._getHMACMethod picks the constructor)."""
    kind, key = case['mac'], bytes(case['key'])
    if kind.startswith('toy'):
        return ToyMac(key, case['ds'], case['mbs'])
    from tlslite.recordlayer import RecordLayer
    from tlslite.mathtls import createHMAC
    from tlslite.utils import tlshashlib as hashlib
    if tuple(case['ver']) == (3, 0) and kind not in ('md5', 'sha1'):
        # no SSLv3 suite uses SHA-2 (the SSL 3.0 MAC is defined for MD5 and SHA-1 only): here the
        # function under test is exercised with a generic MAC object, HMAC in both roles
        return createHMAC(key, getattr(hashlib, kind))
    return RecordLayer._getHMACMethod(tuple(case['ver']))(key, getattr(hashlib, kind))


def mac_of(case, msg):
    """The MAC the protocol specifies, computed WITHOUT the library: RFC 2104 HMAC for TLS 1.0-1.2,
    the SSL 3.0 MAC (RFC 6101 5.2.3.1: hash(key + 0x5c*n + hash(key + 0x36*n + msg)), n = 48 for MD5 and
    40 for SHA-1) for SSLv3.  ToyMac is the harness's own function in both roles."""
    kind, key = case['mac'], bytes(case['key'])
    if kind.startswith('toy'):
        m = ToyMac(key, case['ds'], case['mbs'])
        m.update(msg)
        return bytes(m.digest())
    import hashlib as _hl
    import hmac as _hm
    if tuple(case['ver']) == (3, 0) and kind in ('md5', 'sha1'):
        n = {'md5': 48, 'sha1': 40}[kind]
        inner = _hl.new(kind, key + b'\x36' * n + bytes(msg)).digest()
        return _hl.new(kind, key + b'\x5c' * n + inner).digest()
    return _hm.new(key, bytes(msg), kind).digest()


def py_spec(case):
    """The property, written directly (independent of the code under test)."""
    data, ds, ver = bytes(case['data']), case['ds'], tuple(case['ver'])
    n = len(data)
    if n < ds + 1:
        return False
    p = data[-1]
    if n < p + 1 + ds:
        return False
    m = n - p - 1 - ds
    if ver == (3, 0):
        if p > case['bs']:
            return False
    else:
        if any(b != p for b in data[n - 1 - p:n - 1]):
            return False
    return data[m:m + ds] == mac_of(case, header(case['seq'], case['ty'], ver, m) + data[:m])


def run_impl(case, record=False):
    from tlslite.utils.constanttime import ct_check_cbc_mac_and_pad
    table = {}
    mac = mk_mac(case)
    if record:
        mac = RecMac(mac, b'', table, mac.block_size)
    try:
        r = ct_check_cbc_mac_and_pad(bytearray(case['data']), mac, bytearray(case['seq']), case['ty'],
                                     tuple(case['ver']), case['bs'])
        return (bool(r), 0, table)
    except Exception as e:  # noqa
        return (None, EXC.get(type(e).__name__, 100), table)


# --------------------------------------------------------------------------
def build_record(rng, case, L, p, mutate):
    """Honest sender output for payload length L and padding p, then one mutation."""
    ds, ver = case['ds'], tuple(case['ver'])
    payload = bytes(rng.randrange(256) for _ in range(L))
    tag = mac_of(case, header(case['seq'], case['ty'], ver, L) + payload)
    if ver == (3, 0):
        pad = bytes(rng.randrange(256) for _ in range(p)) + bytes([p])
    else:
        pad = bytes([p]) * (p + 1)
    data = bytearray(payload + tag + pad)
    n = len(data)
    cls = mutate
    if mutate == 'none':
        pass
    elif mutate == 'flip-data' and L > 0:
        data[rng.randrange(L)] ^= 1 << rng.randrange(8)
    elif mutate == 'flip-mac':
        data[L + rng.randrange(ds)] ^= 1 << rng.randrange(8)
    elif mutate == 'flip-pad' and p > 0:
        data[L + ds + rng.randrange(p)] ^= 1 << rng.randrange(8)
    elif mutate == 'padlen':
        data[-1] = rng.randrange(256)
    elif mutate == 'padlen+1':
        data[-1] = (data[-1] + 1) & 0xff
    elif mutate == 'trunc':
        k = rng.randrange(1, n + 1)
        data = data[:n - k] if rng.random() < 0.5 else data[k:]
    elif mutate == 'first-pad-byte' and p > 0:
        data[L + ds] ^= 0x80
    elif mutate == 'last-mac-byte':
        data[L + ds - 1] ^= 0x01
    elif mutate == 'random':
        data = bytearray(rng.randrange(256) for _ in range(n))
    elif mutate == 'overlap':
        # MAC of the empty fragment followed by padding that starts on the MAC's last byte
        tag0 = mac_of(case, header(case['seq'], case['ty'], ver, 0))
        q = tag0[-1]
        data = bytearray(tag0 + bytes([q]) * q)
    elif mutate == 'padlen-block':
        data[-1] = (data[-1] + case['bs'] * rng.randrange(1, 4)) & 0xff
    elif mutate == 'overlap-aligned':
        # shortest block-aligned body whose padding claims to reach into the MAC
        tag0 = mac_of(case, header(case['seq'], case['ty'], ver, 0))
        bsz = case['bs']
        tot = -(-(ds + 1) // bsz) * bsz
        q = tot - ds                       # pad length byte such that n = ds + q
        data = bytearray(tag0[:ds - 1] + bytes([q]) * (tot - ds + 1))
    elif mutate == 'allpad':
        q = rng.choice([n - 1, n, n + 1, 255, ds, ds + 1]) & 0xff
        data = bytearray([q] * n)
    else:
        cls = 'none'
    case['data'] = bytes(data)
    case['cls'] = cls
    return case


MUTS = ['none', 'none', 'flip-data', 'flip-mac', 'flip-pad', 'padlen', 'padlen+1', 'trunc',
        'first-pad-byte', 'last-mac-byte', 'random', 'overlap', 'allpad']


def gen_cases(ctx, n_cases, maxlen, real_frac):
    rng = ctx.rng
    cases = []
    # corpus first: boundary cases kept from earlier disagreements
    for ver in VERSIONS:
        for (alg, ds, mbs) in ALGS:
            c = dict(mac=alg, ds=ds, mbs=mbs, key=bytes(range(1, 17)), seq=bytes(8), ty=23, ver=ver, bs=16)
            cases.append(build_record(rng, c, 0, 0, 'overlap'))
    # boundary stream: MAC position on / next to the first hashed block boundary
    # (n = 256 + ds + k*mac_block + d with pad length 255 - e), toy MAC, long bodies
    for k in range(0, 3):
        for d in (-2, -1, 0, 1, 2):
            for e in (0, 1, 2):
                ver = rng.choice(VERSIONS[1:])
                ds = rng.choice([16, 20, 32, 48])
                mbs = 128 if ds == 48 else 64
                L = k * mbs + d + e
                if L < 0 or len(cases) >= n_cases // 2:
                    continue
                c = dict(mac='toy%d' % ds, ds=ds, mbs=mbs, key=bytes(rng.randrange(256) for _ in range(16)),
                         seq=bytes(rng.randrange(256) for _ in range(8)), ty=23, ver=ver, bs=16)
                cases.append(build_record(rng, c, L, 255 - e,
                                          rng.choice(['none', 'flip-mac', 'flip-data', 'last-mac-byte', 'first-pad-byte'])))
    while len(cases) < n_cases:
        ver = rng.choice(VERSIONS)
        bs = rng.choice([8, 16])
        real = rng.random() < real_frac
        if real:
            alg, ds, mbs = rng.choice(ALGS)
            lim = 48
        else:
            ds = rng.choice([16, 20, 32, 48])
            mbs = 128 if ds == 48 else 64
            alg = 'toy%d' % ds
            lim = maxlen
        c = dict(mac=alg, ds=ds, mbs=mbs, key=bytes(rng.randrange(256) for _ in range(rng.choice([0, 16, 20, 32]))),
                 seq=bytes(rng.randrange(256) for _ in range(8)), ty=rng.choice([20, 21, 22, 23, 24]),
                 ver=ver, bs=bs)
        L = rng.choice([0, 1, bs - 1, bs, rng.randrange(0, lim), rng.randrange(0, lim)])
        if ver == (3, 0):
            p = rng.choice([0, bs - 1, bs, rng.randrange(0, bs + 1), rng.randrange(0, 256)])
        else:
            p = rng.choice([0, 1, 15, 255, 254, rng.randrange(256), rng.randrange(256)])
        if real:      # recorded-oracle tables grow quadratically with the body: keep real-HMAC bodies short
            p = min(p, rng.choice([0, 1, 7, 15, 31, 40]))
        cases.append(build_record(rng, c, L, p, rng.choice(MUTS)))
    return cases


# --------------------------------------------------------------------------
# record-layer level: the call site in RecordLayer._decryptThenMAC (arguments, block size of the
# negotiated cipher, stripping of padding and MAC) against the same direct specification
CIPHERS = [('aes128', 16, 16), ('aes256', 32, 16), ('3des', 24, 8)]


def mk_cipher(name, key, iv):
    from tlslite.utils import cipherfactory as cf
    if name == '3des':
        return cf.createTripleDES(bytearray(key), bytearray(iv), ['python'])
    return cf.createAES(bytearray(key), bytearray(iv), ['python'])


def record_level_case(rng):
    ver = rng.choice(VERSIONS)
    cname, klen, bs = rng.choice(CIPHERS)
    alg, ds, mbs = rng.choice(ALGS[:2] if ver == (3, 0) else ALGS)
    c = dict(mac=alg, ds=ds, mbs=mbs, key=bytes(rng.randrange(256) for _ in range(ds)),
             seq=None, ty=rng.choice([20, 21, 22, 23]), ver=ver, bs=bs, cipher=cname,
             ckey=bytes(rng.randrange(256) for _ in range(klen)), iv=bytes(rng.randrange(256) for _ in range(bs)),
             seqnum=rng.choice([0, 1, 255, 256, 2**32, rng.randrange(2**40)]))
    c['seq'] = c['seqnum'].to_bytes(8, 'big')
    L = rng.choice([0, 1, bs - 1, bs, rng.randrange(0, 80), rng.randrange(0, 80)])
    r = (-(L + ds + 1)) % bs                # minimal padding
    p = rng.choice([r, r, r + bs, r + 2 * bs, r + bs * rng.randrange(0, (255 - r) // bs + 1)])
    p = min(p, r + bs * ((255 - r) // bs))
    build_record(rng, c, L, p, rng.choice(['none', 'none', 'flip-data', 'flip-mac', 'flip-pad', 'last-mac-byte',
                                           'first-pad-byte', 'padlen-block', 'overlap-aligned']))
    data = bytearray(c['data'])
    if c['cls'] == 'none' and rng.random() < 0.25 and len(data) > bs:
        # keep block alignment: change the pad length byte by a multiple of the block size
        data[-1] = (data[-1] + bs * rng.randrange(1, 4)) & 0xff
        c['cls'] = 'padlen-block'
    if len(data) % bs:
        data = data[:len(data) - len(data) % bs] or bytearray(bs)
        c['cls'] += '+realigned'
    c['data'] = bytes(data)
    return c


def run_record_level(c):
    """Returns ('ok', plaintext) | ('exc', name) from the real RecordLayer._decryptThenMAC."""
    from tlslite.recordlayer import RecordLayer, ConnectionState
    rl = RecordLayer(None)
    rl.version = tuple(c['ver'])
    st = ConnectionState()
    st.encContext = mk_cipher(c['cipher'], c['ckey'], c['iv'])
    st.macContext = mk_mac(c)
    st.seqnum = c['seqnum']
    rl._readState = st
    body = bytes(c['data'])
    if tuple(c['ver']) >= (3, 2):
        body = bytes(c['iv']) + body                      # explicit IV block
    ct = mk_cipher(c['cipher'], c['ckey'], c['iv']).encrypt(bytearray(body))
    try:
        out = rl._decryptThenMAC(c['ty'], bytearray(ct))
        return ('ok', bytes(out))
    except Exception as e:  # noqa
        return ('exc', type(e).__name__)


class _FeedSock(object):
    """what RecordLayer needs of a socket: recv(n) from a byte buffer"""

    def __init__(self, data):
        self.buf = bytearray(data)

    def recv(self, n):
        out = bytes(self.buf[:n])
        del self.buf[:n]
        return out

    def send(self, b):
        return len(b)


SEQ_EDGES = [0, 1, 2**8 - 1, 2**16 - 1, 2**24 - 1, 2**31 - 1, 2**32 - 2, 2**32 - 1, 2**32, 2**40 - 1,
             2**48 - 1, 2**56 - 1, 2**63 - 1, 2**64 - 3]


def record_sequence_case(rng):
    """Three consecutive records of one CBC connection state, received through RecordLayer.recvRecord()
    (socket -> header -> decrypt -> check -> strip), starting at a sequence number next to a carry
    boundary.  Each record is an honest sender's output for ITS OWN sequence number; one of them may be
    mutated.  `hdr` variants: the record header's version field differs from the negotiated version and
    the body is crafted for the header's version (MAC pseudo-header, SSLv3/TLS padding rule)."""
    ver = rng.choice(VERSIONS)
    cname, klen, bs = rng.choice(CIPHERS)
    alg, ds, mbs = rng.choice(ALGS[:2] if ver == (3, 0) else ALGS)
    start = rng.choice(SEQ_EDGES + [rng.randrange(2**64 - 3)])
    base = dict(mac=alg, ds=ds, mbs=mbs, key=bytes(rng.randrange(256) for _ in range(ds)), ver=ver, bs=bs,
                cipher=cname, ckey=bytes(rng.randrange(256) for _ in range(klen)),
                iv=bytes(rng.randrange(256) for _ in range(bs)), start=start)
    kind = rng.choice(['honest', 'honest', 'mutated', 'stale-seq', 'hdr-version'])
    recs = []
    for i in range(3):
        c = dict(base, seq=((start + i) % 2**64).to_bytes(8, 'big'), ty=rng.choice([21, 22, 23]))
        L = rng.choice([0, 1, bs, rng.randrange(1, 60)]) if c['ty'] == 23 else rng.randrange(1, 40)
        r = (-(L + ds + 1)) % bs
        p = rng.choice([r, r, r + bs]) if ver != (3, 0) else r
        mut, hdr, built_for = 'none', ver, c
        if i == 1 and kind == 'mutated':
            mut = rng.choice(['flip-data', 'flip-mac', 'flip-pad', 'last-mac-byte', 'first-pad-byte'])
        if i == 2 and kind == 'stale-seq':
            # MACed for a sequence number that differs from the right one in its HIGH bytes only
            wrong = (start + i) % 2**64 ^ (1 << rng.choice([32, 33, 40, 48, 56, 63]))
            built_for = dict(c, seq=wrong.to_bytes(8, 'big'))
        if i == 1 and kind == 'hdr-version':
            hdr = rng.choice([v for v in VERSIONS if v != ver])
            built_for = dict(c, ver=hdr)
            if hdr == (3, 0) and built_for['mac'] not in ('md5', 'sha1'):
                built_for['mac'], hdr = c['mac'], ver          # no SSLv3 MAC for SHA-2: keep it honest
                built_for = c
        build_record(rng, built_for, L, p, mut if (L > 0 or mut != 'flip-data') else 'flip-mac')
        data = bytearray(built_for['data'])
        if len(data) % bs:
            data = data[:len(data) - len(data) % bs] or bytearray(bs)
        c['data'], c['hdr'], c['cls'] = bytes(data), hdr, built_for.get('cls', 'none')
        recs.append(c)
    return dict(base, kind=kind, recs=recs)


def run_record_sequence(sc):
    """[( 'ok', type, plaintext ) | ('exc', name)] up to and including the first failure"""
    from tlslite.recordlayer import RecordLayer, ConnectionState
    ver = tuple(sc['ver'])
    snd = mk_cipher(sc['cipher'], sc['ckey'], sc['iv'])          # one sender cipher: CBC chaining for TLS <= 1.0
    wire = bytearray()
    for c in sc['recs']:
        body = bytes(c['data'])
        if ver >= (3, 2):
            body = bytes(rng_iv(c)) + body
        ct = snd.encrypt(bytearray(body))
        wire += bytes([c['ty'], c['hdr'][0], c['hdr'][1], len(ct) >> 8, len(ct) & 255]) + bytes(ct)
    rl = RecordLayer(_FeedSock(wire))
    rl.version = ver
    st = ConnectionState()
    st.encContext = mk_cipher(sc['cipher'], sc['ckey'], sc['iv'])
    st.macContext = mk_mac(sc)
    st.seqnum = sc['start']
    rl._readState = st
    out = []
    for c in sc['recs']:
        try:
            r = None
            for r in rl.recvRecord():
                if r in (0, 1):
                    raise RuntimeError('would block')
                break
            out.append(('ok', r[0].type, bytes(r[1].bytes)))
        except Exception as e:  # noqa
            out.append(('exc', type(e).__name__))
            break
    return out


def rng_iv(c):
    """deterministic explicit IV of a record (any value is legal)"""
    import hashlib as _hl
    return _hl.sha256(bytes(c['seq']) + bytes(c['ckey'])).digest()[:c['bs']]


def record_sequence_expect(sc):
    """None in a position = the property does not decide it (well-formed body under a foreign header version)."""
    out = []
    for c in sc['recs']:
        spec_case = dict(c)                                   # negotiated version, the record's own sequence number
        if py_spec(spec_case):
            d = bytes(c['data'])
            out.append(('ok', c['ty'], d[:len(d) - d[-1] - 1 - c['ds']]) if tuple(c['hdr']) == tuple(sc['ver']) else None)
        else:
            out.append(('exc', 'TLSBadRecordMAC'))
            break
    return out


def sequence_agrees(got, want):
    for g, w in zip(got, want):
        if w is None:
            return True                                       # undecided from here on
        if g != w:
            return False
    return len(got) == len(want)


def record_level_expect(c):
    if py_spec(c):
        d = bytes(c['data'])
        return ('ok', d[:len(d) - d[-1] - 1 - c['ds']])
    return ('exc', 'TLSBadRecordMAC')


def case_lit(case, impl):
    ok, code, table = impl
    if case['mac'].startswith('toy'):
        mac = '(toy_hmac %s %d %d)' % (blit(case['key']), case['ds'], case['mbs'])
    else:
        tl = ';'.join('(%s,%s)' % (blit(k), blit(v)) for k, v in sorted(table.items(), key=lambda kv: len(kv[0])))
        mac = '{| mac_ds := %d; mac_bs := %d; mac_fn := table_lookup [%s]; mac_acc := [] |}' % (
            case['ds'], case['mbs'], tl)
    return '(%s, %s, %s, %s, (%d,%d), %d, %s, %d)' % (
        blit(case['data']), mac, blit(case['seq']), zlit(case['ty']), case['ver'][0], case['ver'][1],
        case['bs'], 'None' if ok is None else '(Some %s)' % vlib.boollit(ok), code)


EXPECTED_SITES = [['tlslite/recordlayer.py', '_decryptThenMAC',
                   ['data', 'self._readState.macContext', 'seqnumBytes', 'recordType', 'self.version',
                    'self._readState.encContext.block_size']]]


def call_sites():
    """every call of ct_check_cbc_mac_and_pad in tlslite/ with its argument expressions"""
    import ast
    out = []
    root = os.path.join(vlib.REPO, 'tlslite')
    for dp, dn, fn in os.walk(root):
        for f in sorted(fn):
            if not f.endswith('.py'):
                continue
            path = os.path.join(dp, f)
            try:
                tree = ast.parse(open(path).read())
            except SyntaxError:
                out.append([os.path.relpath(path, vlib.REPO), '<syntax error>', []])
                continue
            for fd in ast.walk(tree):
                if isinstance(fd, (ast.FunctionDef, ast.AsyncFunctionDef)):
                    for n in ast.walk(fd):
                        if isinstance(n, ast.Call) and getattr(n.func, 'id', getattr(n.func, 'attr', None)) == 'ct_check_cbc_mac_and_pad':
                            out.append([os.path.relpath(path, vlib.REPO), fd.name,
                                        [ast.unparse(a) for a in n.args] + ['%s=%s' % (k.arg, ast.unparse(k.value)) for k in n.keywords]])
    return sorted(out)


PREAMBLE = '''
Definition CaseT := (list Z * HMac * list Z * Z * (Z * Z) * Z * option bool * Z)%type.
Definition chk_model (c : CaseT) : bool :=
  let '(data, mac, seq, ty, ver, bs, impl, code) := c in
  res_matches Bool.eqb (ct_check_cbc_mac_and_pad data mac seq ty ver bs) impl code.
Definition chk_spec (c : CaseT) : bool :=
  let '(data, mac, seq, ty, ver, bs, impl, code) := c in
  match impl with Some b => Bool.eqb (well_formed ver bs mac seq ty data) b | None => false end.
'''


SEQ_PREAMBLE = '''
Definition SeqT := (Z * nat * list (option (list Z)) * Z)%type.
Definition out_eqb (a : res (list Z)) (b : option (list Z)) : bool :=
  match a, b with
  | Ok x, Some y => list_eqb x y
  | Err ValueError, None => true
  | _, _ => false
  end.
Fixpoint outs_eqb (a : list (res (list Z))) (b : list (option (list Z))) : bool :=
  match a, b with
  | [], [] => true
  | x :: xs, y :: ys => out_eqb x y && outs_eqb xs ys
  | _, _ => false
  end.
Definition chk_seq (c : SeqT) : bool :=
  let '(start, k, outs, fin) := c in
  let '(rs, st) := get_seqs k {| sq_num := start |} in
  outs_eqb rs outs && Z.eqb (sq_num st) fin.
'''


def seq_model_cases(ctx, n):
    """real ConnectionState.getSeqNumBytes, k consecutive calls from starting points next to every carry"""
    from tlslite.recordlayer import ConnectionState
    lits, meta = [], []
    starts = [e + d for e in SEQ_EDGES for d in (-1, 0, 1) if e + d >= 0] + [2**64 - 2, 2**64 - 1, 2**64]
    starts += [ctx.rng.randrange(2**64) for _ in range(n)]
    for start in starts:
        k = ctx.rng.choice([1, 2, 3, 5])
        st = ConnectionState()
        st.seqnum = start
        outs = []
        for _ in range(k):
            try:
                outs.append('(Some %s)' % blit(bytes(st.getSeqNumBytes())))
            except ValueError:
                outs.append('None')
            except Exception as e:  # noqa
                outs.append('(Some [%d])' % (1000 + EXC.get(type(e).__name__, 100)))      # never equal to a model output
        fin = st.seqnum if isinstance(st.seqnum, int) else -1
        lits.append('(%s, %d%%nat, [%s], %s)' % (zlit(start), k, ';'.join(outs), zlit(fin)))
        meta.append((start, k))
    return lits, meta


def jcase(c):
    return {k: (v.hex() if isinstance(v, (bytes, bytearray)) else v) for k, v in c.items()}


def jseq(sc):
    d = jcase({k: v for k, v in sc.items() if k != 'recs'})
    d['recs'] = [jcase(r) for r in sc['recs']]
    return d


def ct_helper_cases(ctx, n):
    """translation validation of the small ct_* helpers"""
    from tlslite.utils import constanttime as ct
    rng = ctx.rng
    fns2 = ['ct_lt_u32', 'ct_gt_u32', 'ct_le_u32', 'ct_neq_u32', 'ct_eq_u32']
    fns1 = ['ct_lsb_prop_u8', 'ct_lsb_prop_u16', 'ct_isnonzero_u32']
    vals = [0, 1, 2, 255, 256, 2**31 - 1, 2**31, 2**31 + 1, 2**32 - 1, 2**32 - 2]
    lits, meta = [], []
    for f in fns2:
        pairs = [(a, b) for a in vals for b in vals] + [(rng.randrange(2**32), rng.randrange(2**32)) for _ in range(n)]
        for a, b in pairs:
            r = getattr(ct, f)(a, b)
            lits.append('Z.eqb (%s %d %d) %d' % (f, a, b, r))
            meta.append((f, a, b, r))
    for f in fns1:
        for a in vals + [rng.randrange(2**32) for _ in range(n)]:
            r = getattr(ct, f)(a)
            lits.append('Z.eqb (%s %d) %d' % (f, a, r))
            meta.append((f, a, None, r))
    return lits, meta


def run(ctx):
    quick = ctx.tier == 'quick'
    ok, msg = units.generate('ConstantTime', vlib.COQ)
    ctx.log('translator: %s' % msg)
    tie_broken = None
    if not ok:
        tie_broken = msg
    res = vlib.proof_stage(ctx, 'Props/C12.v',
                           model_targets=['Gen/ConstantTime.vo', 'Spec/CbcCheck.vo', 'Toy/ToyMac.vo', 'Model/C12_Seq.vo'])
    ctx.log('proof stage ok=%s failing=%s' % (res['ok'], res['failing']))
    ctx.cov['trusted_base'] = [
        'Coq 8.16.1 kernel + vm_compute (case evaluation)',
        'translator/pylite.py (Python ast -> Gallina; semantics table in its docstring), validated on every run',
        'hashlib/hmac objects: copy/update/digest = function of the concatenated input (oracle mac_fn)',
        'Spec/CbcCheck.v well_formed as the reading of RFC 5246 6.2.3.2 / RFC 6101 5.2.3.2',
    ]
    ctx.assumptions += ['body length < 65536 and bytes in 0..255 (record layer bounds bodies by 2^14+2048)',
                        'mac digest has digest_size bytes; block_size > 0']
    n_cases = 500 if quick else 6000
    cases = gen_cases(ctx, n_cases, 330 if quick else 420, 0.25)
    found = False
    # ---- the property on the implementation itself (search oracle; needs no Coq)
    impls = []
    for c in cases:
        real = not c['mac'].startswith('toy')
        impl = run_impl(c, record=real)
        impls.append(impl)
        want = py_spec(c)
        lb = min(len(c['data']) // 32, 12)
        ctx.count('impl-vs-python-spec', 1, [(tuple(c['ver']), c['mac'], c['cls'], lb, want)],
                  sample=jcase(c) if len(impls) % 97 == 1 else None)
        if impl[0] is None or impl[0] != want:
            found = True
            ctx.violation('ct_check!=spec:%s:len=ds+%d' % (c['cls'], len(c['data']) - c['ds']),
                          'ct_check_cbc_mac_and_pad returns %r (exc code %d) but the body is %swell-formed'
                          % (impl[0], impl[1], '' if want else 'not '),
                          {'case': jcase(c), 'impl': impl[0], 'spec': want,
                           'how': 'PYTHONPATH=/repo: call tlslite.utils.constanttime.ct_check_cbc_mac_and_pad on case '
                                  '(mac=hmac.new(key,digestmod) or harness/toys.ToyMac)'})
    ctx.log('impl vs python spec: %d cases' % len(cases))
    # ---- the call site in the record layer (block size argument, stripping), against the same spec
    import inspect
    from tlslite.recordlayer import RecordLayer as _RL
    direct_ok = [q for q in inspect.signature(_RL._decryptThenMAC).parameters] == ['self', 'recordType', 'data']
    if not direct_ok:
        # a different signature is a refactoring, not a verdict: the method is then exercised through
        # recvRecord only (next stream) and the changed call site is reported by the site table below
        ctx.log('RecordLayer._decryptThenMAC%s: direct stream skipped' % (inspect.signature(_RL._decryptThenMAC),))
    for k in range((400 if quick else 6000) if direct_ok else 0):
        c = record_level_case(ctx.rng)
        got, want = run_record_level(c), record_level_expect(c)
        ctx.count('recordlayer._decryptThenMAC-vs-python-spec', 1,
                  [(tuple(c['ver']), c['mac'], c['cipher'], c['cls'], want[0])],
                  sample=jcase(c) if k % 131 == 7 else None)
        if got != want:
            found = True
            ctx.violation('decryptThenMAC!=spec:%s:%s:%s' % (c['cipher'], 'ssl3' if tuple(c['ver']) == (3, 0) else 'tls', c['cls']),
                          'RecordLayer._decryptThenMAC gives %r, the specification %r' % (got, want),
                          {'case': jcase(c), 'impl': repr(got), 'spec': repr(want), 'level': 'record',
                           'how': 'harness/props/C12.py run_record_level(case) on /repo'})
    # ---- whole receive path, consecutive records, sequence numbers next to every carry boundary
    for k in range(300 if quick else 4000):
        sc = record_sequence_case(ctx.rng)
        try:
            got = run_record_sequence(sc)
        except Exception as e:  # noqa
            got = [('harness-exc', type(e).__name__)]
        want = record_sequence_expect(sc)
        ctx.count('recordlayer.recvRecord-sequence-vs-python-spec', 1,
                  [(tuple(sc['ver']), sc['mac'], sc['cipher'], sc['kind'], sc['start'].bit_length() // 8, len(want))],
                  sample=jseq(sc) if k % 97 == 5 else None)
        if not sequence_agrees(got, want):
            found = True
            ctx.violation('recvRecord!=spec:%s:%s:%s' % ('ssl3' if tuple(sc['ver']) == (3, 0) else 'tls', sc['kind'],
                                                        'seq>=2^32' if sc['start'] + 2 >= 2**32 else 'seq<2^32'),
                          'RecordLayer.recvRecord over three consecutive records starting at sequence number %d gives %r, '
                          'the specification %r' % (sc['start'], got, want),
                          {'case': jseq(sc), 'impl': repr(got), 'spec': repr(want), 'level': 'record-sequence',
                           'how': 'harness/props/C12.py run_record_sequence(case) on /repo'})
    # ---- call sites of the check, extracted from the source: arguments as modelled
    sites = call_sites()
    ctx.cov['call_sites'] = sites
    if sites != EXPECTED_SITES and not found:
        ctx.violation('call-sites-changed', 'call sites of ct_check_cbc_mac_and_pad differ from the modelled ones: %r' % (sites,),
                      {'extracted': sites, 'expected': EXPECTED_SITES}, found_input=False)
        found = True
    # ---- model (generated) and Coq spec evaluated on the same cases
    if res['model_ok'] and tie_broken is None:
        lits = [case_lit(c, i) for c, i in zip(cases, impls)]
        (bad_model, bad_spec), errs = vlib.coq_bad_indices(
            'C12', ['Gen.ConstantTime', 'Spec.CbcCheck', 'Toy.ToyMac'], 'CaseT',
            ['chk_model', 'chk_spec'], lits, shard=max(8, (len(lits) + 15) // 16) if quick else 100, preamble=PREAMBLE,
            timeout=900 if quick else 6000)
        ctx.count('model-vs-impl(vm_compute)', len(lits), [('n', len(lits) - len(bad_model))])
        for e in errs:
            tie_broken = 'case evaluation failed: ' + e[:300]
        for i in bad_model[:5]:
            ctx.log('model/impl disagreement on case %d' % i)
            if not found:
                tie_broken = 'generated model disagrees with implementation on case %s' % jcase(cases[i])
        for i in bad_spec[:5]:
            found = True
            ctx.violation('coq-spec!=impl:%s' % cases[i]['cls'], 'Spec.CbcCheck.well_formed disagrees with implementation',
                          {'case': jcase(cases[i]), 'impl': impls[i][0]})
        hl, hm = ct_helper_cases(ctx, 40 if quick else 400)
        badh, errs = vlib.coq_bad_indices('C12h', ['Gen.ConstantTime'], 'bool', '(fun b : bool => b)', hl, shard=400)
        ctx.count('ct-helpers-model-vs-impl', len(hl), [(m[0],) for m in hm])
        for e in errs:
            tie_broken = 'helper evaluation failed: ' + e[:300]
        for i in badh[:3]:
            tie_broken = 'generated %s disagrees with implementation on %r' % (hm[i][0], hm[i][1:])
        sl, sm = seq_model_cases(ctx, 30 if quick else 400)
        bads, errs = vlib.coq_bad_indices('C12s', ['Model.C12_Seq'], 'SeqT', 'chk_seq', sl, shard=400, preamble=SEQ_PREAMBLE)
        ctx.count('seqnum-model-vs-impl', len(sl), [(m[0].bit_length(), m[1]) for m in sm])
        for e in errs:
            tie_broken = 'sequence-number evaluation failed: ' + e[:300]
        for i in bads[:3]:
            # the model refuses at 2^64 and never wraps: a disagreement is a wrong sequence number on the wire
            found = True
            ctx.violation('seqnum!=model:start=2^%d' % max(0, sm[i][0].bit_length() - 1),
                          'ConnectionState.getSeqNumBytes, %d calls from sequence number %d, differs from the 8-byte big-endian '
                          'counter (Model/C12_Seq.v)' % (sm[i][1], sm[i][0]), {'start': sm[i][0], 'calls': sm[i][1], 'case': sl[i]})
    elif not res['model_ok']:
        tie_broken = tie_broken or ('generated model does not compile: %s' % res['failing'])
    ctx.cov['rule'] = ('cases = honest sender output (payload 0..%d, every pad byte class, 4 versions, 4 real HMACs + toy MACs) '
                       'followed by one mutation class; non-trivial/distinct = (version, mac, mutation class, '
                       'length bucket, expected verdict)' % (330 if quick else 420))
    if tie_broken and not found:
        ctx.violation('tie-broken', tie_broken, {'correspondence': 'Gen/ConstantTime.v vs tlslite/utils/constanttime.py',
                                                 'detail': tie_broken}, found_input=False)
        found = True
    vlib.broken_proof_verdict(ctx, res, found)


def replay(ctx, path):
    import json
    with open(path) as f:
        r = json.load(f)
    c = r['case']
    for k in ('data', 'key', 'seq'):
        c[k] = bytes.fromhex(c[k])
    impl = run_impl(c)
    print('impl:', impl[:2], 'spec:', py_spec(c))
    return 0 if impl[0] == py_spec(c) else 1
