"""C15: every message and extension codec round-trips and enforces its framing exactly.

Coq (Props/C15.v): generic round-trip / never-truncates / strictness theorems for a format
language, proved once by induction over the format term and for all values / byte strings;
one format term per tlslite class and context, each proved well-formed.
Tie: (1) every Writer/Parser primitive of tlslite/utils/codec.py against Model/C15_Codec.v
(scripts of calls with boundary values, vm_compute); (2) every covered class against its
format term: write() vs encode, parse() vs decode on the encodings and on every truncation,
length-field perturbation and junk insertion, values and re-serialisation compared.
The property's own oracle (parse(write(v)) == v, write(parse(b)) == b, overflow => error,
strictness as decided by the Python mirror of the format language) needs no Coq and is the
failing-input search."""
import json
import os
import struct

import vlib
from vlib import blit, zlit

import c15_fmt as F
from c15_fmt import Some, Tagged, Reject, NoFit
import c15_classes as K

LEVEL = 'proof'
META = {
    'text': 'Coq theorems (Props/C15.v), proved by induction over a format language with a generic encoder/decoder: '
            'decode(encode v) = v for every value that encodes at all (so nothing is truncated or wrapped), '
            'encode(decode b) = the consumed bytes for every byte string, encode succeeds exactly on values whose '
            'fields fit, the only decode failure is DecodeError, no strict prefix / longer or shorter declared length / '
            'trailing byte inside a length-delimited structure is accepted; Writer.add/Parser.get primitive lemmas. '
            'One format term per tlslite message/extension class and context, each proved well-formed. '
            'Every run evaluates model and implementation on the same generated values, all truncations and '
            'length-field perturbations (vm_compute), and runs the round-trip/strictness oracle on the implementation.',
    'note': 'Trusted: Coq kernel + vm_compute; that the hand-written format terms / primitive models describe the '
            'classes is correspondence-checked (not proved) on the generated cases; opaque content (X.509 / SPKI DER, the '
            'deflate stream of CompressedCertificate) and the SSLv2 server messages are outside the model.',
    'technique': 'Rocq/Coq proof (generic over a format DSL) + vm_compute correspondence + direct round-trip oracle',
}
EXC = {'IndexError': 1, 'ValueError': 2, 'AssertionError': 3, 'AttributeError': 4, 'TypeError': 5,
       'KeyError': 6, 'DecodeError': 8, 'ZeroDivisionError': 9}


# =========================================================================================
# 1. primitives: scripts of Writer / Parser calls
def ints_boundary(rng, n):
    top = 256 ** n
    return [-1, 0, 1, 255, 256, top - 1, top, top + 1, rng.randrange(0, max(1, top)), rng.randrange(top, 2 * top + 2)]


def gen_wops(rng, count):
    cases = []
    widths = [0, 1, 2, 3, 4, 5, 8]
    for n in widths:
        for x in ints_boundary(rng, n):
            cases.append([('add', x, n)])
    for name, n in (('addOne', 1), ('addTwo', 2), ('addThree', 3), ('addFour', 4)):
        for x in ints_boundary(rng, n):
            cases.append([(name, x)])
    for n in (1, 2, 3):
        top = 256 ** n
        for seq in ([], [0], [top - 1, 0, 1], [1, top, 2], [1, -1], [rng.randrange(top) for _ in range(5)]):
            cases.append([('addFixSeq', seq, n)])
            for ll in (1, 2, 3):
                cases.append([('addVarSeq', seq, n, ll)])
        for ll, cnt in ((1, 255 // n), (1, 255 // n + 1), (1, 256)):
            cases.append([('addVarSeq', [rng.randrange(top) for _ in range(cnt)], n, ll)])
    for n in (1, 2):
        top = 256 ** n
        for seq in ([], [(1, 2)], [(1, 2), (3, 4)], [(1, 2), (3,)], [(1,), (2, 3)], [(top, 1)], [(1, 2, 3)] * 3,
                    [(0, top - 1)] * 127, [(0, 1)] * 128):
            for ll in (1, 2):
                cases.append([('addVarTupleSeq', [list(t) for t in seq], n, ll)])
    for ll in (1, 2, 3):
        for ln in (0, 1, 255, 256, 300):
            cases.append([('add_var_bytes', bytes(rng.randrange(256) for _ in range(ln)), ll)])
    while len(cases) < count:      # random multi-call scripts
        ops = []
        for _ in range(rng.randrange(2, 6)):
            k = rng.choice(['add', 'addVarSeq', 'add_var_bytes', 'addFixSeq', 'addTwo'])
            n = rng.choice([1, 2, 3])
            if k == 'add':
                ops.append(('add', rng.choice(ints_boundary(rng, n)[1:6] + [rng.randrange(256 ** n)]), n))
            elif k == 'addTwo':
                ops.append(('addTwo', rng.randrange(0, 65600)))
            elif k == 'addFixSeq':
                ops.append(('addFixSeq', [rng.randrange(256 ** n) for _ in range(rng.randrange(4))], n))
            elif k == 'addVarSeq':
                ops.append(('addVarSeq', [rng.randrange(256 ** n) for _ in range(rng.randrange(4))], n, rng.choice([1, 2])))
            else:
                ops.append(('add_var_bytes', bytes(rng.randrange(256) for _ in range(rng.randrange(6))), rng.choice([1, 2])))
        cases.append(ops)
    return cases


def run_wops_impl(ops):
    from tlslite.utils.codec import Writer
    w = Writer()
    try:
        for o in ops:
            args = [bytearray(a) if isinstance(a, bytes) else ([tuple(t) for t in a] if o[0] == 'addVarTupleSeq' and isinstance(a, list) else a)
                    for a in o[1:]]
            getattr(w, o[0])(*args)
        return bytes(w.bytes), 0
    except Exception as e:  # noqa
        return None, EXC.get(type(e).__name__, 100)


def wop_lit(o):
    k = o[0]
    zl = lambda l: vlib.listlit(l, zlit)   # noqa
    if k == 'add':
        return 'WAdd %s %d' % (zlit(o[1]), o[2])
    if k in ('addOne', 'addTwo', 'addThree', 'addFour'):
        return 'W%s %s' % (k[3:], zlit(o[1]))
    if k == 'addFixSeq':
        return 'WFixSeq %s %d' % (zl(o[1]), o[2])
    if k == 'addVarSeq':
        return 'WVarSeq %s %d %d' % (zl(o[1]), o[2], o[3])
    if k == 'addVarTupleSeq':
        return 'WVarTupleSeq %s %d %d' % (vlib.listlit(o[1], zl), o[2], o[3])
    return 'WVarBytes %s %d' % (blit(o[1]), o[2])


def gen_pops(rng, count):
    cases = []

    def buf(n):
        return bytes(rng.randrange(256) for _ in range(n))
    for n in (0, 1, 2, 3, 4, 8):
        for ln in (0, max(0, n - 1), n, n + 1):
            cases.append((buf(ln), [('get', n), ('getRemainingLength',)]))
            cases.append((buf(ln), [('getFixBytes', n), ('get', 1)]))
    for ll in (1, 2, 3):
        for body in (0, 1, 5):
            for short in (0, 1):
                b = body.to_bytes(ll, 'big') + buf(max(0, body - short)) + (buf(2) if not short else b'')
                cases.append((b, [('getVarBytes', ll), ('getRemainingLength',)]))
        cases.append((buf(ll - 1), [('getVarBytes', ll)]))
    for el in (1, 2, 3):
        for ll in (1, 2):
            for total in (0, el, 2 * el, 2 * el + 1, 3 * el - 1):
                for avail in (total, total - 1, total + 3):
                    b = total.to_bytes(ll, 'big') + buf(max(0, avail))
                    cases.append((b, [('getVarList', el, ll), ('getRemainingLength',)]))
            cases.append((buf(el * 3), [('getFixList', el, 3), ('getRemainingLength',)]))
            cases.append((buf(el * 3 - 1), [('getFixList', el, 3)]))
            cases.append((buf(el * 3), [('getFixList', el, 0), ('get', 1)]))
    for el, k in ((1, 2), (2, 2), (1, 3)):
        for total in (0, el * k, 2 * el * k, el * k + 1, 2 * el * k - 1):
            for avail in (total, total - 1, total + 1):
                b = total.to_bytes(2, 'big') + buf(max(0, avail))
                cases.append((b, [('getVarTupleList', el, k, 2), ('getRemainingLength',)]))
    for ll in (1, 2, 3):
        for decl in (0, 2, 4):
            for used in (decl - 1, decl, decl + 1):
                if used < 0:
                    continue
                b = decl.to_bytes(ll, 'big') + buf(6)
                cases.append((b, [('startLengthCheck', ll), ('atLengthCheck',), ('getFixBytes', used),
                                  ('atLengthCheck',), ('stopLengthCheck',), ('getRemainingLength',)]))
    for decl in (0, 1, 3):
        for used in (0, 1, 3, 4):
            cases.append((buf(5), [('get', 1), ('setLengthCheck', decl), ('getFixBytes', used), ('atLengthCheck',),
                                   ('stopLengthCheck',)]))
    for n in (0, 2, 5, 6):
        cases.append((buf(5), [('skip_bytes', n), ('getRemainingLength',), ('get', 1)]))
    names = ['get', 'getFixBytes', 'getVarBytes', 'getVarList', 'startLengthCheck', 'atLengthCheck',
             'stopLengthCheck', 'getRemainingLength', 'skip_bytes', 'getVarTupleList', 'getFixList', 'setLengthCheck']
    while len(cases) < count:
        ops = []
        for _ in range(rng.randrange(2, 7)):
            k = rng.choice(names)
            if k in ('get', 'getFixBytes', 'skip_bytes', 'setLengthCheck'):
                ops.append((k, rng.randrange(0, 4)))
            elif k in ('getVarBytes', 'startLengthCheck'):
                ops.append((k, rng.choice([1, 1, 2])))
            elif k == 'getVarList':
                ops.append((k, rng.choice([1, 2]), 1))
            elif k == 'getVarTupleList':
                ops.append((k, 1, 2, 1))
            elif k == 'getFixList':
                ops.append((k, rng.choice([1, 2]), rng.randrange(3)))
            else:
                ops.append((k,))
        cases.append((bytes(rng.choice([0, 1, 2, 3, 4, rng.randrange(256)]) for _ in range(rng.randrange(0, 14))), ops))
    return cases


def run_pops_impl(bs, ops):
    from tlslite.utils.codec import Parser
    p = Parser(bytearray(bs))
    trace = []
    for o in ops:
        try:
            r = getattr(p, o[0])(*o[1:])
        except Exception as e:  # noqa
            return trace, EXC.get(type(e).__name__, 100), p.index
        if r is None:
            trace.append([])
        elif isinstance(r, bool):
            trace.append([1 if r else 0])
        elif isinstance(r, int):
            trace.append([r])
        elif isinstance(r, (bytes, bytearray)):
            trace.append(list(r))
        elif r and isinstance(r[0], tuple):
            trace.append([len(r)] + [x for t in r for x in t])
        elif o[0] == 'getVarTupleList':
            trace.append([0])
        else:
            trace.append(list(r))
    return trace, 0, p.index


POPN = {'get': 'OGet', 'getFixBytes': 'OFix', 'getVarBytes': 'OVar', 'getFixList': 'OFixList', 'getVarList': 'OVarList',
        'getVarTupleList': 'OVarTup', 'startLengthCheck': 'OStart', 'setLengthCheck': 'OSet', 'stopLengthCheck': 'OStop',
        'atLengthCheck': 'OAt', 'getRemainingLength': 'ORemain', 'skip_bytes': 'OSkip'}


def pop_lit(o):
    return ' '.join([POPN[o[0]]] + [zlit(a) for a in o[1:]])


# =========================================================================================
# 2. classes: value generation
def gen_bytes(rng, n):
    return bytes(rng.randrange(256) for _ in range(n))


def gen_num(rng, lo, hi):
    """canonical big-endian number as numberToByteArray emits it"""
    n = rng.choice([max(1, lo), 1, 2, 16, 33])
    if hi is not None:
        n = min(n, hi)
    b = bytearray(gen_bytes(rng, n))
    if n > 1 and b[0] == 0:
        b[0] = 1 + rng.randrange(255)
    return bytes(b)


def gen_val(f, rng, big=False):
    k = f[0]
    if k == 'U':
        top = 256 ** f[1]
        if id(f) in K.NZ:
            return rng.choice([1, 255, 1 + rng.randrange(255)])
        if id(f) in K.BOOL:
            return rng.randrange(2)
        return rng.choice([0, 1, top - 1, rng.randrange(top), rng.randrange(top)])
    if k == 'Const':
        return f[2]
    if k == 'Fix':
        return gen_bytes(rng, f[1])
    if k == 'Rest':
        lo, hi = f[1], f[2]
        n = rng.choice([lo, lo + 1, lo + rng.randrange(0, 9), lo + rng.randrange(0, 40)] + ([255, 256] if big else []))
        if hi is not None:
            n = min(n, hi)
        return gen_bytes(rng, n)
    if k == 'Seq':
        return (gen_val(f[1], rng, big), gen_val(f[2], rng, big))
    if k == 'Bounded':
        if id(f) in K.NUM:
            inner = f[2]
            return gen_num(rng, inner[1], inner[2])
        if f is K.CERT12 or f is K.CERT13:
            return rng.choice(K.der_certs()[:6])
        if f is K.SPKI:
            return rng.choice(K.spkis())
        for attempt in range(8):        # the body must fit the length field (256 bytes do not fit a 1-byte count)
            v = gen_val(f[2], rng, big and attempt == 0)
            try:
                if len(F.enc(f[2], v)) < 256 ** f[1]:
                    return v
            except NoFit:
                pass
        raise AssertionError('cannot generate a body that fits %r' % (f[:2],))
    if k == 'Rep':
        return [gen_val(f[1], rng, big) for _ in range(rng.choice([0, 1, 1, 2, 3]))]
    if k == 'Check':         # draw from the underlying format, then bring the value into the domain
        v = F.REPAIR[f[1]](gen_val(f[2], rng, big))
        assert F.PRED[f[1]](v)
        return v
    if k == 'Opt':
        return None if rng.random() < 0.15 else Some(gen_val(f[1], rng, big))
    if k == 'Tag':
        ch = f[3]
        if ch == 'random':
            t = K.HRR_INT if rng.random() < 0.35 else int.from_bytes(gen_bytes(rng, 32), 'big')
        else:
            t = rng.choice(ch)
        return Tagged(t, gen_val(f[2](t), rng, big))
    raise AssertionError(k)


def shapes(f, rng, cap=16):
    """a covering set of values for the STRUCTURAL choices of a format: every optional part absent / present,
    every list empty / one element / two elements, every opaque string empty / one byte / longer, in all
    combinations up to `cap` per node (sampled beyond).  Guarantees None vs [] vs [x] and b'' vs data for
    every field, on the encode side and through the round trip."""
    k = f[0]

    def capped(l):
        if len(l) > cap:
            keep = [l[0], l[-1]] + rng.sample(l[1:-1], cap - 2)
            return keep
        return l
    if k == 'U' and id(f) in K.BOOL:
        return [0, 1]                       # every boolean / flag field both ways
    if k in ('U', 'Const', 'Fix'):
        return [gen_val(f, rng)]
    if k == 'Rest':
        lo, hi = f[1], f[2]
        out = [gen_bytes(rng, lo)]
        for n in (lo + 1, lo + 5):
            if hi is None or n <= hi:
                out.append(gen_bytes(rng, n))
        return out
    if k == 'Seq':
        A, B = shapes(f[1], rng, cap), shapes(f[2], rng, cap)
        if len(A) * len(B) <= cap:
            return [(a, b) for a in A for b in B]
        out = [(a, B[i % len(B)]) for i, a in enumerate(A)] + [(A[i % len(A)], b) for i, b in enumerate(B)]
        return capped(out)
    if k == 'Bounded':
        if id(f) in K.NUM or id(f) in K.OPAQUE:
            return [gen_val(f, rng)]
        return shapes(f[2], rng, cap)
    if k == 'Rep':
        E = shapes(f[1], rng, cap)
        out = [[]] + [[e] for e in E]
        out.append([E[0], E[-1]])
        out.append([gen_val(f[1], rng) for _ in range(3)])
        return capped(out)
    if k == 'Opt':
        return [None] + [Some(x) for x in shapes(f[1], rng, cap)]
    if k == 'Check':
        return [F.REPAIR[f[1]](x) for x in shapes(f[2], rng, cap)]
    if k == 'Tag':
        ch = f[3]
        if ch == 'random':
            ts = [K.HRR_INT, int.from_bytes(gen_bytes(rng, 32), 'big')]
        elif len(f) > 4:           # an extension inside a message: a few types here, all types in the Extension classes
            ts = rng.sample(ch, 3)
        else:
            ts = sorted(set(ch))
            if len(ts) > 6:
                ts = rng.sample(ts, 6)
        out = []
        for t in ts:
            out += [Tagged(t, x) for x in shapes(f[2](t), rng, max(4, cap // len(ts)))]
        return capped(out)
    raise AssertionError(k)


def all_ext_values(ctx, rng):
    """one value of every extension type known in the context, plus the Opt-None forms"""
    f = K.EXT[ctx]
    out = []
    for t in f[3]:
        inner = f[2](t)
        out += [Tagged(t, x) for x in shapes(inner, rng, 12)]        # None / [] / [x] / b'' / data ... of every field
        out.append(Tagged(t, gen_val(inner, rng, big=True)))
    return out


def blobs(f, v):
    """the opaque (DER / compressed) byte strings inside a value"""
    k = f[0]
    if id(f) in K.OPAQUE:
        yield bytes(v)
    elif k == 'Seq':
        for x in blobs(f[1], v[0]):
            yield x
        for x in blobs(f[2], v[1]):
            yield x
    elif k == 'Bounded':
        for x in blobs(f[2], v):
            yield x
    elif k == 'Rep':
        for e in v:
            for x in blobs(f[1], e):
                yield x
    elif k == 'Opt':
        if v is not None:
            for x in blobs(f[1], v.v):
                yield x
    elif k == 'Tag':
        for x in blobs(f[2](v.t), v.v):
            yield x
    elif k == 'Check':
        for x in blobs(f[2], v):
            yield x


def overflow_variants(f, v, rng, path=()):
    """values derived from v in which exactly one field does not fit its width"""
    k = f[0]
    if k == 'U':
        if id(f) in K.BOOL:
            return       # a Python bool: every value "fits" (coerced by bool())
        yield rng.choice([256 ** f[1], -1, 256 ** f[1] + rng.randrange(1000)]), path + ('U%d' % f[1],)
    elif k == 'Seq':
        for x, p in overflow_variants(f[1], v[0], rng, path):
            yield (x, v[1]), p
        for x, p in overflow_variants(f[2], v[1], rng, path):
            yield (v[0], x), p
    elif k == 'Bounded':
        inner = f[2]
        if inner[0] == 'Rest' and f[1] <= 2 and id(f) not in K.NUM:
            yield gen_bytes(rng, 256 ** f[1]), path + ('Var%d' % f[1],)
        elif inner[0] == 'Rep' and inner[1][0] == 'U' and f[1] == 1:
            el = inner[1][1]
            yield [0] * (256 // el + 1), path + ('VarList%d_1' % el,)
        else:
            for x, p in overflow_variants(inner, v, rng, path):
                yield x, p
    elif k == 'Rep':
        for i, e in enumerate(v[:2]):
            for x, p in overflow_variants(f[1], e, rng, path):
                yield v[:i] + [x] + v[i + 1:], p
    elif k == 'Check':
        for x, p in overflow_variants(f[2], v, rng, path):
            yield x, p
    elif k == 'Opt':
        if v is not None:
            for x, p in overflow_variants(f[1], v.v, rng, path):
                yield Some(x), p
    elif k == 'Tag':
        if len(f) > 4:          # extension type itself
            yield Tagged(65536, b''), path + ('exttype',)
        for x, p in overflow_variants(f[2](v.t), v.v, rng, path + ('t%d' % v.t if f[1] <= 2 else 'tag',)):
            yield Tagged(v.t, x), p


# =========================================================================================
# 3. framing perturbations of an encoding
def perturb(bs, marks, rng, full, light=False):
    """-> list of (kind, site, bytes).  site = labelled tag (extension type) around the field, or None.
    Fields are the length fields of the encoding and the tag fields that steer the parse (extension type,
    layout version, the length words of the SSLv2 hello): each is changed by +1/-1/+2/=0 alone, and together
    with a byte inserted at / removed from the end of what it governs (all enclosing length fields adjusted),
    so that "every byte is there but the inner count is wrong" is reached for every count."""
    out = []
    n = len(bs)
    fields = marks.fields
    if light:        # very large encodings (2^16 / 2^24 boundaries): a handful of perturbations only
        fields = fields[:2] + fields[-1:] if len(fields) > 3 else fields
        ks = sorted(set([0, 1, n // 2, n - 1]))
    elif n <= 160 or full:
        ks = range(n) if n <= 1200 else sorted(set(rng.randrange(n) for _ in range(600)))
    else:
        near = set()
        for (off, w, b0, b1, _, _) in fields:
            near.update(x for x in (off, off + w - 1, off + w, b1 - 1, b1, b1 + 1) if 0 <= x < n)
        near.update(rng.randrange(n) for _ in range(40))
        near.update(range(min(n, 8)))
        ks = sorted(near)
    for k in ks:
        out.append(('truncate', None, bs[:k]))
    for i, (off, w, b0, b1, site, fk) in enumerate(fields):
        L = int.from_bytes(bs[off:off + w], 'big')
        top = 256 ** w
        pre = '' if fk == 'len' else 'tag:'
        for d, nm in ((1, 'len+1'), (-1, 'len-1'), (2, 'len+2')):
            if 0 <= L + d < top:
                out.append((pre + nm, site, bs[:off] + (L + d).to_bytes(w, 'big') + bs[off + w:]))
        if L != 0:
            out.append((pre + 'len=0', site, bs[:off] + bytes(w) + bs[off + w:]))
        enclosing = [j for j, (o2, w2, c0, c1, _, k2) in enumerate(fields)
                     if j != i and k2 == 'len' and c0 <= off and c1 >= b1]
        for junk in (b'\x00', bytes([1 + rng.randrange(255)])):
            b = bytearray(bs[:b1] + junk + bs[b1:])
            ok = True
            for j in [i] + enclosing:
                o2, w2 = fields[j][0], fields[j][1]
                x = int.from_bytes(b[o2:o2 + w2], 'big') + 1
                if x >= 256 ** w2:
                    ok = False
                    break
                b[o2:o2 + w2] = x.to_bytes(w2, 'big')
            if ok:
                out.append((pre + 'junk-inside', site, bytes(b)))
        if b1 > b0:
            b = bytearray(bs[:b1 - 1] + bs[b1:])
            ok = True
            for j in [i] + enclosing:
                o2, w2 = fields[j][0], fields[j][1]
                x = int.from_bytes(b[o2:o2 + w2], 'big') - 1
                if x < 0:
                    ok = False
                    break
                b[o2:o2 + w2] = x.to_bytes(w2, 'big')
            if ok:
                out.append((pre + 'short-inside', site, bytes(b)))
    out.append(('junk-after', None, bs + b'\x00'))
    out.append(('junk-after', None, bs + gen_bytes(rng, 3)))
    return out


# =========================================================================================
def decode_errors(cls):
    from tlslite.utils.codec import DecodeError, BadCertificateError
    return (SyntaxError, DecodeError, BadCertificateError) + tuple(cls.reject)


def impl_parse(cls, bs):
    """-> ('ok', value, consumed, rewritten) | ('reject', excname) | ('crash', excname)"""
    try:
        o, used = cls.parse(bs)
    except decode_errors(cls) as e:
        return ('reject', type(e).__name__)
    except Exception as e:  # noqa
        return ('crash', type(e).__name__)
    if cls.whole and used != len(bs):
        return ('crash', 'accepted-with-unconsumed-bytes')
    try:
        v = cls.view(o)
    except Exception as e:  # noqa
        return ('crash', 'view:' + type(e).__name__)
    try:
        w = bytes(o.write())
    except Exception as e:  # noqa
        return ('ok', v, used, 'write-raises:' + type(e).__name__)
    return ('ok', v, used, w)


def mirror_parse(cls, bs):
    try:
        v, r = F.dec(cls.fmt, bs)
    except Reject:
        return None
    if cls.whole and r:
        return None
    return v, len(r)


def vkey(cls, v):
    if cls.name.startswith('Extension(') and isinstance(v, Tagged):
        return site_key(cls, (cls.ext_ctx, v.t), '')
    return cls.name


def failing_ext(cls, v):
    """the extension inside a message value whose own write() raises, as a site key (or None)"""
    if cls.ext_ctx is None:
        return None
    found = []

    def walk(x):
        if isinstance(x, Tagged):
            if isinstance(x.t, int) and x.t < 65536 and not found:
                for c in (cls.ext_ctx, 'CtxHRR', 'CtxUniversal'):
                    try:
                        K.ext_build(c, x).write()
                        break
                    except (AssertionError, KeyError, IndexError):
                        continue          # not an extension value of that context
                    except Exception:  # noqa
                        found.append(site_key(cls, (c, x.t), ''))
                        break
            walk(x.v)
        elif isinstance(x, Some):
            walk(x.v)
        elif isinstance(x, (tuple, list)):
            for y in x:
                walk(y)
    # a top-level tag of a message (SessionTicketPayload version) is not an extension
    walk(v.v if isinstance(v, Tagged) and not cls.name.startswith('Extension(') else v)
    return found[0] if found else None


def site_key(cls, site, kind):
    if site is not None:
        ctx, t = site
        if t not in K.SPECIAL.get(ctx, ()):
            ctx = 'CtxUniversal'
        return 'ext(%s):type=%d' % (ctx[3:], t)
    return cls.name


def hexs(b):
    return bytes(b).hex()


class Run(object):
    def __init__(self, ctx):
        self.ctx = ctx
        self.found = False
        self.tie_broken = None
        self.enc_lits, self.dec_lits, self.noenc_lits = [], [], []
        self.rh2_lits = []
        self.enc_meta, self.dec_meta, self.noenc_meta = [], [], []

    def viol(self, key, what, rep):
        if self.ctx.violation(key, what, rep):      # False: a registered known finding
            self.found = True

    # ---- one well-formed value through everything
    def value_case(self, cls, v, rng, n_coq_dec, full=False, coq=True, light=False):
        ctx = self.ctx
        marks = F.Marks()
        try:
            bs = F.enc(cls.fmt, v, marks)
        except NoFit as e:
            # the generators must draw from exactly the domain of the format term (= Coq wf_val, checked by
            # chk_enc on every value): a drawn value outside it is a harness defect, reported, never skipped
            if not self.found:
                self.tie_broken = 'generator produced a value outside the domain of %s (%s): %s' % (
                    cls.coq, e, repr(F.val_json(v))[:300])
            return
        rep = {'class': cls.name, 'coq_fmt': cls.coq, 'value': F.val_json(v), 'bytes': hexs(bs),
               'how': 'PYTHONPATH=/repo:/verif/harness ; c15_classes.build_table() entry of this class: '
                      'build(value).write(), parse(bytes); see harness/props/C15.py replay()'}
        # -- the property itself on the implementation: write, parse back, compare, re-serialise
        try:
            obj = cls.build(v)
            wb = bytes(obj.write())
        except Exception as e:  # noqa
            self.viol('write-raises:' + (failing_ext(cls, v) or vkey(cls, v)),
                      '%s: write() of a value that parse() produces raises %s' % (cls.name, type(e).__name__),
                      dict(rep, exc=repr(e)))
            return
        ctx.count('impl-roundtrip', 1, [(cls.name, len(bs) // 64, isinstance(v, Tagged) and v.t)],
                  sample=rep if ctx.cov['evaluations'] % 211 == 0 else None)
        r = impl_parse(cls, wb)
        if r[0] != 'ok' or r[1] != v or r[2] != len(wb) or r[3] != wb:
            self.viol('roundtrip:' + vkey(cls, v),
                      '%s: parse(write(v)) differs from v or does not re-serialise identically: %r' % (cls.name, r[:1] + r[2:3]),
                      dict(rep, written=hexs(wb), parsed=repr(r)[:2000]))
        if wb != bs:
            if not self.found:
                self.tie_broken = 'format term %s does not describe %s.write(): %s vs %s' % (cls.coq, cls.name, hexs(bs)[:200], hexs(wb)[:200])
            return
        if coq and len(bs) <= 6000:
            self.enc_lits.append('(%s, %s, %s)' % (cls.coq, F.coq_val(v), blit(bs)))
            self.enc_meta.append(rep)
        # -- strictness on every perturbation
        perts = perturb(bs, marks, rng, full, light)
        picked = set(rng.sample(range(len(perts)), min(len(perts), n_coq_dec))) if coq else ()
        for pi, (kind, site, pb) in enumerate(perts):
            m = self.compare(cls, kind, site, pb, rep)
            if m is not False and pi in picked and len(pb) <= 6000:
                exp = 'None' if m is None else '(Some (%s, %d))' % (F.coq_val(m[0]), m[1])
                self.dec_lits.append('(%s, %s, %s, %s)' % (cls.coq, vlib.boollit(cls.whole), blit(pb), exp))
                self.dec_meta.append(dict(rep, perturbation=kind, input=hexs(pb)))

    def compare(self, cls, kind, site, pb, rep):
        """one (possibly malformed) input: the real parser must accept exactly when the framing does,
        with the same value and extent, and re-serialise identically.  Returns the framing's verdict
        (False: input not comparable)."""
        ctx = self.ctx
        m = mirror_parse(cls, pb)
        if cls.hdr is not None and m is not None and m[1] > 0:
            return False     # not a single whole handshake message: parse() is only ever given exactly one
        r = impl_parse(cls, pb)
        ctx.count('impl-strictness', 1, [(cls.name, kind, m is None, site)])
        prep = dict(rep, perturbation=kind, input=hexs(pb), mirror='reject' if m is None else 'accept',
                    impl=repr(r)[:600])
        if site is None and cls.name.startswith('Extension(') and len(pb) >= 2:
            site = (cls.ext_ctx, int.from_bytes(pb[:2], 'big'))     # the extension type the input announces
        sk = site_key(cls, site, kind)
        if m is not None and r[0] != 'crash':
            known = K.known_blobs()
            if any(d not in known for d in blobs(cls.fmt, m[0])):
                return False     # the perturbation changed DER / compressed content, which is outside the model
        if r[0] == 'crash':
            self.viol('crash:%s:%s' % (sk, r[1]), '%s: %s on a malformed input instead of a decode error (%s)' % (cls.name, r[1], kind), prep)
        elif r[0] == 'ok' and m is None:
            self.viol('lax:' + sk,
                      '%s accepts an input the framing forbids (%s): %s' % (cls.name, kind, hexs(pb)[:120]), prep)
        elif r[0] == 'reject' and m is not None:
            # the format accepts: is it the class's own serialisation of that value?
            try:
                again = bytes(cls.build(m[0]).write())
            except Exception:  # noqa
                again = None
            if again is not None and again == pb[:len(pb) - m[1]]:
                self.viol('roundtrip-reject:' + sk, '%s rejects its own serialisation' % cls.name, prep)
            elif not self.found:
                self.tie_broken = 'format term %s accepts what %s.parse rejects (%s): %s' % (cls.coq, cls.name, kind, hexs(pb)[:160])
        elif r[0] == 'ok':
            cm = cls.canon(m[0])
            if cm != m[0]:
                if r[1] != cm or r[3] != F.enc(cls.fmt, cm):
                    self.viol('misparse:' + sk, '%s: documented normalisation not honoured (%s)' % (cls.name, kind), prep)
            elif r[1] != m[0] or r[2] != len(pb) - m[1]:
                self.viol('misparse:' + sk, '%s accepts a perturbed input with a different value/extent than the framing says (%s)' % (cls.name, kind), prep)
            elif isinstance(r[3], str):
                self.viol('write-raises:' + sk, '%s: parse() accepts an input (%s) whose value write() cannot serialise: %s' % (cls.name, kind, r[3]), prep)
            elif r[3] != pb[:r[2]]:
                self.viol('reserialise:' + sk,
                          '%s: write(parse(b)) != b for an accepted b (%s): %s' % (cls.name, kind, str(r[3])[:80]), prep)
        return m

    # ---- a value with one field that does not fit
    def overflow_case(self, cls, v, path, coq=True):
        ctx = self.ctx
        try:
            F.enc(cls.fmt, v)
            return      # the variant happens to fit (not an overflow)
        except NoFit:
            pass
        rep = {'class': cls.name, 'coq_fmt': cls.coq, 'value': repr(F.val_json(v))[:3000], 'field': '/'.join(path)}
        ctx.count('impl-overflow', 1, [(cls.name, path[-1])])
        try:
            wb = bytes(cls.build(v).write())
        except Exception:  # noqa   (ValueError / struct.error / OverflowError ...: refused, as required)
            wb = None
        if wb is not None:
            r = impl_parse(cls, wb)
            if not (r[0] == 'ok' and r[1] == v):
                self.viol('truncates:%s:%s' % (cls.name, path[-1]),
                          '%s.write() silently emits a value that does not fit field %s' % (cls.name, '/'.join(path)),
                          dict(rep, written=hexs(wb)[:400]))
        lit = F.coq_val(v)
        if coq and len(lit) < 8000:
            self.noenc_lits.append('(%s, %s)' % (cls.coq, lit))
            self.noenc_meta.append(rep)


def big_boundary_cases(table, rng, thorough):
    """2^16 / 2^24 boundary sizes, implementation + mirror only (literals too large for Coq)"""
    by = {c.name: c for c in table}
    out = []
    out.append((by['Heartbeat'], F.tup([1, gen_bytes(rng, 65535), b'']), True))
    out.append((by['Extension(Universal)'], Tagged(21, bytes(65535)), True))
    out.append((by['Extension(Universal)'], Tagged(35, gen_bytes(rng, 65535)), True))
    out.append((by['Extension(Universal)'], Tagged(4660, gen_bytes(rng, 65536)), False))
    out.append((by['NewSessionTicket(tls1.2)'], (4, (7, gen_bytes(rng, 65535))), True))
    out.append((by['NewSessionTicket(tls1.2)'], (4, (7, gen_bytes(rng, 65536))), False))
    out.append((by['ClientHello'], (1, F.tup([3, 3, bytes(32), b'', [5] * 32767, [0] * 255, None])), True))
    out.append((by['ClientHello'], (1, F.tup([3, 3, bytes(32), b'', [5] * 32768, [0], None])), False))
    out.append((by['ClientHello'], (1, F.tup([3, 3, bytes(32), b'', [5], [0] * 256, None])), False))
    out.append((by['ClientHello'], (1, F.tup([3, 3, bytes(32), b'', [5], [0],
                                              Some([Tagged(21, bytes(65531))])])), True))
    out.append((by['ClientHello'], (1, F.tup([3, 3, bytes(32), b'', [5], [0],
                                              Some([Tagged(21, bytes(65532))])])), False))
    out.append((by['CertificateStatus'], (22, (1, bytes(2 ** 24 - 5))), True))
    out.append((by['CertificateStatus'], (22, (1, bytes(2 ** 24 - 4))), False))
    if thorough:
        out.append((by['CertificateStatus'], (22, (1, bytes(2 ** 24))), False))
        certs = K.der_certs()
        big = certs[-1]
        out.append((by['Certificate(tls1.2)'], (11, [big] * ((2 ** 24 - 4) // (len(big) + 3))), True))
        out.append((by['Certificate(tls1.2)'], (11, [big] * ((2 ** 24 - 4) // (len(big) + 3) + 1)), False))
    return out


def legacy_oracle(run, rng, n):
    """forms outside the format language: direct round-trip oracle only"""
    from tlslite import messages as M
    from tlslite.utils.codec import Parser
    ctx = run.ctx
    # RecordHeader2 through its API view: every flag combination (padding x securityEscape) at every length
    # boundary of both header forms.  Oracle written from the format: the 2-byte form has 15 length bits, the
    # 3-byte form (padding or escape) 14; what does not fit must be refused, what fits must come back unchanged.
    lengths = [-1, 0, 1, 255, 256, 0x3fff, 0x4000, 0x4123, 0x7fff, 0x8000, 0xffff, 0x10000, rng.randrange(0x4000),
               rng.randrange(0x4000, 0x8000)]
    for ln in lengths:
        for pad in (0, 1, 255, 256):
            for esc in (False, True):
                short = not (pad or esc)
                fits = ln >= 0 and (ln < 0x8000 if short else (ln < 0x4000 and 0 <= pad < 256))
                try:
                    wb = bytes(M.RecordHeader2().create(ln, pad, esc).write())
                except Exception:  # noqa
                    wb = None
                ctx.count('impl-roundtrip', 1, [('RecordHeader2', short, esc, fits, ln >= 0x4000, ln >= 0x8000)])
                run.rh2_lits.append('(%s, %s, %s, %s)' % (zlit(ln), zlit(pad), vlib.boollit(esc), vlib.optlit(wb, blit)))
                rep = {'class': 'RecordHeader2', 'length': ln, 'padding': pad, 'securityEscape': esc,
                       'written': None if wb is None else hexs(wb),
                       'how': 'tlslite.messages.RecordHeader2().create(length, padding, securityEscape).write(), parse back'}
                if wb is None:
                    if fits:
                        run.viol('write-raises:RecordHeader2', 'RecordHeader2.write() refuses a header that fits', rep)
                    continue
                h2 = M.RecordHeader2().parse(Parser(bytearray(wb)))
                back = (h2.length, h2.padding, bool(h2.securityEscape))
                if not fits or back != (ln, pad, esc) or bytes(h2.write()) != wb:
                    run.viol('truncates:RecordHeader2' if not fits else 'roundtrip:RecordHeader2',
                             'RecordHeader2(length=%#x, padding=%d, securityEscape=%s).write() = %s parses back as %r: %s'
                             % (ln, pad, esc, hexs(wb), back,
                                'a length that does not fit the header form is wrapped silently' if not fits
                                else 'parse(write(v)) != v'), rep)
    for _ in range(n):
        suites = [rng.randrange(2 ** 24) for _ in range(rng.randrange(0, 4))]
        sid = gen_bytes(rng, rng.choice([0, 16, 32]))
        chal = gen_bytes(rng, 32)
        ch = M.ClientHello(ssl2=True).create((rng.choice([0, 2, 3]), rng.randrange(4)), bytearray(chal), bytearray(sid), suites)
        wb = bytes(ch.write())
        p = Parser(bytearray(wb))
        ty = p.get(1)
        c2 = M.ClientHello(ssl2=True).parse(p)
        ctx.count('impl-roundtrip', 1, [('ClientHello(ssl2)', len(suites), len(sid))])
        if ty != 1 or (c2.client_version, list(c2.cipher_suites), bytes(c2.session_id), bytes(c2.random)) != \
                (ch.client_version, suites, sid, chal) or bytes(c2.write()) != wb or p.index != len(wb):
            run.viol('roundtrip:ClientHello(ssl2)', 'SSLv2 ClientHello parse(write(v)) != v', {'bytes': hexs(wb)})
        for k in range(1, len(wb)):
            try:
                p = Parser(bytearray(wb[:k]))
                p.get(1)
                M.ClientHello(ssl2=True).parse(p)
                run.viol('lax:ClientHello(ssl2)', 'SSLv2 ClientHello accepts a truncated encoding', {'bytes': hexs(wb[:k])})
                break
            except SyntaxError:
                pass


def defragmenter_oracle(run, rng, n):
    """defragmenter.py: handshake messages re-assembled from arbitrary fragments come out
    byte-identical and one at a time (framing = type + 3-byte length)"""
    from tlslite.defragmenter import Defragmenter
    ctx = run.ctx
    for _ in range(n):
        msgs = []
        for _ in range(rng.randrange(1, 5)):
            body = gen_bytes(rng, rng.choice([0, 1, 2, 255, 256, rng.randrange(600)]))
            msgs.append(bytes([rng.randrange(256)]) + len(body).to_bytes(3, 'big') + body)
        stream = b''.join(msgs)
        d = Defragmenter()
        d.add_static_size(21, 2)
        d.add_dynamic_size(22, 1, 3)
        got = []
        pos = 0
        while pos < len(stream):
            k = rng.choice([1, 2, 3, 4, 5, 64, len(stream)])
            d.add_data(22, bytearray(stream[pos:pos + k]))
            pos += k
            while True:
                m = d.get_message()
                if m is None:
                    break
                got.append(bytes(m[1]))
        ctx.count('impl-defragmenter', 1, [(len(msgs), len(stream) // 256)])
        if got != msgs or not d.is_empty():
            run.viol('defragmenter', 'Defragmenter does not return the messages that were fed in fragments',
                     {'stream': hexs(stream), 'got': [hexs(g) for g in got]})


# =========================================================================================
def run(ctx):
    quick = ctx.tier == 'quick'
    rng = ctx.rng
    res = vlib.proof_stage(ctx, 'Props/C15.v', model_targets=['Model/C15_Ops.vo'])
    ctx.log('proof stage ok=%s failing=%s' % (res['ok'], res['failing']))
    ctx.cov['trusted_base'] = [
        'Coq 8.16.1 kernel + vm_compute (case evaluation)',
        'Model/C15_Codec.v as the reading of tlslite/utils/codec.py (checked per primitive on boundary scripts every run)',
        'Model/C15_Messages.v format terms as the reading of each parse()/write() pair (checked per class every run)',
        'harness/c15_fmt.py mirror of the format language (checked against the Coq definitions on every case)',
        'X.509 / SubjectPublicKeyInfo DER parsing, zlib/brotli/zstd streams and SSLv2 server messages are outside the model',
    ]
    ctx.assumptions += [
        'wire integers are bytes 0..255 (all_bytes) -- what bytearray guarantees',
        'values fed to create()/write() have the Python types the API documents (int, bytearray, list, tuple)',
        'Fix-width fields (random 32, Finished verify_data, TACK parts) are given with their exact length: write() does not check them',
        'parser-side limits (session_id <= 32, non-empty certificate / DH share) are part of well-formedness; write() does not enforce them',
    ]
    run_ = Run(ctx)
    table = K.build_table()
    coq_ok = res['model_ok']

    # ---- 1. primitives
    wcases = gen_wops(rng, 260 if quick else 1500)
    pcases = gen_pops(rng, 420 if quick else 3000)
    wl, pl = [], []
    for ops in wcases:
        out, code = run_wops_impl(ops)
        ctx.count('writer-primitives', 1, [tuple(o[0] for o in ops) + (out is None,)])
        wl.append('([%s], %s, %d)' % ('; '.join(wop_lit(o) for o in ops), vlib.optlit(out, blit), code))
        # the property on the primitive itself: success => every value reads back
        if out is not None and len(ops) == 1 and ops[0][0] == 'add':
            if int.from_bytes(out, 'big') != ops[0][1] or len(out) != ops[0][2]:
                run_.viol('truncates:Writer.add', 'Writer.add wrote a different value', {'ops': repr(ops), 'out': hexs(out)})
    for bs, ops in pcases:
        trace, code, idx = run_pops_impl(bs, ops)
        ctx.count('parser-primitives', 1, [tuple(o[0] for o in ops) + (code,)])
        pl.append('(%s, [%s], %s, %d, %d)' % (blit(bs), '; '.join(pop_lit(o) for o in ops),
                                              vlib.listlit(trace, lambda t: vlib.listlit(t, zlit)), code, idx))
    ctx.log('primitives: %d writer scripts, %d parser scripts' % (len(wl), len(pl)))

    # ---- corpus: minimised past disagreements, always first
    import glob
    by_name = {c.name: c for c in table}
    for p in sorted(glob.glob(os.path.join(vlib.ROOT, 'corpus', 'C15', '*.json'))):
        with open(p) as f:
            e = json.load(f)
        cls = by_name[e['class']]
        pb = bytes.fromhex(e['input'])
        site = (cls.ext_ctx, int.from_bytes(pb[:2], 'big')) if cls.name.startswith('Extension(') else None
        m = run_.compare(cls, 'corpus', site, pb, {'class': cls.name, 'coq_fmt': cls.coq, 'corpus': os.path.basename(p)})
        if m is not False:
            run_.dec_lits.append('(%s, %s, %s, %s)' % (cls.coq, vlib.boollit(cls.whole), blit(pb),
                                 'None' if m is None else '(Some (%s, %d))' % (F.coq_val(m[0]), m[1])))
            run_.dec_meta.append({'corpus': os.path.basename(p)})

    # ---- 2. classes
    per_class = 5 if quick else 30
    n_coq = 4 if quick else 12
    for cls in table:
        vals = []
        if cls.name.startswith('Extension('):
            vals += all_ext_values(cls.ext_ctx, rng)
        elif not cls.gen:
            vals += [cls.fix(x) for x in shapes(cls.fmt, rng, 10 if quick else 24)]
        for _ in range(per_class * cls.weight):
            vals.append(cls.gen(rng) if cls.gen else cls.fix(gen_val(cls.fmt, rng, big=rng.random() < 0.3)))
        for i, v in enumerate(vals):
            run_.value_case(cls, v, rng, n_coq, full=not quick and i % 4 == 0)
            if i % 2 == 0 and not cls.no_overflow:
                for v2, path in list(overflow_variants(cls.fmt, v, rng))[:4 if quick else 20]:
                    run_.overflow_case(cls, cls.fix(v2), path)
    ctx.log('classes: %d class/context entries, %d values, %d perturbed inputs (impl + mirror)' % (
        len(table), ctx.cov['streams'].get('impl-roundtrip', {}).get('evaluations', 0),
        ctx.cov['streams'].get('impl-strictness', {}).get('evaluations', 0)))
    for cls, v, fits in big_boundary_cases(table, rng, not quick):
        if fits:
            run_.value_case(cls, v, rng, 0, coq=False, light=True)
        else:
            run_.overflow_case(cls, v, ('boundary',), coq=False)
    legacy_oracle(run_, rng, 60 if quick else 600)
    defragmenter_oracle(run_, rng, 60 if quick else 600)
    ctx.log('boundary 2^16/2^24, legacy forms, defragmenter done')

    # ---- 3. the same cases through the Coq model
    if coq_ok:
        imports = ['Model.C15_Codec', 'Model.C15_Fmt', 'Model.C15_Messages', 'Model.C15_Ops']
        jobs = [('C15w', 'list wop * option (list Z) * Z', 'chk_wops', wl, 'writer primitive', None),
                ('C15p', 'list Z * list pop * list (list Z) * Z * Z', 'chk_pops', pl, 'parser primitive', None),
                ('C15e', 'fmt * val * list Z', 'chk_enc', run_.enc_lits, 'encode', run_.enc_meta),
                ('C15n', 'fmt * val', 'chk_noenc', run_.noenc_lits, 'overflow', run_.noenc_meta),
                ('C15d', 'fmt * bool * list Z * option (val * Z)', 'chk_dec', run_.dec_lits, 'decode', run_.dec_meta),
                ('C15r', 'Z * Z * bool * option (list Z)', 'chk_rh2', run_.rh2_lits, 'RecordHeader2 API view', None)]
        from concurrent.futures import ThreadPoolExecutor
        jobs = [j for j in jobs if j[3]]
        with ThreadPoolExecutor(len(jobs)) as ex:       # the five case sets are evaluated concurrently
            futs = [ex.submit(vlib.coq_bad_indices, tag, imports, ty, fn, lits,
                              max(20, (len(lits) + 11) // 12)) for tag, ty, fn, lits, what, meta in jobs]
            results = [f.result() for f in futs]
        for (tag, ty, fn, lits, what, meta), (bad, errs) in zip(jobs, results):
            ctx.count('model-vs-impl:%s(vm_compute)' % what, len(lits), [('n', len(lits) - len(bad))])
            for e in errs:
                run_.tie_broken = run_.tie_broken or ('%s case evaluation failed: %s' % (what, e[-400:]))
            for i in bad[:3]:
                ctx.log('Coq model disagrees on %s case %d: %s' % (what, i, (json.dumps(meta[i])[:300] if meta else lits[i][:300])))
                run_.tie_broken = run_.tie_broken or ('Coq model disagrees with implementation/mirror on %s case: %s'
                                                      % (what, (json.dumps(meta[i]) if meta else lits[i])[:600]))
            ctx.log('coq %s: %d cases, %d disagreements' % (what, len(lits), len(bad)))
    else:
        run_.tie_broken = run_.tie_broken or ('model does not compile: %s' % res['failing'])
    ctx.cov['rule'] = ('values generated from each class\'s format (boundary-biased integers, lengths 0/1/small/255/256, '
                       'every extension type of every context incl. empty payloads and unknown types; 2^16 and 2^24 sizes '
                       'on implementation+mirror only); per value: every truncation, every length field +1/-1/+2/=0, a junk '
                       'byte inserted / last byte removed inside every length-delimited structure with all enclosing lengths '
                       'adjusted, junk after; distinct = (class, perturbation kind, verdict, extension site)')
    if run_.tie_broken and not run_.found:
        ctx.violation('tie-broken', run_.tie_broken, {'correspondence': 'C15 model vs tlslite', 'detail': run_.tie_broken},
                      found_input=False)
        run_.found = True
    vlib.broken_proof_verdict(ctx, res, run_.found)


def replay(ctx, path):
    with open(path) as f:
        r = json.load(f)
    table = {c.name: c for c in K.build_table()}
    cls = table.get(r.get('class'))
    if cls is None:
        print('no class in replay file:', r.get('what'))
        return 1
    b = bytes.fromhex(r.get('input') or r.get('bytes'))
    m = mirror_parse(cls, b)
    i = impl_parse(cls, b)
    print('class   :', cls.name)
    print('input   :', b.hex())
    print('framing :', 'reject' if m is None else 'accept %r rest=%d' % m)
    print('tlslite :', i)
    agree = (m is None and i[0] == 'reject') or (m is not None and i[0] == 'ok' and i[1] == m[0] and i[3] == b[:i[2]])
    return 0 if agree else 1
