"""C09: symmetric primitives and key derivation compute the standardised functions.

Tie: translator (coq/Gen/C09_*.v regenerated from /repo on every run by translator/pylite_c09.py)
plus translation validation: generated model, Coq spec (RFC text as Gallina) and the Python
implementation are evaluated on the same cases (vm_compute).  Independent of Coq, the implementation is
compared with references written from the RFCs (harness/c09_ref.py: hashlib/hmac/openssl CLI); that
comparison is the property oracle used for the failing-input search.  See design/C09.md."""
import os
import sys

import vlib
from vlib import blit, zlit
import c09_ref as ref
from c09_util import run as runf, rbytes, olit, wlit, hexs, Section, evaluate_all

sys.path.insert(0, os.path.join(vlib.ROOT, 'translator'))
import units_c09  # noqa: E402

LEVEL = 'proof'
META = {
    'text': 'Coq theorems (Props/C09.v) about the Gallina text regenerated from tlslite/utils/{poly1305,chacha,'
            'chacha20_poly1305}.py on every run: Poly1305 = RFC 8439 2.5 for every message length; the ChaCha20 '
            'rotations, quarter round, double round, block function and stream encryption = RFC 8439 2.1-2.4 on the '
            'whole 32-bit range; ChaCha20-Poly1305 seal/open = RFC 8439 2.8 and open accepts exactly the outputs of seal. '
            'Generated model, Coq spec and implementation are evaluated on the same cases; the implementation is also '
            'compared with independent references (own RFC transcription in Python, openssl CLI).',
    'note': 'Trusted: Coq kernel + vm_compute; translator/pylite.py + pylite_c09.py (validated by evaluation); Spec/C09_*.v '
            'as the reading of the RFCs; struct.pack/unpack, hmac.compare_digest and int arithmetic of CPython as modelled in '
            'Base/C09_Lib.v; messages within the 32-bit block counter (< 256 GiB). AES/3DES block functions and '
            'SHA/MD5/HMAC are oracles (not verified here).',
    'technique': 'Rocq/Coq proof over translator-regenerated model + vm_compute correspondence + independent references',
}
UNITS = ['C09_Poly1305', 'C09_ChaCha', 'C09_ChaChaPoly']
MODEL_TARGETS = ['Gen/%s.vo' % u for u in UNITS] + ['Spec/C09_Poly1305.vo', 'Spec/C09_ChaCha.vo', 'Spec/C09_ChaChaPoly.vo']


class State:
    def __init__(self, ctx):
        self.ctx = ctx
        self.found = False           # a concrete input on which the property fails was reported
        self.tie_broken = None
        self.sections = []

    def bad(self, key, what, replay):
        self.found = True
        self.ctx.violation(key, what, replay, found_input=True)


def lens_blocks(rng, bs, nblocks=5, extra=()):
    """lengths 0..nblocks blocks incl. partial blocks"""
    ls = {0, 1, bs - 1, bs, bs + 1, 2 * bs - 1, 2 * bs, 2 * bs + 1, nblocks * bs, nblocks * bs - 1}
    for _ in range(6):
        ls.add(rng.randrange(0, nblocks * bs + 1))
    ls.update(extra)
    return sorted(ls)


# ============================================================================ Poly1305
def sec_poly(S, quick):
    from tlslite.utils.poly1305 import Poly1305
    ctx, rng = S.ctx, S.ctx.rng
    sec = Section('C09poly', ['Gen.C09_Poly1305', 'Spec.C09_Poly1305'],
                  'list Z * list Z * option (list Z) * Z', '''
Definition chk_model (c : list Z * list Z * option (list Z) * Z) : bool :=
  let '(key, msg, impl, code) := c in
  res_matches list_eqb (p <- poly_init key ;; r <- poly_create_tag p msg ;; Ok (snd r)) impl code.
Definition chk_spec (c : list Z * list Z * option (list Z) * Z) : bool :=
  let '(key, msg, impl, code) := c in
  match impl with Some t => list_eqb (poly1305 key msg) t | None => negb (zlen key =? 32) end.
''')
    sec.fns = [('chk_model', 'model', 'poly1305:model-vs-impl'), ('chk_spec', 'spec', 'poly1305:coqspec-vs-impl')]
    keys = [bytes(32), b'\xff' * 32, bytes(16) + b'\xff' * 16, b'\xff' * 16 + bytes(16),
            bytes.fromhex('85d6be7857556d337f4452fe42d506a80103808afb0db2fd4abff6af4149f51b')]
    cases = []
    for L in lens_blocks(rng, 16, 5, extra=(15, 17, 33, 81) if quick else range(0, 100)):
        for k in range(3 if quick else 6):
            key = rng.choice(keys) if rng.random() < 0.3 else rbytes(rng, 32)
            msg = rng.choice([rbytes(rng, L), b'\xff' * L, bytes(L)]) if rng.random() < 0.4 else rbytes(rng, L)
            cases.append((key, msg))
    for n in (0, 16, 31, 33, 64):
        cases.append((rbytes(rng, n), rbytes(rng, 20)))
    n_ossl = 0
    for key, msg in cases:
        def impl():
            return bytes(Poly1305(bytearray(key)).create_tag(bytearray(msg)))
        v, code = runf(impl)
        if len(key) == 32:
            want = ref.poly1305(key, msg)
            cls = 'len%%16=%d' % (len(msg) % 16)
            if v != want:
                S.bad('poly1305!=rfc:' + cls, 'Poly1305(key).create_tag(msg) differs from RFC 8439 2.5',
                      {'unit': 'poly1305', 'key': key.hex(), 'msg': msg.hex(), 'impl': hexs(v), 'code': code, 'rfc': want.hex()})
            if n_ossl < (25 if quick else 200):
                n_ossl += 1
                o = ref.ossl_poly1305(key, msg)
                ctx.count('poly1305:impl-vs-openssl', 1, [(cls,)])
                if v != o:
                    S.bad('poly1305!=openssl:' + cls, 'Poly1305 tag differs from `openssl mac POLY1305`',
                          {'unit': 'poly1305', 'key': key.hex(), 'msg': msg.hex(), 'impl': hexs(v), 'openssl': o.hex()})
        else:
            cls = 'badkey'
            if code != 2:
                S.bad('poly1305:badkey-accepted', 'Poly1305 accepted a key that is not 32 bytes',
                      {'unit': 'poly1305', 'key': key.hex(), 'msg': msg.hex(), 'impl': hexs(v), 'code': code})
        ctx.count('poly1305:impl-vs-rfc-python', 1, [(cls, min(len(msg) // 16, 6))],
                  sample={'key': key.hex(), 'msg': msg.hex()} if len(sec.lits) % 41 == 0 else None)
        sec.add('(%s, %s, %s, %d)' % (blit(key), blit(msg), olit(v), code), {'unit': 'poly1305', 'key': key.hex(), 'msg': msg.hex()})
    S.sections.append(sec)
    # helpers (translation validation)
    hs = Section('C09polyh', ['Gen.C09_Poly1305'], 'bool', '')
    hs.fns = [('(fun b : bool => b)', 'model', 'poly1305-helpers:model-vs-impl')]
    for _ in range(30 if quick else 300):
        d = rbytes(rng, rng.choice([0, 1, 16, 17, rng.randrange(0, 40)]))
        v, code = runf(Poly1305.le_bytes_to_num, bytearray(d))
        hs.add('res_matches Z.eqb (poly_le_bytes_to_num %s) %s %d' % (blit(d), olit(v, zlit), code), {'fn': 'le_bytes_to_num', 'data': d.hex()})
        n = rng.choice([0, 1, 255, 256, 2**128 - 1, 2**128, 2**130 + 5, rng.getrandbits(rng.randrange(1, 140))])
        v, code = runf(lambda: bytes(Poly1305.num_to_16_le_bytes(n)))
        hs.add('res_matches list_eqb (poly_num_to_16_le_bytes %s) %s %d' % (zlit(n), olit(v), code), {'fn': 'num_to_16_le_bytes', 'n': str(n)})
    from tlslite.utils.cryptomath import divceil
    for a, b in [(0, 16), (1, 16), (15, 16), (16, 16), (17, 16), (0, 1), (5, 0), (33, 32), (255 * 32, 32), (-1, 16)]:
        v, code = runf(divceil, a, b)
        hs.add('res_matches Z.eqb (divceil %s %s) %s %d' % (zlit(a), zlit(b), olit(v, zlit), code), {'fn': 'divceil', 'a': a, 'b': b})
    S.sections.append(hs)


# ============================================================================ ChaCha20
def sec_chacha(S, quick):
    from tlslite.utils.chacha import ChaCha
    ctx, rng = S.ctx, S.ctx.rng
    T = 'list Z * list Z * Z * list Z * option (list Z) * Z'
    sec = Section('C09cha', ['Gen.C09_ChaCha', 'Spec.C09_ChaCha'], T, '''
Definition CT := (%s)%%type.
Definition chk_model (c : CT) : bool :=
  let '(key, nonce, counter, pt, impl, code) := c in
  res_matches list_eqb (o <- cha_init key nonce counter 20 ;; cha_encrypt o pt) impl code &&
  res_matches list_eqb (o <- cha_init key nonce counter 20 ;; cha_decrypt o pt) impl code.
Definition chk_spec (c : CT) : bool :=
  let '(key, nonce, counter, pt, impl, code) := c in
  match impl with
  | Some t => list_eqb (chacha20_encrypt key counter nonce pt) t
  | None => negb ((zlen key =? 32) && (zlen nonce =? 12))
  end.
''' % T)
    sec.fns = [('chk_model', 'model', 'chacha20:model-vs-impl'), ('chk_spec', 'spec', 'chacha20:coqspec-vs-impl')]
    cases = []
    for L in lens_blocks(rng, 64, 5, extra=() if quick else range(0, 330, 7)):
        for k in range(2 if quick else 4):
            counter = rng.choice([0, 1, 1, 2, 7, 2**32 - 6, 2**31, rng.getrandbits(32) % (2**32 - 8)])
            cases.append((rbytes(rng, 32), rbytes(rng, 12), counter, rbytes(rng, L)))
    cases.append((bytes(range(32)), bytes.fromhex('000000000000004a00000000'), 1,
                  b"Ladies and Gentlemen of the class of '99: If I could offer you only one tip for the future, sunscreen would be it."))
    # last block uses counter 2^32-1 (the largest 32-bit block counter)
    cases.append((rbytes(rng, 32), rbytes(rng, 12), 2**32 - 2, rbytes(rng, 128)))
    for kl, nl in ((31, 12), (32, 8), (33, 12), (32, 13), (0, 0)):
        cases.append((rbytes(rng, kl), rbytes(rng, nl), 0, rbytes(rng, 10)))
    n_ossl = 0
    for key, nonce, counter, pt in cases:
        v, code = runf(lambda: bytes(ChaCha(bytearray(key), bytearray(nonce), counter).encrypt(bytearray(pt))))
        d, dcode = runf(lambda: bytes(ChaCha(bytearray(key), bytearray(nonce), counter).decrypt(bytearray(v)))) if v is not None else (None, code)
        ok = len(key) == 32 and len(nonce) == 12
        cls = ('len%%64=%d' % (len(pt) % 64 and 1), 'nblk=%d' % ((len(pt) + 63) // 64), 'ctr-hi' if counter > 2**31 else 'ctr-lo')
        if ok:
            want = ref.chacha20_encrypt(key, counter, nonce, pt)
            if v != want:
                S.bad('chacha20!=rfc:%s' % cls[0], 'ChaCha.encrypt differs from RFC 8439 2.4',
                      {'unit': 'chacha', 'key': key.hex(), 'nonce': nonce.hex(), 'counter': counter, 'pt': pt.hex(), 'impl': hexs(v), 'rfc': want.hex()})
            if d != pt:
                S.bad('chacha20:decrypt(encrypt)!=id', 'ChaCha.decrypt(encrypt(pt)) != pt',
                      {'unit': 'chacha', 'key': key.hex(), 'nonce': nonce.hex(), 'counter': counter, 'pt': pt.hex(), 'dec': hexs(d)})
            if n_ossl < (20 if quick else 150):
                n_ossl += 1
                o = ref.ossl_chacha20(key, counter, nonce, pt)
                ctx.count('chacha20:impl-vs-openssl', 1, [cls])
                if v != o:
                    S.bad('chacha20!=openssl:%s' % cls[0], 'ChaCha.encrypt differs from `openssl enc -chacha20`',
                          {'unit': 'chacha', 'key': key.hex(), 'nonce': nonce.hex(), 'counter': counter, 'pt': pt.hex(), 'impl': hexs(v), 'openssl': o.hex()})
        elif code != 2:
            S.bad('chacha20:badkey-accepted', 'ChaCha accepted a key/nonce of the wrong length',
                  {'unit': 'chacha', 'key': key.hex(), 'nonce': nonce.hex(), 'code': code})
        ctx.count('chacha20:impl-vs-rfc-python', 1, [cls if ok else ('bad',)])
        sec.add('(%s, %s, %s, %s, %s, %d)' % (blit(key), blit(nonce), zlit(counter), blit(pt), olit(v), code),
                {'unit': 'chacha', 'key': key.hex(), 'nonce': nonce.hex(), 'counter': counter, 'pt': pt.hex()})
    S.sections.append(sec)
    # ---- pieces: quarter_round, double_round, chacha_block, word conversions (translation validation
    # of each generated function, also outside the ranges the theorems cover)
    hs = Section('C09chah', ['Gen.C09_ChaCha', 'Spec.C09_ChaCha'], 'bool', '''
Definition olist_eqb := res_matches list_eqb.
''')
    hs.fns = [('(fun b : bool => b)', 'model', 'chacha20-pieces:model-vs-impl')]
    w32 = lambda: rng.choice([0, 1, 2**32 - 1, 2**31, 0x80000000, 0xffff0000, rng.getrandbits(32)])   # noqa: E731
    for _ in range(40 if quick else 400):
        x = [w32() for _ in range(16)]
        idx = rng.choice(ChaCha._round_mixup_box) if rng.random() < 0.7 else tuple(rng.randrange(16) for _ in range(4))
        if rng.random() < 0.1:
            idx = (idx[0], idx[1], idx[2], rng.choice([16, -1, -16, -17, 20]))
        y = list(x)
        _, code = runf(ChaCha.quarter_round, y, *idx)
        hs.add('olist_eqb (cha_quarter_round %s %s %s %s %s) %s %d' % ((wlit(x),) + tuple(zlit(i) for i in idx) + (olit(y if code == 0 else None, wlit), code)),
               {'fn': 'quarter_round', 'x': x, 'idx': idx})
        if code == 0 and all(0 <= i < 16 for i in idx):
            hs.add('list_eqb (quarterround %s %d %d %d %d) %s' % ((wlit(x),) + tuple(idx) + (wlit(y),)), {'fn': 'spec-quarterround', 'x': x, 'idx': idx})
        x = [w32() for _ in range(rng.choice([16, 16, 16, 15, 17]))]
        y = list(x)
        _, code = runf(ChaCha.double_round, y)
        hs.add('olist_eqb (cha_double_round %s) %s %d' % (wlit(x), olit(y if code == 0 else None, wlit), code), {'fn': 'double_round', 'x': x})
        if len(x) == 16:
            hs.add('list_eqb (inner_block %s) %s' % (wlit(x), wlit(y)), {'fn': 'spec-inner_block', 'x': x})
        v, c = w32(), rng.choice([7, 8, 12, 16, 1, 31])
        hs.add('Z.eqb (cha_rotl32 %d %d) %d && Z.eqb (rotl32 %d %d) %d' % (v, c, ChaCha.rotl32(v, c), v, c, ChaCha.rotl32(v, c)), {'fn': 'rotl32', 'v': v, 'c': c})
    for _ in range(10 if quick else 100):
        key = [w32() for _ in range(8)]
        nonce = [w32() for _ in range(3)]
        counter = rng.choice([0, 1, 2**32 - 1, 2**32, 2**32 + 5, rng.getrandbits(32)])
        rounds = rng.choice([20, 20, 20, 8, 12, 0, 1, 3])
        v, code = runf(ChaCha.chacha_block, key, counter, nonce, rounds)
        hs.add('olist_eqb (cha_chacha_block %s %s %s %d) %s %d' % (wlit(key), zlit(counter), wlit(nonce), rounds, olit(v, wlit), code),
               {'fn': 'chacha_block', 'key': key, 'counter': counter, 'nonce': nonce, 'rounds': rounds})
        st = [rng.choice([w32(), w32(), w32(), 2**32, -1]) if rng.random() < 0.05 else w32() for _ in range(rng.choice([16, 16, 16, 15, 17]))]
        v, code = runf(lambda: bytes(ChaCha.word_to_bytearray(st)))
        hs.add('olist_eqb (cha_word_to_bytearray %s) %s %d' % (wlit(st), olit(v), code), {'fn': 'word_to_bytearray', 'st': st})
        d = rbytes(rng, rng.choice([0, 4, 12, 32, 33, 35, 7]))
        v, code = runf(ChaCha._bytearray_to_words, bytearray(d))
        hs.add('olist_eqb (cha_bytearray_to_words %s) %s %d' % (blit(d), olit(v, wlit), code), {'fn': '_bytearray_to_words', 'd': d.hex()})
    S.sections.append(hs)


# ============================================================================ ChaCha20-Poly1305
AEAD_MUTS = ['none', 'none', 'flip-ct', 'flip-tag', 'flip-aad', 'flip-nonce', 'trunc-1', 'trunc-16', 'short', 'extend',
             'tag-of-other-aad', 'swap-len']


def aead_mutate(rng, mut, nonce, c, aad, reseal):
    """returns (nonce, c, aad) after one mutation of an honestly sealed message"""
    c = bytearray(c)
    if mut == 'flip-ct' and len(c) > 16:
        c[rng.randrange(len(c) - 16)] ^= 1 << rng.randrange(8)
    elif mut == 'flip-tag':
        c[len(c) - 1 - rng.randrange(16)] ^= 1 << rng.randrange(8)
    elif mut == 'flip-aad' and aad:
        aad = bytearray(aad)
        aad[rng.randrange(len(aad))] ^= 1 << rng.randrange(8)
    elif mut == 'flip-nonce':
        nonce = bytearray(nonce)
        nonce[rng.randrange(12)] ^= 1 << rng.randrange(8)
    elif mut == 'trunc-1':
        c = c[:-1]
    elif mut == 'trunc-16':
        c = c[:-16]
    elif mut == 'short':
        c = c[:rng.randrange(0, 16)]
    elif mut == 'extend':
        c = c + b'\x00'
    elif mut == 'tag-of-other-aad':
        other = reseal(bytes(aad) + b'\x00')
        c = c[:-16] + other[-16:]
    elif mut == 'swap-len' and len(aad) != len(c) - 16:
        # same bytes, different split between aad and ciphertext lengths: aad' = ct, ct' = aad
        other = reseal(bytes(aad))
        c = bytearray(aad) + other[-16:]
        aad = bytes(other[:-16])
    return bytes(nonce), bytes(c), bytes(aad)


def sec_chachapoly(S, quick):
    from tlslite.utils.chacha20_poly1305 import CHACHA20_POLY1305
    ctx, rng = S.ctx, S.ctx.rng
    T = 'list Z * list Z * list Z * list Z * option (list Z) * Z * list Z * list Z * list Z * option (option (list Z)) * Z'
    sec = Section('C09cp', ['Gen.C09_Poly1305', 'Gen.C09_ChaCha', 'Gen.C09_ChaChaPoly', 'Spec.C09_ChaChaPoly'], T, '''
Definition CT := (%s)%%type.
Definition chk_model (c : CT) : bool :=
  let '(key, nonce, pt, aad, sealed, scode, nonce2, c2, aad2, opened, ocode) := c in
  res_matches list_eqb (o <- cp_init key "python" ;; cp_seal o nonce pt aad) sealed scode &&
  res_matches opt_list_eqb (o <- cp_init key "python" ;; cp_open o nonce2 c2 aad2) opened ocode.
Definition chk_spec (c : CT) : bool :=
  let '(key, nonce, pt, aad, sealed, scode, nonce2, c2, aad2, opened, ocode) := c in
  match sealed with Some s => list_eqb (aead_seal key nonce pt aad) s | None => true end &&
  match opened with Some o => opt_list_eqb (aead_open key nonce2 c2 aad2) o | None => true end.
''' % T)
    sec.fns = [('chk_model', 'model', 'chacha20poly1305:model-vs-impl'), ('chk_spec', 'spec', 'chacha20poly1305:coqspec-vs-impl')]
    n_ossl = 0
    cases = []
    for L in lens_blocks(rng, 64, 3 if quick else 5, extra=(16, 15, 17)):
        for al in ([0, 13] if quick else [0, 1, 5, 13, 16, 17, 32, 40]):
            cases.append((32, 12, L, al, rng.choice(AEAD_MUTS)))
    for m in AEAD_MUTS:
        cases.append((32, 12, rng.randrange(0, 80), rng.choice([0, 5, 13, 16]), m))
    cases += [(32, 11, 5, 5, 'none'), (32, 13, 5, 5, 'none'), (32, 0, 0, 0, 'none')]
    for kl, nl, L, al, mut in cases:
        key, nonce, pt, aad = rbytes(rng, kl), rbytes(rng, nl), rbytes(rng, L), rbytes(rng, al)
        obj = CHACHA20_POLY1305(bytearray(key), 'python')
        sealed, scode = runf(lambda: bytes(obj.seal(bytearray(nonce), bytearray(pt), bytearray(aad))))
        ok = nl == 12
        cls = (mut, 'pt%%64=%d' % (L % 64 and 1), 'aad%%16=%d' % (al % 16 and 1), min(L // 64, 4))
        if ok:
            want = ref.aead_chacha_seal(key, nonce, pt, aad)
            if sealed != want:
                S.bad('chacha20poly1305.seal!=rfc', 'CHACHA20_POLY1305.seal differs from RFC 8439 2.8',
                      {'unit': 'chachapoly', 'key': key.hex(), 'nonce': nonce.hex(), 'pt': pt.hex(), 'aad': aad.hex(), 'impl': hexs(sealed), 'rfc': want.hex()})
            if n_ossl < (12 if quick else 80):
                n_ossl += 1
                o = ref.ossl_aead_chacha_seal(key, nonce, pt, aad)
                ctx.count('chacha20poly1305:impl-vs-openssl', 1, [cls[1:]])
                if sealed != o:
                    S.bad('chacha20poly1305.seal!=openssl', 'seal differs from RFC 8439 2.8 composed from openssl chacha20 + POLY1305',
                          {'unit': 'chachapoly', 'key': key.hex(), 'nonce': nonce.hex(), 'pt': pt.hex(), 'aad': aad.hex(), 'impl': hexs(sealed), 'openssl': o.hex()})
            n2, c2, a2 = aead_mutate(rng, mut, nonce, sealed, aad, lambda a: bytes(obj.seal(bytearray(nonce), bytearray(pt), bytearray(a))))
        else:
            if scode != 2:
                S.bad('chacha20poly1305:badnonce-accepted', 'seal accepted a nonce that is not 12 bytes', {'unit': 'chachapoly', 'nonce': nonce.hex()})
            n2, c2, a2 = nonce, rbytes(rng, 30), aad
        res, ocode = runf(lambda: obj.open(bytearray(n2), bytearray(c2), bytearray(a2)))
        opened = None if ocode else (None if res is None else bytes(res))
        if len(n2) == 12:
            # the property itself: open returns p iff c2 == seal(n2, p, a2)
            want_o = ref.aead_chacha_open(key, n2, c2, a2)
            untouched = ok and (bytes(n2), bytes(c2), bytes(a2)) == (nonce, sealed, aad)
            if ocode or opened != want_o or (untouched and opened != pt) or \
                    (opened is not None and ref.aead_chacha_seal(key, n2, opened, a2) != c2):
                S.bad('chacha20poly1305.open:%s' % mut, 'open() is not the inverse of seal() / accepts a modified message',
                      {'unit': 'chachapoly', 'key': key.hex(), 'nonce': n2.hex(), 'c': c2.hex(), 'aad': a2.hex(), 'impl': hexs(opened), 'code': ocode,
                       'rfc': hexs(want_o)})
        elif ocode != 2:
            S.bad('chacha20poly1305:badnonce-accepted', 'open accepted a nonce that is not 12 bytes', {'unit': 'chachapoly', 'nonce': n2.hex()})
        ctx.count('chacha20poly1305:impl-vs-rfc-python', 1, [cls + (opened is not None,)])
        olit_open = 'None' if ocode else '(Some %s)' % olit(opened)
        sec.add('(%s, %s, %s, %s, %s, %d, %s, %s, %s, %s, %d)' % (
            blit(key), blit(nonce), blit(pt), blit(aad), olit(sealed), scode, blit(n2), blit(c2), blit(a2), olit_open, ocode),
            {'unit': 'chachapoly', 'key': key.hex(), 'nonce': nonce.hex(), 'pt': pt.hex(), 'aad': aad.hex(), 'mut': mut,
             'nonce2': n2.hex(), 'c2': c2.hex(), 'aad2': a2.hex()})
    # constructor and pad16
    hs = Section('C09cph', ['Gen.C09_Poly1305', 'Gen.C09_ChaCha', 'Gen.C09_ChaChaPoly', 'Spec.C09_ChaChaPoly'], 'bool', '')
    hs.fns = [('(fun b : bool => b)', 'model', 'chacha20poly1305-pieces:model-vs-impl')]
    for n in list(range(0, 34)) + [63, 64, 65]:
        d = rbytes(rng, n)
        v, code = runf(lambda: bytes(CHACHA20_POLY1305.pad16(bytearray(d))))
        hs.add('res_matches list_eqb (cp_pad16 %s) %s %d && list_eqb (pad16 %s) %s' % (blit(d), olit(v), code, blit(d), blit(v)), {'fn': 'pad16', 'n': n})
    for kl, impl in ((32, 'python'), (31, 'python'), (33, 'python'), (32, 'openssl'), (0, 'python')):
        k = rbytes(rng, kl)
        v, code = runf(lambda: bytes(CHACHA20_POLY1305(bytearray(k), impl).key))
        hs.add('res_matches list_eqb (o <- cp_init %s "%s" ;; Ok (cp_key o)) %s %d' % (blit(k), impl, olit(v), code), {'fn': '__init__', 'kl': kl, 'impl': impl})
    for _ in range(4):
        k, n = rbytes(rng, 32), rbytes(rng, 12)
        v, code = runf(lambda: bytes(CHACHA20_POLY1305.poly1305_key_gen(bytearray(k), bytearray(n))))
        hs.add('res_matches list_eqb (cp_poly1305_key_gen %s %s) %s %d && list_eqb (poly1305_key_gen %s %s) %s' % (
            blit(k), blit(n), olit(v), code, blit(k), blit(n), blit(v)), {'fn': 'poly1305_key_gen'})
    S.sections.append(sec)
    S.sections.append(hs)


SECTIONS = [sec_poly, sec_chacha, sec_chachapoly]


# ============================================================================ driver
def run(ctx):
    quick = ctx.tier == 'quick'
    S = State(ctx)
    for u in UNITS:
        ok, msg = units_c09.generate(u, vlib.COQ)
        ctx.log('translator: %s' % msg)
        if not ok:
            S.tie_broken = S.tie_broken or msg
    res = vlib.proof_stage(ctx, 'Props/C09.v', model_targets=MODEL_TARGETS)
    ctx.log('proof stage ok=%s failing=%s' % (res['ok'], res['failing']))
    ctx.cov['trusted_base'] = [
        'Coq 8.16.1 kernel + vm_compute (case evaluation)',
        'translator/pylite.py + translator/pylite_c09.py (Python ast -> Gallina; semantics in their docstrings and coq/Base/C09_Lib.v), '
        'validated on every run by evaluating each generated function against the Python function',
        'Spec/C09_*.v as the reading of RFC 8439 (cross-checked on every run against the implementation, an independent Python '
        'transcription and the openssl CLI)',
        'CPython: struct.pack/unpack, hmac.compare_digest (= equality), unbounded int arithmetic',
        'oracles (not verified): AES and 3DES block functions, SHA/MD5/HMAC from hashlib',
    ]
    ctx.assumptions += ['keys/nonces of the stated length, all sequence elements bytes (0..255)',
                        'ChaCha20: block counter + number of blocks <= 2^32 (RFC 8439 limit, < 256 GiB per nonce)',
                        'ChaCha20-Poly1305: AAD shorter than 2^64 bytes']
    # ---- implementation vs independent references (the property oracle; needs no Coq)
    for f in SECTIONS:
        try:
            f(S, quick)
        except Exception as e:      # noqa
            import traceback
            tb = traceback.format_exc()
            ctx.log(tb)
            S.tie_broken = S.tie_broken or ('section %s failed: %s' % (f.__name__, tb.splitlines()[-1]))
    ctx.log('implementation vs references: %d evaluations' % ctx.cov['evaluations'])
    # ---- generated model and Coq spec on the same cases
    if res['model_ok'] and not any('refused' in (S.tie_broken or '') for _ in [0]):
        allres = evaluate_all(S.sections, lambda sec: max(6, (len(sec.lits) + 7) // 8) if quick else 40)
        for sec, (bads, errs) in zip(S.sections, allres):
            for (fn, kind, stream), bad in zip(sec.fns, bads):
                ctx.count(stream, len(sec.lits), [(sec.tag, 'ok', len(sec.lits) - len(bad))])
                for i in bad[:4]:
                    ctx.log('%s: %s fails on case %d: %s' % (sec.tag, fn, i, str(sec.meta[i])[:300]))
                    if kind == 'spec':
                        S.bad('coqspec!=impl:%s' % sec.tag, 'Coq specification (RFC text) disagrees with the implementation',
                              {'section': sec.tag, 'case': sec.meta[i]})
                    elif not S.found:
                        S.tie_broken = S.tie_broken or ('generated model disagrees with implementation in %s on %s' % (sec.tag, str(sec.meta[i])[:400]))
            for e in errs:
                S.tie_broken = S.tie_broken or ('case evaluation failed: ' + e[:400])
            ctx.log('%s: %d cases evaluated in Coq' % (sec.tag, len(sec.lits)))
    elif not res['model_ok']:
        S.tie_broken = S.tie_broken or ('generated model does not compile: %s' % res['failing'])
    ctx.cov['rule'] = ('per unit: lengths 0..5 blocks incl. partial blocks, boundary keys/counters, honest AEAD outputs followed by one '
                       'mutation class; distinct/non-trivial = (unit, length class mod block, block count, mutation class, verdict)')
    if S.tie_broken and not S.found:
        ctx.violation('tie-broken', S.tie_broken, {'correspondence': 'Gen/C09_*.v vs tlslite', 'detail': S.tie_broken}, found_input=False)
        S.found = True
    vlib.broken_proof_verdict(ctx, res, S.found)


def replay(ctx, path):
    import json
    with open(path) as f:
        r = json.load(f)
    print(json.dumps({k: v for k, v in r.items() if k != 'log_tail'}, indent=1)[:3000])
    u = r.get('unit')
    H = bytes.fromhex
    if u == 'poly1305':
        from tlslite.utils.poly1305 import Poly1305
        v, code = runf(lambda: bytes(Poly1305(bytearray(H(r['key']))).create_tag(bytearray(H(r['msg'])))))
        want = ref.poly1305(H(r['key']), H(r['msg'])) if len(H(r['key'])) == 32 else None
        print('impl:', hexs(v), code, 'rfc:', hexs(want))
        return 0 if v == want else 1
    if u == 'chacha':
        from tlslite.utils.chacha import ChaCha
        v, code = runf(lambda: bytes(ChaCha(bytearray(H(r['key'])), bytearray(H(r['nonce'])), r['counter']).encrypt(bytearray(H(r['pt'])))))
        want = ref.chacha20_encrypt(H(r['key']), r['counter'], H(r['nonce']), H(r['pt']))
        print('impl:', hexs(v), code, 'rfc:', want.hex())
        return 0 if v == want else 1
    if u == 'chachapoly':
        from tlslite.utils.chacha20_poly1305 import CHACHA20_POLY1305
        obj = CHACHA20_POLY1305(bytearray(H(r['key'])), 'python')
        if 'c' in r:
            v, code = runf(lambda: obj.open(bytearray(H(r['nonce'])), bytearray(H(r['c'])), bytearray(H(r['aad']))))
            want = ref.aead_chacha_open(H(r['key']), H(r['nonce']), H(r['c']), H(r['aad']))
            v = None if v is None else bytes(v)
        else:
            v, code = runf(lambda: bytes(obj.seal(bytearray(H(r['nonce'])), bytearray(H(r['pt'])), bytearray(H(r['aad'])))))
            want = ref.aead_chacha_seal(H(r['key']), H(r['nonce']), H(r['pt']), H(r['aad']))
        print('impl:', hexs(v), code, 'rfc:', hexs(want))
        return 0 if v == want else 1
    print('nothing to re-run for this replay file (proof/tie breakage): see "what"')
    return 1
