"""C09: symmetric primitives and key derivation compute the standardised functions.

Tie: translator (coq/Gen/C09_*.v regenerated from /repo on every run by translator/pylite_c09.py)
plus translation validation: generated model, Coq spec (RFC text as Gallina) and the Python
implementation are evaluated on the same cases (vm_compute).  Independent of Coq, the implementation is
compared with references written from the RFCs (harness/c09_ref.py: hashlib/hmac/openssl CLI); that
comparison is the property oracle used for the failing-input search.  See design/C09.md."""
import os
import sys

import vlib
from vlib import blit, zlit
import c09_ref as ref
from c09_util import run as runf, rbytes, olit, wlit, hexs, Section, evaluate_all

sys.path.insert(0, os.path.join(vlib.ROOT, 'translator'))
import units_c09  # noqa: E402

LEVEL = 'proof'
META = {
    'text': 'Coq theorems (Props/C09.v, 38, all closed under the global context) about the Gallina text regenerated on every run '
            'from tlslite/utils/{poly1305,chacha,chacha20_poly1305,python_rc4,rc4,aes,python_aes,aesgcm,aesccm}.py, '
            'utils/cryptomath.py (HKDF_expand) and mathtls.py (P_hash, PRF, PRF_1_2*): Poly1305, ChaCha20 (rotations, rounds, block, '
            'stream) and ChaCha20-Poly1305 seal/open = RFC 8439 for every key/nonce/length; open accepts exactly seal\'s outputs '
            '(ChaCha20-Poly1305 and AES-GCM, structural); HKDF-Expand = RFC 5869 up to 254*HashLen and REFUTED for the last block '
            '(finding); P_hash / TLS 1.0 / 1.2 / SSLv3 PRFs, HKDF-Expand-Label, Derive-Secret, calc_key (whole version x hash x label '
            'table), key-block slicing and TLS 1.3 traffic keys = their RFCs; RC4 = spec with stream splitting; AES-CBC wrapper = '
            'SP 800-38A incl. the IV carried between calls; CTR stream splitting REFUTED (finding). Generated/hand models, Coq specs and '
            'the implementation are evaluated on the same cases by vm_compute; the implementation is also compared with independent '
            'references (RFC transcriptions on hashlib/hmac, openssl CLI, NIST vectors).',
    'note': 'Oracles (not verified): SHA/MD5/HMAC (hashlib) and the AES / DES block functions (rijndael.py, python_tripledes.py are covered '
            'by correspondence against openssl ECB and FIPS-197 vectors only). Not proved, correspondence only: GHASH / gcm_mul = GF(2^128), '
            'gcm_seal = SP 800-38D, everything about CCM, one-call CTR = SP 800-38A, 3DES-CBC; HKDF_expand_label, derive_secret, PRF_SSL, '
            'calc_key, key-block slicing and TLS 1.3 keys are hand models tied by correspondence. Trusted: Coq kernel + vm_compute; '
            'translator/pylite.py + pylite_c09.py (validated by evaluating every generated function); Spec/C09_*.v as the reading of the '
            'standards; CPython struct/int/hmac.compare_digest as modelled in Base/C09_Lib.v. Hypotheses: byte ranges and lengths of '
            'inputs, ChaCha block counter within 32 bits, AAD < 2^64, hash/HMAC outputs of the declared size.',
    'technique': 'Rocq/Coq proof over translator-regenerated models + vm_compute correspondence + independent references (hashlib/hmac, openssl CLI)',
}
UNITS = ['C09_Poly1305', 'C09_ChaCha', 'C09_ChaChaPoly', 'C09_KDF', 'C09_RC4', 'C09_AesModes', 'C09_GCM', 'C09_CCM']
MODEL_TARGETS = ['Gen/%s.vo' % u for u in UNITS] + ['Spec/C09_Poly1305.vo', 'Spec/C09_ChaCha.vo', 'Spec/C09_ChaChaPoly.vo',
                                                  'Spec/C09_KDF.vo', 'Spec/C09_KeyCalc.vo', 'Model/C09_KeyCalc.vo', 'Toy/C09_ToyOracle.vo', 'Spec/C09_Modes.vo', 'Spec/C09_AEAD.vo']


PROOF_UNIT = {
    'Proofs/C09_Poly1305.v': 'poly1305', 'Proofs/C09_ChaCha.v': 'chacha', 'Proofs/C09_ChaChaPoly.v': 'chacha20_poly1305',
    'Proofs/C09_KDF.v': 'HKDF_expand/P_hash/PRF', 'Proofs/C09_KeyCalc.v': 'calc_key/HKDF_expand_label', 'Proofs/C09_Modes.v': 'python_rc4/CBC spec',
    'Proofs/C09_CBC.v': 'python_aes CBC', 'Proofs/C09_CTR.v': 'python_aes CTR', 'Proofs/C09_GCM.v': 'aesgcm/python_aes CTR',
    'Proofs/C09_Bits32.v': 'chacha', 'Proofs/C09_GF128.v': 'aesgcm _mul/__init__ table', 'Proofs/C09_Lists.v': 'library', 'Props/C09.v': 'statements',
}


class State:
    def __init__(self, ctx):
        self.ctx = ctx
        self.found = False           # a concrete input on which the property fails was reported
        self.tie_broken = None
        self.sections = []
        self.fall = {}               # Gallina function name -> returns `res _` (from the translator, current tree)

    def rm(self, gname, eqb, call, impl_lit, code):
        """boolean Gallina expression: generated function call agrees with the implementation's (value | exception code)"""
        if self.fall.get(gname, True):
            return 'res_matches %s (%s) %s %d' % (eqb, call, impl_lit, code)
        return '(match %s with Some v_ => %s (%s) v_ | None => false end)' % (impl_lit, eqb, call)

    def bad(self, key, what, replay):
        # a violation that matches a known finding is reported as such and must not mask anything else
        replay = {('cipher_key' if k == 'key' else k): v for k, v in replay.items()}     # vlib stores the finding key under 'key'
        if self.ctx.violation(key, what, replay, found_input=True):
            self.found = True


def lens_blocks(rng, bs, nblocks=5, extra=()):
    """lengths 0..nblocks blocks incl. partial blocks"""
    ls = {0, 1, bs - 1, bs, bs + 1, 2 * bs - 1, 2 * bs, 2 * bs + 1, nblocks * bs, nblocks * bs - 1}
    for _ in range(6):
        ls.add(rng.randrange(0, nblocks * bs + 1))
    ls.update(extra)
    return sorted(ls)


# ============================================================================ Poly1305
def sec_poly(S, quick):
    from tlslite.utils.poly1305 import Poly1305
    ctx, rng = S.ctx, S.ctx.rng
    sec = Section('C09poly', ['Gen.C09_Poly1305', 'Spec.C09_Poly1305'],
                  'list Z * list Z * option (list Z) * Z', '''
Definition chk_model (c : list Z * list Z * option (list Z) * Z) : bool :=
  let '(key, msg, impl, code) := c in
  res_matches list_eqb (p <- poly_init key ;; r <- poly_create_tag p msg ;; Ok (snd r)) impl code.
Definition chk_spec (c : list Z * list Z * option (list Z) * Z) : bool :=
  let '(key, msg, impl, code) := c in
  match impl with Some t => list_eqb (poly1305 key msg) t | None => negb (zlen key =? 32) end.
''')
    sec.fns = [('chk_model', 'model', 'poly1305:model-vs-impl'), ('chk_spec', 'spec', 'poly1305:coqspec-vs-impl')]
    keys = [bytes(32), b'\xff' * 32, bytes(16) + b'\xff' * 16, b'\xff' * 16 + bytes(16),
            bytes.fromhex('85d6be7857556d337f4452fe42d506a80103808afb0db2fd4abff6af4149f51b')]
    cases = []
    for L in lens_blocks(rng, 16, 5, extra=(15, 17, 33, 81) if quick else range(0, 100)):
        for k in range(3 if quick else 6):
            key = rng.choice(keys) if rng.random() < 0.3 else rbytes(rng, 32)
            msg = rng.choice([rbytes(rng, L), b'\xff' * L, bytes(L)]) if rng.random() < 0.4 else rbytes(rng, L)
            cases.append((key, msg))
    for n in (0, 16, 31, 33, 64):
        cases.append((rbytes(rng, n), rbytes(rng, 20)))
    n_ossl = 0
    for key, msg in cases:
        def impl():
            return bytes(Poly1305(bytearray(key)).create_tag(bytearray(msg)))
        v, code = runf(impl)
        if len(key) == 32:
            want = ref.poly1305(key, msg)
            cls = 'len%%16=%d' % (len(msg) % 16)
            if v != want:
                S.bad('poly1305!=rfc:' + cls, 'Poly1305(key).create_tag(msg) differs from RFC 8439 2.5',
                      {'unit': 'poly1305', 'key': key.hex(), 'msg': msg.hex(), 'impl': hexs(v), 'code': code, 'rfc': want.hex()})
            if n_ossl < (25 if quick else 200):
                n_ossl += 1
                o = ref.ossl_poly1305(key, msg)
                ctx.count('poly1305:impl-vs-openssl', 1, [(cls,)])
                if v != o:
                    S.bad('poly1305!=openssl:' + cls, 'Poly1305 tag differs from `openssl mac POLY1305`',
                          {'unit': 'poly1305', 'key': key.hex(), 'msg': msg.hex(), 'impl': hexs(v), 'openssl': o.hex()})
        else:
            cls = 'badkey'
            if code != 2:
                S.bad('poly1305:badkey-accepted', 'Poly1305 accepted a key that is not 32 bytes',
                      {'unit': 'poly1305', 'key': key.hex(), 'msg': msg.hex(), 'impl': hexs(v), 'code': code})
        ctx.count('poly1305:impl-vs-rfc-python', 1, [(cls, min(len(msg) // 16, 6))],
                  sample={'key': key.hex(), 'msg': msg.hex()} if len(sec.lits) % 41 == 0 else None)
        sec.add('(%s, %s, %s, %d)' % (blit(key), blit(msg), olit(v), code), {'unit': 'poly1305', 'key': key.hex(), 'msg': msg.hex()})
    S.sections.append(sec)
    # helpers (translation validation)
    hs = Section('C09polyh', ['Gen.C09_Poly1305'], 'bool', '')
    hs.fns = [('(fun b : bool => b)', 'model', 'poly1305-helpers:model-vs-impl')]
    for _ in range(30 if quick else 300):
        d = rbytes(rng, rng.choice([0, 1, 16, 17, rng.randrange(0, 40)]))
        v, code = runf(Poly1305.le_bytes_to_num, bytearray(d))
        hs.add(S.rm('poly_le_bytes_to_num', 'Z.eqb', 'poly_le_bytes_to_num %s' % blit(d), olit(v, zlit), code), {'fn': 'le_bytes_to_num', 'data': d.hex()})
        n = rng.choice([0, 1, 255, 256, 2**128 - 1, 2**128, 2**130 + 5, rng.getrandbits(rng.randrange(1, 140))])
        v, code = runf(lambda: bytes(Poly1305.num_to_16_le_bytes(n)))
        hs.add(S.rm('poly_num_to_16_le_bytes', 'list_eqb', 'poly_num_to_16_le_bytes %s' % zlit(n), olit(v), code), {'fn': 'num_to_16_le_bytes', 'n': str(n)})
    from tlslite.utils.cryptomath import divceil
    for a, b in [(0, 16), (1, 16), (15, 16), (16, 16), (17, 16), (0, 1), (5, 0), (33, 32), (255 * 32, 32), (-1, 16)]:
        v, code = runf(divceil, a, b)
        hs.add(S.rm('divceil', 'Z.eqb', 'divceil %s %s' % (zlit(a), zlit(b)), olit(v, zlit), code), {'fn': 'divceil', 'a': a, 'b': b})
    S.sections.append(hs)


# ============================================================================ ChaCha20
def sec_chacha(S, quick):
    from tlslite.utils.chacha import ChaCha
    ctx, rng = S.ctx, S.ctx.rng
    T = 'list Z * list Z * Z * list Z * option (list Z) * Z'
    sec = Section('C09cha', ['Gen.C09_ChaCha', 'Spec.C09_ChaCha'], T, '''
Definition CT := (%s)%%type.
Definition chk_model (c : CT) : bool :=
  let '(key, nonce, counter, pt, impl, code) := c in
  res_matches list_eqb (o <- cha_init key nonce counter 20 ;; cha_encrypt o pt) impl code &&
  res_matches list_eqb (o <- cha_init key nonce counter 20 ;; cha_decrypt o pt) impl code.
Definition chk_spec (c : CT) : bool :=
  let '(key, nonce, counter, pt, impl, code) := c in
  match impl with
  | Some t => list_eqb (chacha20_encrypt key counter nonce pt) t
  | None => negb ((zlen key =? 32) && (zlen nonce =? 12))
  end.
''' % T)
    sec.fns = [('chk_model', 'model', 'chacha20:model-vs-impl'), ('chk_spec', 'spec', 'chacha20:coqspec-vs-impl')]
    cases = []
    for L in ([0, 1, 63, 64, 65, 127, 128, 129, 200, 320] if quick else lens_blocks(rng, 64, 5, extra=range(0, 330, 7))):
        for k in range(2 if quick else 4):
            counter = rng.choice([0, 1, 1, 2, 7, 2**32 - 6, 2**31, rng.getrandbits(32) % (2**32 - 8)])
            cases.append((rbytes(rng, 32), rbytes(rng, 12), counter, rbytes(rng, L)))
    cases.append((bytes(range(32)), bytes.fromhex('000000000000004a00000000'), 1,
                  b"Ladies and Gentlemen of the class of '99: If I could offer you only one tip for the future, sunscreen would be it."))
    # last block uses counter 2^32-1 (the largest 32-bit block counter)
    cases.append((rbytes(rng, 32), rbytes(rng, 12), 2**32 - 2, rbytes(rng, 128)))
    for kl, nl in ((31, 12), (32, 8), (33, 12), (32, 13), (0, 0)):
        cases.append((rbytes(rng, kl), rbytes(rng, nl), 0, rbytes(rng, 10)))
    n_ossl = 0
    for key, nonce, counter, pt in cases:
        v, code = runf(lambda: bytes(ChaCha(bytearray(key), bytearray(nonce), counter).encrypt(bytearray(pt))))
        d, dcode = runf(lambda: bytes(ChaCha(bytearray(key), bytearray(nonce), counter).decrypt(bytearray(v)))) if v is not None else (None, code)
        ok = len(key) == 32 and len(nonce) == 12
        cls = ('len%%64=%d' % (len(pt) % 64 and 1), 'nblk=%d' % ((len(pt) + 63) // 64), 'ctr-hi' if counter > 2**31 else 'ctr-lo')
        if ok:
            want = ref.chacha20_encrypt(key, counter, nonce, pt)
            if v != want:
                S.bad('chacha20!=rfc:%s' % cls[0], 'ChaCha.encrypt differs from RFC 8439 2.4',
                      {'unit': 'chacha', 'key': key.hex(), 'nonce': nonce.hex(), 'counter': counter, 'pt': pt.hex(), 'impl': hexs(v), 'rfc': want.hex()})
            if d != pt:
                S.bad('chacha20:decrypt(encrypt)!=id', 'ChaCha.decrypt(encrypt(pt)) != pt',
                      {'unit': 'chacha', 'key': key.hex(), 'nonce': nonce.hex(), 'counter': counter, 'pt': pt.hex(), 'dec': hexs(d)})
            if n_ossl < (20 if quick else 150):
                n_ossl += 1
                o = ref.ossl_chacha20(key, counter, nonce, pt)
                ctx.count('chacha20:impl-vs-openssl', 1, [cls])
                if v != o:
                    S.bad('chacha20!=openssl:%s' % cls[0], 'ChaCha.encrypt differs from `openssl enc -chacha20`',
                          {'unit': 'chacha', 'key': key.hex(), 'nonce': nonce.hex(), 'counter': counter, 'pt': pt.hex(), 'impl': hexs(v), 'openssl': o.hex()})
        elif code != 2:
            S.bad('chacha20:badkey-accepted', 'ChaCha accepted a key/nonce of the wrong length',
                  {'unit': 'chacha', 'key': key.hex(), 'nonce': nonce.hex(), 'code': code})
        ctx.count('chacha20:impl-vs-rfc-python', 1, [cls if ok else ('bad',)])
        sec.add('(%s, %s, %s, %s, %s, %d)' % (blit(key), blit(nonce), zlit(counter), blit(pt), olit(v), code),
                {'unit': 'chacha', 'key': key.hex(), 'nonce': nonce.hex(), 'counter': counter, 'pt': pt.hex()})
    S.sections.append(sec)
    # ---- pieces: quarter_round, double_round, chacha_block, word conversions (translation validation
    # of each generated function, also outside the ranges the theorems cover)
    hs = Section('C09chah', ['Gen.C09_ChaCha', 'Spec.C09_ChaCha'], 'bool', '''
Definition olist_eqb := res_matches list_eqb.
''')
    hs.fns = [('(fun b : bool => b)', 'model', 'chacha20-pieces:model-vs-impl')]
    w32 = lambda: rng.choice([0, 1, 2**32 - 1, 2**31, 0x80000000, 0xffff0000, rng.getrandbits(32)])   # noqa: E731
    for _ in range(40 if quick else 400):
        x = [w32() for _ in range(16)]
        idx = rng.choice(ChaCha._round_mixup_box) if rng.random() < 0.7 else tuple(rng.randrange(16) for _ in range(4))
        if rng.random() < 0.1:
            idx = (idx[0], idx[1], idx[2], rng.choice([16, -1, -16, -17, 20]))
        y = list(x)
        _, code = runf(ChaCha.quarter_round, y, *idx)
        hs.add(S.rm('cha_quarter_round', 'list_eqb', 'cha_quarter_round %s %s %s %s %s' % ((wlit(x),) + tuple(zlit(i) for i in idx)), olit(y if code == 0 else None, wlit), code),
               {'fn': 'quarter_round', 'x': x, 'idx': idx})
        if code == 0 and all(0 <= i < 16 for i in idx):
            hs.add('list_eqb (quarterround %s %d %d %d %d) %s' % ((wlit(x),) + tuple(idx) + (wlit(y),)), {'fn': 'spec-quarterround', 'x': x, 'idx': idx})
        x = [w32() for _ in range(rng.choice([16, 16, 16, 15, 17]))]
        y = list(x)
        _, code = runf(ChaCha.double_round, y)
        hs.add(S.rm('cha_double_round', 'list_eqb', 'cha_double_round %s' % wlit(x), olit(y if code == 0 else None, wlit), code), {'fn': 'double_round', 'x': x})
        if len(x) == 16:
            hs.add('list_eqb (inner_block %s) %s' % (wlit(x), wlit(y)), {'fn': 'spec-inner_block', 'x': x})
        v, c = w32(), rng.choice([7, 8, 12, 16, 1, 31])
        hs.add('Z.eqb (cha_rotl32 %d %d) %d && Z.eqb (rotl32 %d %d) %d' % (v, c, ChaCha.rotl32(v, c), v, c, ChaCha.rotl32(v, c)), {'fn': 'rotl32', 'v': v, 'c': c})
    for _ in range(10 if quick else 100):
        key = [w32() for _ in range(8)]
        nonce = [w32() for _ in range(3)]
        counter = rng.choice([0, 1, 2**32 - 1, 2**32, 2**32 + 5, rng.getrandbits(32)])
        rounds = rng.choice([20, 20, 20, 8, 12, 0, 1, 3])
        v, code = runf(ChaCha.chacha_block, key, counter, nonce, rounds)
        hs.add(S.rm('cha_chacha_block', 'list_eqb', 'cha_chacha_block %s %s %s %d' % (wlit(key), zlit(counter), wlit(nonce), rounds), olit(v, wlit), code),
               {'fn': 'chacha_block', 'key': key, 'counter': counter, 'nonce': nonce, 'rounds': rounds})
        st = [rng.choice([w32(), w32(), w32(), 2**32, -1]) if rng.random() < 0.05 else w32() for _ in range(rng.choice([16, 16, 16, 15, 17]))]
        v, code = runf(lambda: bytes(ChaCha.word_to_bytearray(st)))
        hs.add(S.rm('cha_word_to_bytearray', 'list_eqb', 'cha_word_to_bytearray %s' % wlit(st), olit(v), code), {'fn': 'word_to_bytearray', 'st': st})
        d = rbytes(rng, rng.choice([0, 4, 12, 32, 33, 35, 7]))
        v, code = runf(ChaCha._bytearray_to_words, bytearray(d))
        hs.add(S.rm('cha_bytearray_to_words', 'list_eqb', 'cha_bytearray_to_words %s' % blit(d), olit(v, wlit), code), {'fn': '_bytearray_to_words', 'd': d.hex()})
    S.sections.append(hs)


# ============================================================================ ChaCha20-Poly1305
AEAD_MUTS = ['none', 'none', 'flip-ct', 'flip-tag', 'flip-aad', 'flip-nonce', 'trunc-1', 'trunc-16', 'short', 'extend',
             'tag-of-other-aad', 'swap-len']


def aead_mutate(rng, mut, nonce, c, aad, reseal):
    """returns (nonce, c, aad) after one mutation of an honestly sealed message"""
    c = bytearray(c)
    if mut == 'flip-ct' and len(c) > 16:
        c[rng.randrange(len(c) - 16)] ^= 1 << rng.randrange(8)
    elif mut == 'flip-tag':
        c[len(c) - 1 - rng.randrange(16)] ^= 1 << rng.randrange(8)
    elif mut == 'flip-aad' and aad:
        aad = bytearray(aad)
        aad[rng.randrange(len(aad))] ^= 1 << rng.randrange(8)
    elif mut == 'flip-nonce':
        nonce = bytearray(nonce)
        nonce[rng.randrange(12)] ^= 1 << rng.randrange(8)
    elif mut == 'trunc-1':
        c = c[:-1]
    elif mut == 'trunc-16':
        c = c[:-16]
    elif mut == 'short':
        c = c[:rng.randrange(0, 16)]
    elif mut == 'extend':
        c = c + b'\x00'
    elif mut == 'tag-of-other-aad':
        other = reseal(bytes(aad) + b'\x00')
        c = c[:-16] + other[-16:]
    elif mut == 'swap-len' and len(aad) != len(c) - 16:
        # same bytes, different split between aad and ciphertext lengths: aad' = ct, ct' = aad
        other = reseal(bytes(aad))
        c = bytearray(aad) + other[-16:]
        aad = bytes(other[:-16])
    return bytes(nonce), bytes(c), bytes(aad)


def sec_chachapoly(S, quick):
    from tlslite.utils.chacha20_poly1305 import CHACHA20_POLY1305
    ctx, rng = S.ctx, S.ctx.rng
    T = 'list Z * list Z * list Z * list Z * option (list Z) * Z * list Z * list Z * list Z * option (option (list Z)) * Z'
    sec = Section('C09cp', ['Gen.C09_Poly1305', 'Gen.C09_ChaCha', 'Gen.C09_ChaChaPoly', 'Spec.C09_ChaChaPoly'], T, '''
Definition CT := (%s)%%type.
Definition chk_model (c : CT) : bool :=
  let '(key, nonce, pt, aad, sealed, scode, nonce2, c2, aad2, opened, ocode) := c in
  res_matches list_eqb (o <- cp_init key "python" ;; cp_seal o nonce pt aad) sealed scode &&
  res_matches opt_list_eqb (o <- cp_init key "python" ;; cp_open o nonce2 c2 aad2) opened ocode.
Definition chk_spec (c : CT) : bool :=
  let '(key, nonce, pt, aad, sealed, scode, nonce2, c2, aad2, opened, ocode) := c in
  match sealed with Some s => list_eqb (aead_seal key nonce pt aad) s | None => true end &&
  match opened with Some o => opt_list_eqb (aead_open key nonce2 c2 aad2) o | None => true end.
''' % T)
    sec.fns = [('chk_model', 'model', 'chacha20poly1305:model-vs-impl'), ('chk_spec', 'spec', 'chacha20poly1305:coqspec-vs-impl')]
    n_ossl = 0
    cases = []
    for L in ([0, 1, 63, 64, 65, 130] if quick else lens_blocks(rng, 64, 5, extra=(16, 15, 17))):
        for al in ([0, 13] if quick else [0, 1, 5, 13, 16, 17, 32, 40]):
            cases.append((32, 12, L, al, rng.choice(AEAD_MUTS)))
    for m in AEAD_MUTS:
        cases.append((32, 12, rng.randrange(0, 80), rng.choice([0, 5, 13, 16]), m))
    cases += [(32, 11, 5, 5, 'none'), (32, 13, 5, 5, 'none'), (32, 0, 0, 0, 'none')]
    for L in ([4049, 16384] if quick else [4048, 4049, 4064, 8192, 16384, 16640]):
        cases.append((32, 12, L, 13, 'none'))          # up to the TLS record maximum: reference comparison only
    for kl, nl, L, al, mut in cases:
        key, nonce, pt, aad = rbytes(rng, kl), rbytes(rng, nl), rbytes(rng, L), rbytes(rng, al)
        obj = CHACHA20_POLY1305(bytearray(key), 'python')
        sealed, scode = runf(lambda: bytes(obj.seal(bytearray(nonce), bytearray(pt), bytearray(aad))))
        ok = nl == 12
        cls = (mut, 'pt%%64=%d' % (L % 64 and 1), 'aad%%16=%d' % (al % 16 and 1), min(L // 64, 4))
        if ok:
            want = ref.aead_chacha_seal(key, nonce, pt, aad)
            if sealed != want:
                S.bad('chacha20poly1305.seal!=rfc', 'CHACHA20_POLY1305.seal differs from RFC 8439 2.8',
                      {'unit': 'chachapoly', 'key': key.hex(), 'nonce': nonce.hex(), 'pt': pt.hex(), 'aad': aad.hex(), 'impl': hexs(sealed), 'rfc': want.hex()})
            if n_ossl < (12 if quick else 80) or L > 2000:
                n_ossl += 1
                o = ref.ossl_aead_chacha_seal(key, nonce, pt, aad)
                ctx.count('chacha20poly1305:impl-vs-openssl', 1, [cls[1:]])
                if sealed != o:
                    S.bad('chacha20poly1305.seal!=openssl', 'seal differs from RFC 8439 2.8 composed from openssl chacha20 + POLY1305',
                          {'unit': 'chachapoly', 'key': key.hex(), 'nonce': nonce.hex(), 'pt': pt.hex(), 'aad': aad.hex(), 'impl': hexs(sealed), 'openssl': o.hex()})
            n2, c2, a2 = aead_mutate(rng, mut, nonce, sealed, aad, lambda a: bytes(obj.seal(bytearray(nonce), bytearray(pt), bytearray(a))))
        else:
            if scode != 2:
                S.bad('chacha20poly1305:badnonce-accepted', 'seal accepted a nonce that is not 12 bytes', {'unit': 'chachapoly', 'nonce': nonce.hex()})
            n2, c2, a2 = nonce, rbytes(rng, 30), aad
        res, ocode = runf(lambda: obj.open(bytearray(n2), bytearray(c2), bytearray(a2)))
        opened = None if ocode else (None if res is None else bytes(res))
        if len(n2) == 12:
            # the property itself: open returns p iff c2 == seal(n2, p, a2)
            want_o = ref.aead_chacha_open(key, n2, c2, a2)
            untouched = ok and (bytes(n2), bytes(c2), bytes(a2)) == (nonce, sealed, aad)
            if ocode or opened != want_o or (untouched and opened != pt) or \
                    (opened is not None and ref.aead_chacha_seal(key, n2, opened, a2) != c2):
                S.bad('chacha20poly1305.open:%s' % mut, 'open() is not the inverse of seal() / accepts a modified message',
                      {'unit': 'chachapoly', 'key': key.hex(), 'nonce': n2.hex(), 'c': c2.hex(), 'aad': a2.hex(), 'impl': hexs(opened), 'code': ocode,
                       'rfc': hexs(want_o)})
        elif ocode != 2:
            S.bad('chacha20poly1305:badnonce-accepted', 'open accepted a nonce that is not 12 bytes', {'unit': 'chachapoly', 'nonce': n2.hex()})
        ctx.count('chacha20poly1305:impl-vs-rfc-python', 1, [cls + (opened is not None,)])
        if L > 2000:
            continue
        olit_open = 'None' if ocode else '(Some %s)' % olit(opened)
        sec.add('(%s, %s, %s, %s, %s, %d, %s, %s, %s, %s, %d)' % (
            blit(key), blit(nonce), blit(pt), blit(aad), olit(sealed), scode, blit(n2), blit(c2), blit(a2), olit_open, ocode),
            {'unit': 'chachapoly', 'key': key.hex(), 'nonce': nonce.hex(), 'pt': pt.hex(), 'aad': aad.hex(), 'mut': mut,
             'nonce2': n2.hex(), 'c2': c2.hex(), 'aad2': a2.hex()})
    # constructor and pad16
    hs = Section('C09cph', ['Gen.C09_Poly1305', 'Gen.C09_ChaCha', 'Gen.C09_ChaChaPoly', 'Spec.C09_ChaChaPoly'], 'bool', '')
    hs.fns = [('(fun b : bool => b)', 'model', 'chacha20poly1305-pieces:model-vs-impl')]
    for n in list(range(0, 34)) + [63, 64, 65]:
        d = rbytes(rng, n)
        v, code = runf(lambda: bytes(CHACHA20_POLY1305.pad16(bytearray(d))))
        hs.add(S.rm('cp_pad16', 'list_eqb', 'cp_pad16 %s' % blit(d), olit(v), code) + ' && list_eqb (pad16 %s) %s' % (blit(d), blit(v)), {'fn': 'pad16', 'n': n})
    for kl, impl in ((32, 'python'), (31, 'python'), (33, 'python'), (32, 'openssl'), (0, 'python')):
        k = rbytes(rng, kl)
        v, code = runf(lambda: bytes(CHACHA20_POLY1305(bytearray(k), impl).key))
        hs.add('res_matches list_eqb (o <- cp_init %s "%s" ;; Ok (cp_key o)) %s %d' % (blit(k), impl, olit(v), code), {'fn': '__init__', 'kl': kl, 'impl': impl})
    for _ in range(4):
        k, n = rbytes(rng, 32), rbytes(rng, 12)
        v, code = runf(lambda: bytes(CHACHA20_POLY1305.poly1305_key_gen(bytearray(k), bytearray(n))))
        hs.add(S.rm('cp_poly1305_key_gen', 'list_eqb', 'cp_poly1305_key_gen %s %s' % (blit(k), blit(n)), olit(v), code) +
               ' && list_eqb (poly1305_key_gen %s %s) %s' % (blit(k), blit(n), blit(v)), {'fn': 'poly1305_key_gen'})
    S.sections.append(sec)
    S.sections.append(hs)


# ============================================================================ KDFs
ALG_DS = {'md5': 16, 'sha1': 20, 'sha256': 32, 'sha384': 48, 'sha512': 64}
PURPOSES = {'master': b'master secret', 'ems': b'extended master secret', 'keyexp': b'key expansion',
            'cfin': b'client finished', 'sfin': b'server finished'}
KDF_PRE = """
Definition OC := (list (list Z * list Z))%type.
Definition orc (t : option OC) : Oracles := match t with Some tbl => table_oracles tbl | None => toy_oracles end.
Definition rb := res_matches list_eqb.
Definition pair_eqb (a b : list Z * list Z) := list_eqb (fst a) (fst b) && list_eqb (snd a) (snd b).
Definition trip_eqb (a b : list Z * list Z * list Z) :=
  list_eqb (fst (fst a)) (fst (fst b)) && list_eqb (snd (fst a)) (snd (fst b)) && list_eqb (snd a) (snd b).
Definition st_eqb (a b : (list Z * list Z * list Z) * (list Z * list Z * list Z)) := trip_eqb (fst a) (fst b) && trip_eqb (snd a) (snd b).
Definition st13_eqb (a b : (list Z * list Z) * (list Z * list Z)) := pair_eqb (fst a) (fst b) && pair_eqb (snd a) (snd b).
Definition osome (o : option (list Z)) (v : list Z) := match o with Some x => list_eqb x v | None => false end.
"""


def slit(s):
    return '"%s"%%string' % s


def oblit(v):
    return 'None' if v is None else '(Some %s)' % blit(v)


class _Stub(object):
    def __init__(self, kind, *args):
        self.kind, self.args = kind, args
        self.isBlockCipher, self.isAEAD, self.block_size = True, False, 16


def sec_kdf(S, quick):
    import c09_toys as toys
    from tlslite.utils import cryptomath
    from tlslite import mathtls
    from tlslite.handshakehashes import HandshakeHashes
    from tlslite.constants import CipherSuite
    ctx, rng = S.ctx, S.ctx.rng
    sec = Section('C09kdf', ['Base.C09_Oracle', 'Gen.C09_KDF', 'Model.C09_KeyCalc', 'Spec.C09_KDF', 'Spec.C09_KeyCalc',
                             'Toy.ToyMac', 'Toy.C09_ToyOracle'], 'bool', KDF_PRE)
    sec.fns = [('(fun b : bool => b)', 'model', 'kdf:model+coqspec-vs-impl')]

    def both_modes(call, toy_ok=True):
        """run the implementation with real (recorded) oracles and with toy oracles"""
        out = []
        table = {}
        with toys.recording(table):
            v, code = runf(call)
        out.append(('real', v, code, table))
        if toy_ok:
            with toys.installed():
                v2, code2 = runf(call)
            out.append(('toy', v2, code2, None))
        return out

    def add(expr_fmt, mode, v, code, table, meta, spec_fmt=None, tbl_limit=7000 if quick else 60000):
        o = 'None' if mode == 'toy' else '(Some %s)' % toys.table_lit(table)
        if len(o) > tbl_limit:
            return
        lit = 'rb (%s) %s %d' % (expr_fmt.replace('@O', '(orc %s)' % o), oblit(v), code)
        if spec_fmt and v is not None:
            lit += ' && (%s)' % spec_fmt.replace('@O', '(orc %s)' % o).replace('@V', blit(v))
        meta = dict(meta, mode=mode)
        sec.add(lit, meta)

    n_ossl = [0]

    def ossl_ok(limit):
        n_ossl[0] += 1
        return n_ossl[0] <= limit
    # ---- HKDF_expand: output lengths across several hash blocks and at the RFC maxima
    algs = ['sha256', 'sha384'] + ([] if quick else ['sha1', 'sha512', 'md5'])
    for alg in algs:
        hl = ALG_DS[alg]
        Ls = [0, 1, hl - 1, hl, hl + 1, 2 * hl, 3 * hl + 7, 254 * hl, 255 * hl, 255 * hl + 1]
        if not quick or alg == 'sha256':
            Ls += [254 * hl + 1, 255 * hl - 1]
        if not quick:
            Ls += [rng.randrange(0, 255 * hl) for _ in range(8)] + [5 * hl, 100 * hl + 3]
        for L in Ls:
            prk, info = rbytes(rng, rng.choice([hl, hl, 16, 0, 65, 129, 200])), rbytes(rng, rng.choice([0, 10, 13 + hl]))
            runs = both_modes(lambda: bytes(cryptomath.HKDF_expand(bytearray(prk), bytearray(info), L, alg)))
            meta = {'unit': 'hkdf_expand', 'alg': alg, 'prk': prk.hex(), 'info': info.hex(), 'L': L}
            nblk = (L + hl - 1) // hl
            cls = 'N=255' if nblk == 255 else ('N>255' if nblk > 255 else 'N<255')
            real = runs[0]
            if L <= 255 * hl:
                want = ref.hkdf_expand(prk, info, L, alg)
                if real[1] != want:
                    S.bad('hkdf_expand!=rfc5869:' + cls, 'HKDF_expand(PRK, info, L=%d, %s) %s but RFC 5869 defines the output for L <= 255*HashLen = %d'
                          % (L, alg, 'raises (code %d)' % real[2] if real[1] is None else 'returns a different value', 255 * hl),
                          dict(meta, impl=hexs(real[1]), code=real[2], rfc=want.hex()[:64] + '...'))
                if L > 0 and ossl_ok(6 if quick else 40):
                    o = ref.ossl_hkdf_expand(prk, info, L, alg)
                    ctx.count('kdf:impl-vs-openssl', 1, [('hkdf', alg, cls)])
                    if real[1] != o:
                        # the same failing input as above when the implementation raised: one finding, one key
                        S.bad(('hkdf_expand!=rfc5869:' if real[1] is None else 'hkdf_expand!=openssl:') + cls,
                              'HKDF_expand differs from `openssl kdf HKDF` (EXPAND_ONLY)', dict(meta, impl=hexs(real[1]), code=real[2]))
            ctx.count('kdf:impl-vs-rfc-python', 1, [('hkdf', alg, cls, min(nblk, 4))])
            for mode, v, code, table in runs:
                # the Coq spec recomputes T(1..i) for every i: quadratic; in quick only one long case goes through it
                heavy = quick and nblk > 64 and not (alg == 'sha256' and L == 254 * hl)
                add('HKDF_expand @O %s %s %d %s' % (blit(prk), blit(info), L, slit(alg)), mode, v, code, table, meta,
                    None if heavy else 'osome (hkdf_expand_rfc @O %s %s %s %d) @V' % (slit(alg), blit(prk), blit(info), L))
    # ---- HKDF_expand_label / derive_secret (RFC 8446 7.1); the exporter passes a caller-chosen length
    for alg in ['sha256', 'sha384']:
        hl = ALG_DS[alg]
        for length in [12, 16, 32, hl, 2 * hl + 1, 255 * hl, 0] + ([] if quick else [1, 100, 254 * hl, 65535, 65536]):
            secret, label, ctxv = rbytes(rng, rng.choice([hl, hl, 0, 1, 200])), rng.choice([b'key', b'iv', b'exporter', b'finished', b'c hs traffic', b'x' * 249, b'x' * 250]), \
                rbytes(rng, rng.choice([0, hl, 255, 256]) if rng.random() < 0.3 else rng.choice([0, hl]))
            runs = both_modes(lambda: bytes(cryptomath.HKDF_expand_label(bytearray(secret), bytearray(label), bytearray(ctxv), length, alg)))
            meta = {'unit': 'hkdf_expand_label', 'alg': alg, 'secret': secret.hex(), 'label': label.hex(), 'context': ctxv.hex(), 'L': length}
            real = runs[0]
            nblk = (length + hl - 1) // hl
            cls = 'N=255' if nblk == 255 else ('N>255' if nblk > 255 else 'N<255')
            if length <= 255 * hl and length <= 65535 and len(label) + 6 <= 255 and len(ctxv) <= 255:
                want = ref.hkdf_expand_label(secret, label, ctxv, length, alg)
                if real[1] != want:
                    S.bad('hkdf_expand_label!=rfc8446:' + cls, 'HKDF_expand_label(length=%d, %s) %s; RFC 8446 7.1 + RFC 5869 define it'
                          % (length, alg, 'raises (code %d)' % real[2] if real[1] is None else 'returns a different value'),
                          dict(meta, impl=hexs(real[1]), code=real[2]))
            ctx.count('kdf:impl-vs-rfc-python', 1, [('hkdf_label', alg, cls, len(label) > 249, len(ctxv) > 255)])
            for mode, v, code, table in runs:
                add('HKDF_expand_label @O %s %s %s %d %s' % (blit(secret), blit(label), blit(ctxv), length, slit(alg)), mode, v, code, table, meta,
                    None if (quick and nblk > 64) else
                    'osome (hkdf_expand_label_rfc @O %s %s %s %s %d) @V' % (slit(alg), blit(secret), blit(label), blit(ctxv), length))
        for tr in [None, b'', rbytes(rng, 50)]:
            secret, label = rbytes(rng, hl), rng.choice([b'derived', b'c ap traffic', b'res master'])

            def call():
                hh = None
                if tr is not None:
                    hh = HandshakeHashes()
                    hh.update(bytearray(tr))
                return bytes(cryptomath.derive_secret(bytearray(secret), bytearray(label), hh, alg))
            table = {}
            with toys.recording(table):
                v, code = runf(call)
            table[('hash', alg, tr or b'')] = __import__('hashlib').new(alg, tr or b'').digest()
            want = ref.derive_secret(secret, label, tr or b'', alg)
            meta = {'unit': 'derive_secret', 'alg': alg, 'secret': secret.hex(), 'label': label.hex(), 'transcript': hexs(tr)}
            if v != want:
                S.bad('derive_secret!=rfc8446', 'derive_secret differs from RFC 8446 7.1 Derive-Secret', dict(meta, impl=hexs(v), code=code))
            ctx.count('kdf:impl-vs-rfc-python', 1, [('derive_secret', alg, tr is None)])
            add('derive_secret @O %s %s %s %s' % (blit(secret), blit(label), oblit(tr), slit(alg)), 'real', v, code, table, meta,
                'osome (derive_secret_rfc @O %s %s %s %s) @V' % (slit(alg), blit(secret), blit(label), blit(tr or b'')))
    # ---- P_hash and the PRFs
    for alg in ['md5', 'sha1', 'sha256', 'sha384']:
        ds = ALG_DS[alg]
        for n in ([0, 1, ds, ds + 1, 5 * ds + 3] if quick else [0, 1, ds - 1, ds, ds + 1, 2 * ds, 5 * ds + 3, 136, 12, 48, 3 * ds, 1000]):
            secret, seed = rbytes(rng, rng.choice([0, 1, 24, 48, 64, 65, 200])), rbytes(rng, rng.choice([0, 13, 77]))
            runs = both_modes(lambda: bytes(mathtls.P_hash(alg, bytearray(secret), bytearray(seed), n)))
            meta = {'unit': 'p_hash', 'alg': alg, 'secret': secret.hex(), 'seed': seed.hex(), 'n': n}
            want = ref.p_hash(alg, secret, seed, n)
            if runs[0][1] != want:
                S.bad('p_hash!=rfc5246', 'P_hash differs from RFC 5246 section 5', dict(meta, impl=hexs(runs[0][1]), code=runs[0][2]))
            ctx.count('kdf:impl-vs-rfc-python', 1, [('p_hash', alg, n % ds == 0, min(n // ds, 5))])
            for mode, v, code, table in runs:
                add('P_hash @O %s %s %s %d' % (slit(alg), blit(secret), blit(seed), n), mode, v, code, table, meta,
                    'list_eqb (p_hash_rfc @O %s %d %s %s %d) @V' % (slit(alg), ds, blit(secret), blit(seed), n))
    for n in ([0, 12, 48, 104] if quick else [0, 12, 48, 104, 136, 1, 15, 16, 17, 19, 20, 21, 500]):
        for sl in ([0, 1, 48, 49] if quick else [0, 1, 2, 47, 48, 49]):
            secret, label, seed = rbytes(rng, sl), rng.choice(list(PURPOSES.values())), rbytes(rng, rng.choice([0, 36, 64]))
            for fn, alg in (('PRF', 'md5sha1'), ('PRF_1_2', 'sha256'), ('PRF_1_2_SHA384', 'sha384')):
                if fn != 'PRF' and sl not in (0, 48, 49):
                    continue
                f = getattr(mathtls, fn)
                runs = both_modes(lambda: bytes(f(bytearray(secret), bytearray(label), bytearray(seed), n)))
                meta = {'unit': fn, 'secret': secret.hex(), 'label': label.hex(), 'seed': seed.hex(), 'n': n}
                want = ref.prf_tls10(secret, label, seed, n) if fn == 'PRF' else ref.prf_tls12(alg, secret, label, seed, n)
                if runs[0][1] != want:
                    S.bad('%s!=rfc:secretlen%%2=%d' % (fn, sl % 2), '%s differs from the RFC 2246/5246 PRF' % fn,
                          dict(meta, impl=hexs(runs[0][1]), code=runs[0][2], rfc=want.hex()))
                if n > 0 and sl > 0 and ossl_ok(16 if quick else 80):
                    o = ref.ossl_tls1_prf(alg, secret, label + seed, n)
                    ctx.count('kdf:impl-vs-openssl', 1, [(fn, sl % 2)])
                    if runs[0][1] != o:
                        S.bad('%s!=openssl' % fn, '%s differs from `openssl kdf TLS1-PRF`' % fn, dict(meta, impl=hexs(runs[0][1])))
                ctx.count('kdf:impl-vs-rfc-python', 1, [(fn, sl % 2, sl == 0, min(n // 16, 8))])
                spec = {'PRF': 'prf10_rfc @O', 'PRF_1_2': 'prf12_rfc @O "sha256"%string 32', 'PRF_1_2_SHA384': 'prf12_rfc @O "sha384"%string 48'}[fn]
                for mode, v, code, table in runs:
                    add('%s @O %s %s %s %d' % (fn, blit(secret), blit(label), blit(seed), n), mode, v, code, table, meta,
                        'list_eqb (%s %s %s %s %d) @V' % (spec, blit(secret), blit(label), blit(seed), n))
    for n in [0, 1, 16, 17, 48, 136, 415, 416, 417, 450]:
        secret, seed = rbytes(rng, rng.choice([0, 48])), rbytes(rng, 64)
        runs = both_modes(lambda: bytes(mathtls.PRF_SSL(bytearray(secret), bytearray(seed), n)))
        meta = {'unit': 'PRF_SSL', 'secret': secret.hex(), 'seed': seed.hex(), 'n': n}
        if n <= 416:
            want = ref.prf_ssl3(secret, seed, n)
            if runs[0][1] != want:
                S.bad('PRF_SSL!=rfc6101', 'PRF_SSL differs from the SSLv3 key block construction (RFC 6101 6.2.2)',
                      dict(meta, impl=hexs(runs[0][1]), code=runs[0][2]))
        ctx.count('kdf:impl-vs-rfc-python', 1, [('PRF_SSL', n % 16 == 0, min(n // 16, 27))])
        for mode, v, code, table in runs:
            add('PRF_SSL @O %s %s %d' % (blit(secret), blit(seed), n), mode, v, code, table, meta,
                ('list_eqb (prf_ssl_rfc @O %s %s %d) @V' % (blit(secret), blit(seed), n)) if n <= 416 else None)
    # ---- calc_key: every version x PRF hash x label
    s384 = sorted(CipherSuite.sha384PrfSuites)[0]
    s256 = sorted(set(CipherSuite.aes128Suites) - set(CipherSuite.sha384PrfSuites))[0]
    for ver in [(3, 0), (3, 1), (3, 2), (3, 3), (3, 4)]:
        for suite, prf_alg in ((s256, 'sha256'), (s384, 'sha384')):
            for purpose, label in list(PURPOSES.items()) + [('bad', b'no such label')]:
                secret = rbytes(rng, rng.choice([48, 47, 32, 0, 1, 65, 129, 200]))
                tr, cr, sr = rbytes(rng, rng.choice([0, 100])), rbytes(rng, 32), rbytes(rng, 32)
                n = {'master': 48, 'ems': 48, 'keyexp': rng.choice([40, 72, 104, 136]), 'cfin': 12, 'sfin': 12, 'bad': 12}[purpose]
                use_hh = purpose in ('ems', 'cfin', 'sfin') or rng.random() < 0.2
                use_rnd = purpose in ('master', 'keyexp') or rng.random() < 0.2

                def call():
                    hh = None
                    if use_hh:
                        hh = HandshakeHashes()
                        hh.update(bytearray(tr))
                    return bytes(mathtls.calc_key(ver, bytearray(secret), suite, label, handshake_hashes=hh,
                                                  client_random=bytearray(cr) if use_rnd else None,
                                                  server_random=bytearray(sr) if use_rnd else None, output_length=n))
                table = {}
                with toys.recording(table):
                    v, code = runf(call)
                import hashlib as _h
                for a in ('md5', 'sha1', 'sha256', 'sha384'):
                    table[('hash', a, tr)] = _h.new(a, tr).digest()
                for snd in (b'CLNT', b'SRVR'):
                    table[('hash', 'md5', tr + snd + secret + b'\x36' * 48)] = _h.md5(tr + snd + secret + b'\x36' * 48).digest()
                    table[('hash', 'sha1', tr + snd + secret + b'\x36' * 40)] = _h.sha1(tr + snd + secret + b'\x36' * 40).digest()
                meta = {'unit': 'calc_key', 'version': list(ver), 'suite': suite, 'prf': prf_alg, 'purpose': purpose, 'secret': secret.hex(),
                        'transcript': tr.hex() if use_hh else None, 'cr': cr.hex() if use_rnd else None, 'sr': sr.hex() if use_rnd else None, 'n': n}
                valid = ver != (3, 4) and purpose != 'bad' and not (ver == (3, 0) and purpose == 'ems')
                if valid:
                    want = ref.calc_key_ref(ver, secret, prf_alg, purpose, tr, cr, sr, n)
                    if v != want:
                        S.bad('calc_key!=rfc:%d.%d:%s:%s' % (ver[0], ver[1], prf_alg if ver == (3, 3) else '-', purpose),
                              'calc_key differs from the RFC definition', dict(meta, impl=hexs(v), code=code, rfc=want.hex()))
                elif v is not None:
                    S.bad('calc_key:accepts-invalid:%s' % purpose, 'calc_key returned a value for an undefined version/label combination', dict(meta, impl=hexs(v)))
                ctx.count('kdf:impl-vs-rfc-python', 1, [('calc_key', ver, prf_alg if ver == (3, 3) else '-', purpose)])
                args = '(%d,%d) %s %s %s %s %s %s (Some %d)' % (ver[0], ver[1], blit(secret), 'true' if prf_alg == 'sha384' else 'false', blit(label),
                                                               oblit(tr if use_hh else None), oblit(cr if use_rnd else None), oblit(sr if use_rnd else None), n)
                spec = None
                if valid:
                    P = {'master': 'MasterSecret', 'ems': 'ExtMasterSecret', 'keyexp': 'KeyExpansion', 'cfin': 'ClientFinished', 'sfin': 'ServerFinished'}[purpose]
                    spec = 'list_eqb (calc_key_rfc @O (%d,%d) %s %s %s %s %s %s %d) @V' % (
                        ver[0], ver[1], 'true' if prf_alg == 'sha384' else 'false', P, blit(secret), blit(tr), blit(cr), blit(sr), n)
                add('calc_key @O ' + args, 'real', v, code, table, meta, spec)
    # ---- key block slicing and TLS 1.3 traffic keys as handed to the cipher/MAC constructors
    import tlslite.recordlayer as RLmod
    from tlslite.recordlayer import RecordLayer
    names = ['createAES', 'createAESGCM', 'createAESCCM', 'createAESCCM_8', 'createCHACHA20', 'createRC4', 'createTripleDES',
             'createHMAC', 'createMAC_SSL']
    saved = {nm: getattr(RLmod, nm) for nm in names}
    for nm in names:
        setattr(RLmod, nm, (lambda kind: (lambda *a, **kw: _Stub(kind, *a)))(nm))
    try:
        groups = [('aes128Suites', 'sha'), ('aes256Suites', 'sha256'), ('aes128GcmSuites', None), ('aes256GcmSuites', None),
                  ('chacha20Suites', None), ('tripleDESSuites', 'sha'), ('rc4Suites', 'md5'), ('aes128CcmSuites', None), ('nullSuites', 'sha')]
        for gname, _ in groups:
            suites = [x for x in sorted(getattr(CipherSuite, gname))
                      if runf(RecordLayer._getMacSettings, x)[1] == 0 and runf(RecordLayer._getCipherSettings, x)[1] == 0]
            for ver in [(3, 0), (3, 1), (3, 2), (3, 3)]:
                if (gname.endswith('GcmSuites') or 'chacha' in gname or 'Ccm' in gname) and ver != (3, 3):
                    continue
                for client in (True, False):
                    suite = rng.choice(suites)
                    ms, cr, sr = rbytes(rng, 48), rbytes(rng, 32), rbytes(rng, 32)
                    rl = RecordLayer(None)
                    rl.client, rl.version = client, ver
                    table = {}
                    with toys.recording(table):
                        _, code = runf(rl.calcPendingStates, suite, bytearray(ms), bytearray(cr), bytearray(sr), ['python'])
                    kl, il, _f = RecordLayer._getCipherSettings(suite)
                    ml, dm = RecordLayer._getMacSettings(suite)
                    meta = {'unit': 'calcPendingStates', 'suite': suite, 'group': gname, 'version': list(ver), 'client': client,
                            'ms': ms.hex(), 'cr': cr.hex(), 'sr': sr.hex()}
                    if code:
                        S.bad('calcPendingStates:raises', 'calcPendingStates raised (code %d)' % code, meta)
                        continue

                    def obs(st):
                        mac = bytes(st.macContext.args[0]) if st.macContext is not None else b''
                        if st.encContext is None:
                            return mac, b'', b''
                        a = st.encContext.args
                        if dm:
                            return mac, bytes(a[0]), bytes(a[1])
                        return mac, bytes(a[0]), bytes(st.fixedNonce)
                    w, r = obs(rl._pendingWriteState), obs(rl._pendingReadState)
                    prf = 'sha384' if suite in CipherSuite.sha384PrfSuites else 'sha256'
                    kb = ref.calc_key_ref(ver, ms, prf, 'keyexp', None, cr, sr, 2 * ml + 2 * kl + 2 * il)
                    parts, o = [], 0
                    for ln in (ml, ml, kl, kl, il, il):
                        parts.append(kb[o:o + ln])
                        o += ln
                    cst, sst = (parts[0], parts[2], parts[4]), (parts[1], parts[3], parts[5])
                    want = (cst, sst) if client else (sst, cst)
                    if kl == 0:
                        want = tuple((m, b'', b'') for m, _k, _i in want)
                    if (w, r) != want:
                        S.bad('key_block_slicing:%s' % gname, 'calcPendingStates does not hand the RFC 5246 6.3 key-block slices to the '
                              'cipher/MAC constructors in the order client MAC, server MAC, client key, server key, client IV, server IV',
                              dict(meta, write=[x.hex() for x in w], read=[x.hex() for x in r]))
                    ctx.count('kdf:impl-vs-rfc-python', 1, [('slicing', gname, ver, client)])
                    trip = lambda t: '(%s, %s, %s)' % (blit(t[0]), blit(t[1]), blit(t[2]))   # noqa: E731
                    if kl > 0:
                        o_ = '(Some %s)' % toys.table_lit(table)
                        sec.add('res_matches st_eqb (calc_pending_states (orc %s) (%d,%d) %s %s %s %s %s %d %d %d) (Some (%s, %s)) 0' % (
                            o_, ver[0], ver[1], 'true' if prf == 'sha384' else 'false', 'true' if client else 'false',
                            blit(ms), blit(cr), blit(sr), ml, kl, il, trip(w), trip(r)), dict(meta, mode='real'))
        for gname in ('aes128GcmSuites', 'aes256GcmSuites', 'chacha20Suites', 'aes128CcmSuites', 'aes128Ccm_8Suites'):
            tls13 = [s_ for s_ in getattr(CipherSuite, gname) if s_ in CipherSuite.tls13Suites]
            if not tls13:
                continue
            for client in (True, False):
                suite = rng.choice(sorted(tls13))
                prf = 'sha384' if suite in CipherSuite.sha384PrfSuites else 'sha256'
                cs_, ss_ = rbytes(rng, ALG_DS[prf]), rbytes(rng, ALG_DS[prf])
                rl = RecordLayer(None)
                rl.client, rl.version = client, (3, 4)
                table = {}
                with toys.recording(table):
                    _, code = runf(rl.calcTLS1_3PendingState, suite, bytearray(cs_), bytearray(ss_), ['python'])
                meta = {'unit': 'calcTLS1_3PendingState', 'suite': suite, 'client': client, 'cl': cs_.hex(), 'sr': ss_.hex()}
                if code:
                    S.bad('calcTLS1_3PendingState:raises', 'calcTLS1_3PendingState raised', meta)
                    continue
                kl = RecordLayer._getCipherSettings(suite)[0]
                w = (bytes(rl._pendingWriteState.encContext.args[0]), bytes(rl._pendingWriteState.fixedNonce))
                r = (bytes(rl._pendingReadState.encContext.args[0]), bytes(rl._pendingReadState.fixedNonce))
                ck = (ref.hkdf_expand_label(cs_, b'key', b'', kl, prf), ref.hkdf_expand_label(cs_, b'iv', b'', 12, prf))
                sk = (ref.hkdf_expand_label(ss_, b'key', b'', kl, prf), ref.hkdf_expand_label(ss_, b'iv', b'', 12, prf))
                if (w, r) != ((ck, sk) if client else (sk, ck)):
                    S.bad('tls13_traffic_keys:%s' % gname, 'calcTLS1_3PendingState keys/IVs differ from RFC 8446 7.3', meta)
                ctx.count('kdf:impl-vs-rfc-python', 1, [('tls13keys', gname, client)])
                pr = lambda t: '(%s, %s)' % (blit(t[0]), blit(t[1]))   # noqa: E731
                sec.add('res_matches st13_eqb (tls13_pending_state (orc (Some %s)) %s %s %s %s %d) (Some (%s, %s)) 0' % (
                    toys.table_lit(table), 'true' if client else 'false', 'true' if prf == 'sha384' else 'false', blit(cs_), blit(ss_), kl, pr(w), pr(r)),
                    dict(meta, mode='real'))
    finally:
        for nm in names:
            setattr(RLmod, nm, saved[nm])
    S.sections.append(sec)


# ============================================================================ RC4, CBC, CTR, block functions
MODES_PRE = """
Definition BT := (list (list Z * list Z))%type.
Definition borc (t : option BT) : BlockOracle := match t with Some tbl => table_block_oracle tbl | None => toy_block_oracle end.
Definition rb := res_matches list_eqb.
(* a sequence of calls on one object: expected outputs (None = raised, with code) *)
Fixpoint rc4_calls (st : RC4) (calls : list (bool * list Z * option (list Z) * Z)) : bool :=
  match calls with
  | [] => true
  | (dec, data, want, code) :: rest =>
      match (if dec then rc4_decrypt st data else rc4_encrypt st data) with
      | Ok (st', out) => match want with Some w => list_eqb out w && rc4_calls st' rest | None => false end
      | Err e => match want with None => Z.eqb (exn_code e) code && rc4_calls st rest | Some _ => false end
      end
  end.
Fixpoint rc4_spec_calls (st : list Z * Z * Z) (calls : list (bool * list Z * option (list Z) * Z)) : bool :=
  match calls with
  | [] => true
  | (dec, data, want, code) :: rest =>
      let '(st', out) := rc4_crypt st data in
      match want with Some w => list_eqb out w && rc4_spec_calls st' rest | None => false end
  end.
Fixpoint cbc_calls (O : BlockOracle) (st : AESCBC) (calls : list (bool * list Z * option (list Z) * Z)) : bool :=
  match calls with
  | [] => true
  | (dec, data, want, code) :: rest =>
      match (if dec then cbc_decrypt O st data else cbc_encrypt O st data) with
      | Ok (st', out) => match want with Some w => list_eqb out w && cbc_calls O st' rest | None => false end
      | Err e => match want with None => Z.eqb (exn_code e) code && cbc_calls O st rest | Some _ => false end
      end
  end.
Fixpoint cbc_spec_calls (O : BlockOracle) (key iv : list Z) (calls : list (bool * list Z * option (list Z) * Z)) : bool :=
  match calls with
  | [] => true
  | (dec, data, want, code) :: rest =>
      match want with
      | Some w =>
          let '(iv', out) := if dec then cbc_decrypt_spec (bo_dec O key) 16 iv data else cbc_encrypt_spec (bo_enc O key) 16 iv data in
          list_eqb out w && cbc_spec_calls O key iv' rest
      | None => negb (Z.eqb (Z.modulo (zlen data) 16) 0)
      end
  end.
Fixpoint ctr_calls (O : BlockOracle) (st : AESCTR) (calls : list (bool * list Z * option (list Z) * Z)) : bool :=
  match calls with
  | [] => true
  | (dec, data, want, code) :: rest =>
      match (if dec then ctr_decrypt O st data else ctr_encrypt O st data) with
      | Ok (st', out) => match want with Some w => list_eqb out w && ctr_calls O st' rest | None => false end
      | Err e => match want with None => Z.eqb (exn_code e) code && ctr_calls O st rest | Some _ => false end
      end
  end.
"""


def blk_table_lit(table):
    ents = []
    for (d, key, blk), v in sorted(table.items(), key=lambda kv: kv[0][2]):
        ents.append('(%s,%s)' % (blit(bytes([d, len(key)]) + key + blk), blit(v)))
    return '[' + ';'.join(ents) + ']'


def call_lit(calls):
    return '[' + ';'.join('(%s, %s, %s, %d)' % ('true' if d else 'false', blit(x), olit(w), c) for d, x, w, c in calls) + ']'


def split3(rng, total_parts, offsets=None):
    return None


def chunk_sequences(rng, bs, quick, only_multiples=False):
    """sequences of >= 3 chunk lengths mixing empty, sub-block, block-multiple and unaligned chunks in every order"""
    kinds = [0, bs, 2 * bs] if only_multiples else ([0, 3, bs, bs + 5] if quick else [0, 1, 3, bs - 1, bs, bs + 1, 2 * bs, 2 * bs + 5])
    seqs = [[a, b, c] for a in kinds for b in kinds for c in kinds]
    if not quick and len(seqs) > 300:
        seqs = [q for q in seqs if rng.random() < 300.0 / len(seqs)]
    fixed = [[5, 5, 54], [33, 2, 29], [0, 3, 0, 7, 0, 20], [1] * 20, [bs - 1, 1, 1, bs - 1, bs, 1], [7, 0, 0, bs, 2, bs * 2, 9]]
    if only_multiples:
        fixed = [[bs, 0, bs, 2 * bs, 0, 0, bs], [0, 0, bs], [2 * bs, bs, 0, bs]]
    seqs += fixed
    for _ in range(6 if quick else 150):
        n = rng.randrange(3, 7)
        seqs.append([rng.choice(kinds) if only_multiples else rng.choice(kinds + [rng.randrange(0, 3 * bs)]) for _ in range(n)])
    return seqs


def split_by(m, lens):
    out, o = [], 0
    for n in lens:
        out.append(m[o:o + n])
        o += n
    return out


def sec_modes(S, quick):
    from tlslite.utils import python_aes, python_rc4, python_tripledes
    from tlslite.utils.rijndael import Rijndael
    ctx, rng = S.ctx, S.ctx.rng
    sec = Section('C09mode', ['Base.C09_Oracle', 'Gen.C09_RC4', 'Gen.C09_AesModes', 'Spec.C09_Modes', 'Toy.C09_ToyOracle'], 'bool', MODES_PRE)
    sec.fns = [('(fun b : bool => b)', 'model', 'modes:model+coqspec-vs-impl')]
    # ---------------- RC4: one object, several calls; every split offset of 3 messages
    # key schedule for EVERY legal key length (RC4 base class admits 16..256 bytes), one-shot key stream vs the textbook RC4
    for kl in (list(range(16, 41)) + [47, 48, 63, 64, 65, 100, 127, 128, 129, 200, 255, 256] if quick else range(16, 257)):
        key = rbytes(rng, kl)
        m = rbytes(rng, 40)
        v, code = runf(lambda: bytes(python_rc4.new(bytearray(key)).encrypt(bytearray(m))))
        want = ref.rc4_crypt(ref.rc4_init(key), m)
        ctx.count('modes:impl-vs-rfc-python', 1, [('rc4-keylen', kl)])
        if v != want:
            S.bad('rc4!=spec:keylen%s' % ('=2^k' if kl & (kl - 1) == 0 else '!=2^k'),
                  'Python_RC4 with a %d-byte key produces a key stream different from RC4 (key schedule / generator)' % kl,
                  {'unit': 'rc4', 'key': key.hex(), 'msg': m.hex(), 'splits': [0, 0], 'impl': hexs(v), 'code': code, 'rfc': want.hex()})
        if kl == 16:            # the openssl CLI's rc4 takes exactly 16 key bytes
            o = ref.ossl_rc4(key, m)
            ctx.count('modes:impl-vs-openssl', 1, [('rc4', kl)])
            if v != o:
                S.bad('rc4!=openssl', 'Python_RC4 differs from `openssl enc -rc4` for a %d-byte key' % kl,
                      {'unit': 'rc4', 'key': key.hex(), 'msg': m.hex(), 'splits': [0, 0], 'impl': hexs(v), 'openssl': o.hex()})
        if kl in (16, 17, 20, 24, 31, 33, 100, 256):
            sec.add('match rc4_init %s with Ok st => rc4_calls st %s | Err _ => false end && rc4_spec_calls (rc4_ksa %s, 0, 0) %s' % (
                blit(key), call_lit([(False, m[:8], v[:8] if v else None, code)]), blit(key), call_lit([(False, m[:8], v[:8] if v else None, code)])),
                {'unit': 'rc4', 'key': key.hex(), 'msg': m[:8].hex(), 'splits': [0, 0]})
    msgs = [rbytes(rng, n) for n in ((5, 17, 40) if quick else (5, 17, 40, 300))]
    n_ossl = 0
    for m in msgs + [b'', rbytes(rng, 1)]:
        key = rbytes(rng, rng.choice([16, 16, 20, 24, 32, 37, 256]))
        whole = ref.rc4_crypt(ref.rc4_init(key), m)
        if len(m) > 1 and n_ossl < 3 and len(key) == 16:
            n_ossl += 1
            o = ref.ossl_rc4(key, m)
            ctx.count('modes:impl-vs-openssl', 1, [('rc4',)])
            if o != whole:
                raise RuntimeError('reference RC4 disagrees with openssl')
        for off in range(0, len(m) + 1):
            for off2 in ({off, len(m)} if quick or len(m) > 60 else range(off, len(m) + 1)):
                parts = [m[:off], m[off:off2], m[off2:]]
                obj = python_rc4.new(bytearray(key))
                dobj = python_rc4.new(bytearray(key))
                calls, got, dec = [], b'', b''
                for ptx in parts:
                    v, code = runf(lambda: bytes(obj.encrypt(bytearray(ptx))))
                    calls.append((False, ptx, v, code))
                    got += v or b''
                    d, dcode = runf(lambda: bytes(dobj.decrypt(bytearray(v or b''))))
                    dec += d or b''
                cls = ('rc4', 'split@%s' % ('0' if off == 0 else ('end' if off == len(m) else 'mid')))
                if got != whole:
                    S.bad('rc4_stream_split', 'Python_RC4: enc(a)+enc(b)+enc(c) on one object differs from RC4 of a+b+c (split %d,%d of %d)' % (off, off2, len(m)),
                          {'unit': 'rc4', 'key': key.hex(), 'msg': m.hex(), 'splits': [off, off2], 'impl': got.hex(), 'rfc': whole.hex()})
                if dec != m:
                    S.bad('rc4:decrypt(encrypt)!=id', 'Python_RC4 decrypt does not invert encrypt across calls',
                          {'unit': 'rc4', 'key': key.hex(), 'msg': m.hex(), 'splits': [off, off2]})
                ctx.count('modes:impl-vs-rfc-python', 1, [cls])
                if off2 in (off, len(m)) and (off % 7 == 0 or off == len(m)) and (not quick or len(m) in (0, 1, 17)):
                    st0 = ref.rc4_init(key)
                    sec.add('match rc4_init %s with Ok st => rc4_calls st %s | Err _ => false end && rc4_spec_calls (rc4_ksa %s, 0, 0) %s' % (
                        blit(key), call_lit(calls), blit(key), call_lit(calls)), {'unit': 'rc4', 'key': key.hex(), 'msg': m.hex(), 'splits': [off, off2]})
    # >= 3 calls on one object, chunks empty / sub-block / 16-multiple / unaligned in every order
    for lens in chunk_sequences(rng, 16, quick):
        key = rbytes(rng, rng.choice([16, 20, 32]))
        m = rbytes(rng, sum(lens))
        obj = python_rc4.new(bytearray(key))
        got = b''.join(bytes(obj.encrypt(bytearray(x))) for x in split_by(m, lens))
        want = ref.rc4_crypt(ref.rc4_init(key), m)
        ctx.count('modes:impl-vs-rfc-python', 1, [('rc4-multi', tuple(min(x, 17) for x in lens[:3]))])
        if got != want:
            S.bad('rc4_stream_split:multi', 'Python_RC4: %d calls with chunk lengths %r on one object differ from RC4 of the concatenation' % (len(lens), lens),
                  {'unit': 'rc4-multi', 'key': key.hex(), 'msg': m.hex(), 'chunks': lens, 'impl': got.hex(), 'rfc': want.hex()})
    for kl in (0, 15, 257):
        k = rbytes(rng, kl)
        _, code = runf(python_rc4.new, bytearray(k))
        sec.add('match rc4_init %s with Ok _ => false | Err e => Z.eqb (exn_code e) %d end' % (blit(k), code), {'unit': 'rc4', 'badkey': kl})
        if code != 2:
            S.bad('rc4:badkey-accepted', 'Python_RC4 accepts a key of %d bytes' % kl, {'unit': 'rc4', 'kl': kl})

    # ---------------- recording wrapper for the AES block function
    class RecRijndael(object):
        def __init__(self, inner, key, table):
            self.inner, self.key, self.table = inner, bytes(key), table

        def encrypt(self, b):
            r = self.inner.encrypt(b)
            self.table[(1, self.key, bytes(b))] = bytes(r)
            return r

        def decrypt(self, b):
            r = self.inner.decrypt(b)
            self.table[(2, self.key, bytes(b))] = bytes(r)
            return r
    # ---------------- AES-CBC (python_aes mode 2): lengths 0..5 blocks, calls split at every block boundary
    for kl in (16, 24, 32):
        for nb in ([0, 1, 2, 5] if quick else [0, 1, 2, 3, 4, 5, 8]):
            key, iv, m = rbytes(rng, kl), rbytes(rng, 16), rbytes(rng, 16 * nb)
            want = ref.ossl_cbc('aes-%d-cbc' % (kl * 8), key, iv, m) if nb else b''
            ctx.count('modes:impl-vs-openssl', 1, [('cbc', kl, nb)])
            for a in range(0, nb + 1):
                for b in ({a, nb} if quick else range(a, nb + 1)):
                    parts = [m[:16 * a], m[16 * a:16 * b], m[16 * b:]]
                    table = {}
                    obj = python_aes.new(bytearray(key), 2, bytearray(iv))
                    obj.rijndael = RecRijndael(obj.rijndael, key, table)
                    dobj = python_aes.new(bytearray(key), 2, bytearray(iv))
                    dobj.rijndael = RecRijndael(dobj.rijndael, key, table)
                    calls, dcalls, got, dec = [], [], b'', b''
                    for ptx in parts:
                        v, code = runf(lambda: bytes(obj.encrypt(bytearray(ptx))))
                        calls.append((False, ptx, v, code))
                        got += v or b''
                        d, dcode = runf(lambda: bytes(dobj.decrypt(bytearray(v or b''))))
                        dcalls.append((True, v or b'', d, dcode))
                        dec += d or b''
                    if got != want:
                        S.bad('cbc_stream_split:aes', 'Python_AES (CBC): calls split at blocks %d,%d of %d differ from one-shot AES-CBC (openssl)' % (a, b, nb),
                              {'unit': 'cbc', 'key': key.hex(), 'iv': iv.hex(), 'msg': m.hex(), 'splits': [a, b], 'impl': got.hex(), 'openssl': want.hex()})
                    if dec != m:
                        S.bad('cbc_dec_enc:aes', 'Python_AES (CBC): decrypt does not invert encrypt across calls',
                              {'unit': 'cbc', 'key': key.hex(), 'iv': iv.hex(), 'msg': m.hex(), 'splits': [a, b]})
                    ctx.count('modes:impl-vs-rfc-python', 1, [('cbc', kl, nb, a == 0, b == nb)])
                    if b in (a, nb) and nb <= 2:
                        o_ = '(Some %s)' % blk_table_lit(table)
                        sec.add('match cbc_init (borc %s) %s 2 %s with Ok st => cbc_calls (borc %s) st %s && cbc_calls (borc %s) st %s | Err _ => false end'
                                ' && cbc_spec_calls (borc %s) %s %s %s && cbc_spec_calls (borc %s) %s %s %s' % (
                                    o_, blit(key), blit(iv), o_, call_lit(calls), o_, call_lit(dcalls),
                                    o_, blit(key), blit(iv), call_lit(calls), o_, blit(key), blit(iv), call_lit(dcalls)),
                                {'unit': 'cbc', 'key': key.hex(), 'iv': iv.hex(), 'msg': m.hex(), 'splits': [a, b]})
    for n in (1, 15, 17, 31):
        obj = python_aes.new(bytearray(16), 2, bytearray(16))
        v, code = runf(lambda: bytes(obj.encrypt(bytearray(n))))
        if code != 3:
            S.bad('cbc:partial-block-accepted', 'Python_AES.encrypt accepts %d bytes' % n, {'unit': 'cbc', 'n': n})
        sec.add('match cbc_init (borc None) %s 2 %s with Ok st => cbc_calls (borc None) st %s | Err _ => false end' % (
            blit(bytes(16)), blit(bytes(16)), call_lit([(False, bytes(n), None, code)])), {'unit': 'cbc', 'partial': n})
    for kl, ivl, mode in ((15, 16, 2), (16, 15, 2), (16, 17, 6), (16, 16, 3), (33, 16, 2)):
        _, code = runf(python_aes.new, bytearray(kl), mode, bytearray(ivl))
        if mode in (2, 6):
            fn = 'cbc_init' if mode == 2 else 'ctr_init'
            sec.add('match %s (borc None) %s %d %s with Ok _ => false | Err e => Z.eqb (exn_code e) %d end' % (fn, blit(bytes(kl)), mode, blit(bytes(ivl)), code),
                    {'unit': 'aes-init', 'kl': kl, 'ivl': ivl, 'mode': mode})
    # ---------------- AES-CTR (Python_AES_CTR): one-shot vs SP 800-38A, then multi-call splits at every offset
    for kl in (16, 24, 32):
        for L in ([0, 1, 15, 16, 17, 40] if quick else [0, 1, 15, 16, 17, 31, 32, 33, 40, 80, 81]):
            key, m = rbytes(rng, kl), rbytes(rng, L)
            ivl = rng.choice([16, 12, 16, 4, 8, 0, 15])
            ivb = rbytes(rng, ivl)
            if ivl == 16 and rng.random() < 0.4:
                ivb = ivb[:12] + b'\xff\xff\xff' + bytes([rng.choice([0xfe, 0xff, 0xfd])])     # carry across bytes / wrap
            t0 = ivb + bytes(16 - ivl)
            want = ref.ossl_ctr(key, t0, m) if L else b''
            ctx.count('modes:impl-vs-openssl', 1, [('ctr', kl, L % 16 == 0)])
            table = {}
            obj = python_aes.new(bytearray(key), 6, bytearray(ivb))
            obj.rijndael = RecRijndael(obj.rijndael, key, table)
            v, code = runf(lambda: bytes(obj.encrypt(bytearray(m))))
            meta = {'unit': 'ctr', 'key': key.hex(), 'iv': ivb.hex(), 'msg': m.hex()}
            if v != want:
                S.bad('ctr_eq_spec', 'Python_AES_CTR.encrypt (one call) differs from SP 800-38A CTR (openssl aes-ctr)', dict(meta, impl=hexs(v), code=code, openssl=want.hex()))
            ctx.count('modes:impl-vs-rfc-python', 1, [('ctr-oneshot', kl, L % 16, ivl)])
            o_ = '(Some %s)' % blk_table_lit(table)
            sec.add('match ctr_init (borc %s) %s 6 %s with Ok st => ctr_calls (borc %s) st %s | Err _ => false end && '
                    'match %s with Some w => list_eqb (ctr_crypt_spec (bo_enc (borc %s) %s) 16 %s %s) w | None => true end' % (
                        o_, blit(key), blit(ivb), o_, call_lit([(False, m, v, code)]), olit(v), o_, blit(key), blit(t0), blit(m)), meta)
            # the property text: "multi-call streaming state for CBC/RC4/CTR": enc(a) + enc(b) must equal enc(a + b)
            if L in (17, 40, 81):
                for off in range(0, L + 1):
                    table = {}
                    obj = python_aes.new(bytearray(key), 6, bytearray(ivb))
                    obj.rijndael = RecRijndael(obj.rijndael, key, table)
                    calls, got = [], b''
                    for ptx in (m[:off], m[off:]):
                        v2, c2 = runf(lambda: bytes(obj.encrypt(bytearray(ptx))))
                        calls.append((False, ptx, v2, c2))
                        got += v2 or b''
                    ctx.count('modes:impl-vs-rfc-python', 1, [('ctr-split', off % 16 == 0)])
                    if got != want:
                        S.bad('ctr_stream_split:offset%16!=0' if off % 16 else 'ctr_stream_split:aligned',
                              'Python_AES_CTR: enc(a)+enc(b) on one object differs from enc(a+b) when the first call ends inside a block '
                              '(split at %d of %d): the unused key stream of the partial block is dropped' % (off, L),
                              dict(meta, split=off, impl=got.hex(), openssl=want.hex()))
                    if off in (0, 5, 16, 17, L) and L == 17:
                        o_ = '(Some %s)' % blk_table_lit(table)
                        sec.add('match ctr_init (borc %s) %s 6 %s with Ok st => ctr_calls (borc %s) st %s | Err _ => false end' % (
                            o_, blit(key), blit(ivb), o_, call_lit(calls)), dict(meta, split=off))
    # ---------------- streaming with >= 3 calls per object: CTR (any chunking), CBC and 3DES-CBC (block multiples and empty chunks)
    n_model = 0
    for lens in chunk_sequences(rng, 16, quick):
        kl = rng.choice([16, 24, 32])
        key, m = rbytes(rng, kl), rbytes(rng, sum(lens))
        ivb = rbytes(rng, rng.choice([16, 16, 12, 8]))
        t0 = ivb + bytes(16 - len(ivb))
        want = ref.ossl_ctr(key, t0, m) if m else b''
        table = {}
        obj = python_aes.new(bytearray(key), 6, bytearray(ivb))
        obj.rijndael = RecRijndael(obj.rijndael, key, table)
        calls, got = [], b''
        for ptx in split_by(m, lens):
            v2, c2 = runf(lambda: bytes(obj.encrypt(bytearray(ptx))))
            calls.append((False, ptx, v2, c2))
            got += v2 or b''
        ctx.count('modes:impl-vs-rfc-python', 1, [('ctr-multi', tuple((x % 16 != 0) + (x == 0) * 2 for x in lens[:4]))])
        if got != want:
            first = next((i for i in range(min(len(got), len(want))) if got[i] != want[i]), min(len(got), len(want)))
            S.bad('ctr_stream_split:multi', 'Python_AES_CTR: %d calls with chunk lengths %r on one object differ from one-call CTR of the concatenation '
                  '(first wrong byte %d)' % (len(lens), lens, first),
                  {'unit': 'ctr-multi', 'key': key.hex(), 'iv': ivb.hex(), 'msg': m.hex(), 'chunks': lens, 'impl': got.hex(), 'openssl': want.hex()})
        if n_model < (4 if quick else 25) and len(lens) <= 4 and sum(lens) <= 60:
            n_model += 1
            o_ = '(Some %s)' % blk_table_lit(table)
            sec.add('match ctr_init (borc %s) %s 6 %s with Ok st => ctr_calls (borc %s) st %s | Err _ => false end' % (
                o_, blit(key), blit(ivb), o_, call_lit(calls)), {'unit': 'ctr-multi', 'key': key.hex(), 'iv': ivb.hex(), 'msg': m.hex(), 'chunks': lens})
    for cipher in ('aes', '3des'):
        bs = 16 if cipher == 'aes' else 8
        for lens in chunk_sequences(rng, bs, quick, only_multiples=True):
            kl = rng.choice([16, 24, 32] if cipher == 'aes' else [16, 24])
            key, iv, m = rbytes(rng, kl), rbytes(rng, bs), rbytes(rng, sum(lens))
            name = ('aes-%d-cbc' % (kl * 8)) if cipher == 'aes' else ('des-ede3-cbc' if kl == 24 else 'des-ede-cbc')
            want = ref.ossl_cbc(name, key, iv, m) if m else b''
            mk_obj = (lambda: python_aes.new(bytearray(key), 2, bytearray(iv))) if cipher == 'aes' else (lambda: python_tripledes.new(bytearray(key), bytearray(iv)))
            obj, dobj = mk_obj(), mk_obj()
            got, dec = b'', b''
            for ptx in split_by(m, lens):
                v2, _c = runf(lambda: bytes(obj.encrypt(bytearray(ptx))))
                got += v2 or b''
                d2, _c = runf(lambda: bytes(dobj.decrypt(bytearray(v2 or b''))))
                dec += d2 or b''
            ctx.count('modes:impl-vs-rfc-python', 1, [('cbc-multi', cipher, tuple(x // bs for x in lens[:4]))])
            if got != want or dec != m:
                S.bad('cbc_stream_split:multi:%s' % cipher, '%s-CBC: %d calls with chunk lengths %r on one object differ from one-call CBC (openssl) / decrypt does not invert'
                      % (cipher, len(lens), lens),
                      {'unit': 'cbc-multi', 'cipher': name, 'key': key.hex(), 'iv': iv.hex(), 'msg': m.hex(), 'chunks': lens, 'impl': got.hex(), 'openssl': want.hex()})
    # ---------------- 3DES-CBC (python_tripledes): correspondence only (hand model = CBC spec over the DES-EDE block oracle)
    for kl in (24, 16):
        for nb in ([0, 1, 3] if quick else [0, 1, 2, 3, 5]):
            key, iv, m = rbytes(rng, kl), rbytes(rng, 8), rbytes(rng, 8 * nb)
            want = ref.ossl_cbc('des-ede3-cbc' if kl == 24 else 'des-ede-cbc', key, iv, m) if nb else b''
            ctx.count('modes:impl-vs-openssl', 1, [('3des-cbc', kl, nb)])
            for a in range(0, nb + 1):
                obj = python_tripledes.new(bytearray(key), bytearray(iv))
                dobj = python_tripledes.new(bytearray(key), bytearray(iv))
                got, dec = b'', b''
                for ptx in (m[:8 * a], m[8 * a:]):
                    v, code = runf(lambda: bytes(obj.encrypt(bytearray(ptx))))
                    got += v or b''
                    d, _ = runf(lambda: bytes(dobj.decrypt(bytearray(v or b''))))
                    dec += d or b''
                if got != want:
                    S.bad('cbc_stream_split:3des', 'Python_TripleDES: calls split at block %d of %d differ from one-shot 3DES-CBC (openssl)' % (a, nb),
                          {'unit': '3des', 'key': key.hex(), 'iv': iv.hex(), 'msg': m.hex(), 'split': a, 'impl': got.hex(), 'openssl': want.hex()})
                if dec != m:
                    S.bad('cbc_dec_enc:3des', 'Python_TripleDES: decrypt does not invert encrypt across calls',
                          {'unit': '3des', 'key': key.hex(), 'iv': iv.hex(), 'msg': m.hex(), 'split': a})
                ctx.count('modes:impl-vs-rfc-python', 1, [('3des-cbc', kl, nb, a)])
    # ---------------- the block functions themselves: correspondence only (oracles in every theorem)
    nist = [('2b7e151628aed2a6abf7158809cf4f3c', '6bc1bee22e409f96e93d7e117393172a', '3ad77bb40d7a3660a89ecaf32466ef97'),
            ('8e73b0f7da0e6452c810f32b809079e562f8ead2522c6b7b', '6bc1bee22e409f96e93d7e117393172a', 'bd334f1d6e45f25ff712a214571fa5cc'),
            ('603deb1015ca71be2b73aef0857d77811f352c073b6108d72d9810a30914dff4', '6bc1bee22e409f96e93d7e117393172a', 'f3eed1bdb5d2a03c064b5a7e3db181f8'),
            ('000102030405060708090a0b0c0d0e0f', '00112233445566778899aabbccddeeff', '69c4e0d86a7b0430d8cdb78070b4c55a')]
    for k, p_, c_ in nist:
        r = Rijndael(bytearray(bytes.fromhex(k)), 16)
        e, d = bytes(r.encrypt(bytearray(bytes.fromhex(p_)))), bytes(r.decrypt(bytearray(bytes.fromhex(c_))))
        ctx.count('blockcipher:impl-vs-vectors', 1, [('aes', len(k) // 2)])
        if e.hex() != c_ or d.hex() != p_:
            S.bad('aes-block!=fips197', 'Rijndael block function fails a FIPS-197 / SP 800-38A vector', {'unit': 'aes-block', 'key': k, 'pt': p_, 'impl': e.hex()})
    for kl in (16, 24, 32):
        for _ in range(2 if quick else 10):
            key = rng.choice([rbytes(rng, kl), bytes(kl), b'\xff' * kl])
            blocks = [rng.choice([rbytes(rng, 16), bytes(16), b'\xff' * 16]) for _ in range(8 if quick else 40)]
            r = Rijndael(bytearray(key), 16)
            enc = b''.join(bytes(r.encrypt(bytearray(b))) for b in blocks)
            want = ref.aes_ecb(key, b''.join(blocks))
            dec = b''.join(bytes(r.decrypt(bytearray(want[i:i + 16]))) for i in range(0, len(want), 16))
            ctx.count('blockcipher:impl-vs-openssl', len(blocks), [('aes', kl)])
            if enc != want or dec != b''.join(blocks):
                S.bad('aes-block!=openssl', 'Rijndael encrypt/decrypt differs from `openssl enc -aes-%d-ecb`' % (kl * 8),
                      {'unit': 'aes-block', 'key': key.hex(), 'blocks': b''.join(blocks).hex()})
    S.sections.append(sec)


# ============================================================================ AES-GCM, AES-CCM / CCM-8
AEAD2_PRE = """
Definition BT := (list (list Z * list Z))%type.
Definition borc (t : option BT) : BlockOracle := match t with Some tbl => table_block_oracle tbl | None => toy_block_oracle end.
Definition CT := (Z * option BT * list Z * list Z * list Z * list Z * option (list Z) * Z * list Z * list Z * list Z * option (option (list Z)) * Z)%type.
Definition chk_model (c : CT) : bool :=
  let '(kind, t, key, nonce, pt, aad, sealed, scode, nonce2, c2, aad2, opened, ocode) := c in
  let O := borc t in
  if LONGAAD <? zlen aad then true    (* the generated CBC-MAC updates a list in place: quadratic; long AAD is checked on the spec only *)
  else if kind =? 0 then
    res_matches list_eqb (o <- gcm_init O key "python" 0 ;; r <- gcm_seal O o nonce pt aad ;; Ok (snd r)) sealed scode &&
    res_matches opt_list_eqb (o <- gcm_init O key "python" 0 ;; r <- gcm_open O o nonce2 c2 aad2 ;; Ok (snd r)) opened ocode
  else
    res_matches list_eqb (o <- ccm_init O key "python" 0 kind ;; r <- ccm_seal O o nonce pt aad ;; Ok (snd r)) sealed scode &&
    res_matches opt_list_eqb (o <- ccm_init O key "python" 0 kind ;; r <- ccm_open O o nonce2 c2 aad2 ;; Ok (snd r)) opened ocode.
Definition chk_spec (c : CT) : bool :=
  let '(kind, t, key, nonce, pt, aad, sealed, scode, nonce2, c2, aad2, opened, ocode) := c in
  let E := bo_enc (borc t) key in
  match sealed with
  | Some s => list_eqb (if kind =? 0 then gcm_seal_spec E nonce pt aad else ccm_seal_spec E kind nonce pt aad) s
  | None => true end &&
  match opened with
  | Some o => opt_list_eqb (if kind =? 0 then gcm_open_spec E nonce2 c2 aad2 else ccm_open_spec E kind nonce2 c2 aad2) o
  | None => true end.
"""


def sec_aesaead(S, quick):
    import c09_toys as toys
    from tlslite.utils.aesgcm import AESGCM
    from tlslite.utils.aesccm import AESCCM
    from tlslite.utils.rijndael import Rijndael
    ctx, rng = S.ctx, S.ctx.rng
    sec = Section('C09aead', ['Base.C09_Oracle', 'Gen.C09_AesModes', 'Gen.C09_GCM', 'Gen.C09_CCM', 'Spec.C09_AEAD', 'Toy.C09_ToyOracle'],
                  'CT', AEAD2_PRE.replace('LONGAAD', '5000'))
    sec.fns = [('chk_model', 'model', 'aesaead:model-vs-impl'), ('chk_spec', 'spec', 'aesaead:coqspec-vs-impl')]

    class Rec(object):
        def __init__(self, inner, key, table):
            self.inner, self.key, self.table = inner, bytes(key), table

        def encrypt(self, b):
            r = self.inner.encrypt(b)
            if self.table is not None:
                self.table[(1, self.key, bytes(b))] = bytes(r)
            return r

        def decrypt(self, b):
            r = self.inner.decrypt(b)
            if self.table is not None:
                self.table[(2, self.key, bytes(b))] = bytes(r)
            return r

    def mk(kind, key, toy, table):
        blk = toys.ToyBlock(key) if toy else Rec(Rijndael(bytearray(key), 16), key, table)
        if kind == 0:
            o = AESGCM(bytearray(key), 'python', blk.encrypt)
            o._ctr.rijndael = blk
        else:
            o = AESCCM(bytearray(key), 'python', bytearray(16), kind)
            o._ctr.rijndael = blk
            o._cbc.rijndael = blk
        return o, blk
    # NIST vectors (SP 800-38D test case 4, SP 800-38C example 3) against the implementation directly
    H = bytes.fromhex
    o, _ = mk(0, H('feffe9928665731c6d6a8f9467308308'), False, None)
    v, _c = runf(lambda: bytes(o.seal(bytearray(H('cafebabefacedbaddecaf888')), bytearray(H(
        'd9313225f88406e5a55909c5aff5269a86a7a9531534f7da2e4c303d8a318a721c3c0c95956809532fcf0e2449a6b525b16aedf5aa0de657ba637b39')),
        bytearray(H('feedfacedeadbeeffeedfacedeadbeefabaddad2')))))
    if hexs(v) != ('42831ec2217774244b7221b784d0d49ce3aa212f2c02a4e035c17e2329aca12e21d514b25466931c7d8f6a5aac84aa051ba30b396a0aac973d58e091'
                   '5bc94fbc3221a5db94fae95ae7121a47'):
        S.bad('gcm_seal!=sp800-38d:vector', 'AESGCM.seal fails SP 800-38D test case 4', {'unit': 'gcm', 'impl': hexs(v)})
    o, _ = mk(8, H('404142434445464748494a4b4c4d4e4f'), False, None)
    v, _c = runf(lambda: bytes(o.seal(bytearray(H('101112131415161718191a1b')), bytearray(range(0x20, 0x38)), bytearray(range(20)))))
    if hexs(v) != 'e3b201a9f5b71a7a9b1ceaeccd97e70b6176aad9a4428aa5484392fbc1b09951':
        S.bad('ccm_seal!=sp800-38c:vector', 'AESCCM(tag 8).seal fails SP 800-38C example 3', {'unit': 'ccm', 'impl': hexs(v)})
    ctx.count('aesaead:impl-vs-vectors', 2, [('gcm',), ('ccm8',)])
    cases = []
    for kind in (0, 16, 8):
        for kl in (16, 32):
            for L in ([0, 1, 16, 17, 80] if quick else [0, 1, 15, 16, 17, 31, 32, 33, 64, 80, 81]):
                for al in ([0, 13] if quick else [0, 1, 13, 16, 17, 40]):
                    cases.append((kind, kl, 12, L, al, rng.choice(AEAD_MUTS), False))
    for kind in (0, 16, 8):
        for m in AEAD_MUTS:
            cases.append((kind, 16, 12, rng.randrange(0, 50), rng.choice([0, 5, 13]), m, False))
        cases += [(kind, 16, 11, 5, 5, 'none', False), (kind, 16, 13, 5, 5, 'none', False)]
    # plaintext lengths up to the TLS record maximum (2^14 + 256): implementation vs reference only (openssl ECB underneath);
    # 4048/4049 = 253/254 key-stream blocks, where the low counter byte of J0+2.. carries into the next byte
    for kind in (0, 16, 8):
        for kl in ((16,) if quick else (16, 32)):
            for L in (([4048, 4049, 16384] if kind == 0 else [4049]) if quick else [4048, 4049, 4064, 8192, 16384, 16640]):
                cases.append((kind, kl, 12, L, 13, 'none' if quick else rng.choice(['none', 'flip-ct', 'flip-tag']), False))
    # CCM: AAD length encodings around the 2^16 - 2^8 boundary (toy block function: the tables would be too large)
    for kind in (16, 8):
        for al in ([2 ** 16 - 2 ** 8 - 1, 2 ** 16 - 2 ** 8, 2 ** 16 + 2 ** 8] if quick else
                   [2 ** 16 - 2 ** 8 - 1, 2 ** 16 - 2 ** 8, 2 ** 16 - 2 ** 8 + 1, 2 ** 16 - 1, 2 ** 16, 2 ** 16 + 2 ** 8]):
            cases.append((kind, 16, 12, 20, al, 'none', True))
    cases.append((0, 16, 12, 20, 2 ** 16 + 2 ** 8, 'flip-aad', True))
    n_big_real = 0
    for kind, kl, nl, L, al, mut, toy in cases:
        key, nonce, pt, aad = rbytes(rng, kl), rbytes(rng, nl), rbytes(rng, L), rbytes(rng, al)
        name = {0: 'gcm', 16: 'ccm', 8: 'ccm8'}[kind]
        table = None if (toy or L > 2000) else {}
        obj, blk = mk(kind, key, toy, table)
        ecb = (lambda b: b''.join(bytes(blk.encrypt(bytearray(b[i:i + 16]))) for i in range(0, len(b), 16))) if toy else (lambda b: ref.aes_ecb(key, b))
        sealed, scode = runf(lambda: bytes(obj.seal(bytearray(nonce), bytearray(pt), bytearray(aad))))
        ok = nl == 12
        cls = (name, mut, L % 16 and 1, min(L // 16, 5), 'aad>=65280' if al >= 65280 else (al % 16 and 1), toy)
        meta = {'unit': name, 'toy': toy, 'key': key.hex(), 'nonce': nonce.hex(), 'pt': pt.hex(), 'aad': aad.hex() if al < 200 else 'len=%d' % al, 'mut': mut}
        if ok:
            want = ref.gcm_seal(ecb, nonce, pt, aad) if kind == 0 else ref.ccm_seal(ecb, kind, nonce, pt, aad)
            if sealed != want:
                S.bad('%s_seal!=spec:aad%s%s' % (name, '>=2^16-2^8' if al >= 65280 else '<2^16-2^8', ':pt>=4049' if L >= 4049 else ''),
                      '%s.seal differs from %s' % (name, 'SP 800-38D' if kind == 0 else 'RFC 3610'), dict(meta, impl=hexs(sealed), code=scode, spec=want.hex()))
            if kind == 0 and not toy and L == 0 and al > 0:
                g = ref.ossl_gmac(key, nonce, aad)
                ctx.count('aesaead:impl-vs-openssl', 1, [('gmac', kl)])
                if sealed != g:
                    S.bad('gcm_seal!=openssl-gmac', 'AESGCM.seal with empty plaintext differs from `openssl mac GMAC`', dict(meta, impl=hexs(sealed), openssl=g.hex()))
            n2, c2, a2 = aead_mutate(rng, mut, nonce, sealed, aad, lambda a: bytes(obj.seal(bytearray(nonce), bytearray(pt), bytearray(a))))
            if kind == 8 and mut == 'flip-tag':
                c2 = bytearray(sealed)
                c2[-1 - rng.randrange(8)] ^= 1 << rng.randrange(8)
                c2 = bytes(c2)
        else:
            if scode != 2:
                S.bad('%s:badnonce-accepted' % name, 'seal accepted a nonce that is not 12 bytes', meta)
            n2, c2, a2 = nonce, rbytes(rng, 30), aad
        res, ocode = runf(lambda: obj.open(bytearray(n2), bytearray(c2), bytearray(a2)))
        opened = None if ocode else (None if res is None else bytes(res))
        if len(n2) == 12:
            want_o = ref.gcm_open(ecb, n2, c2, a2) if kind == 0 else ref.ccm_open(ecb, kind, n2, c2, a2)
            untouched = ok and (bytes(n2), bytes(c2), bytes(a2)) == (nonce, sealed, aad)
            if ocode or opened != want_o or (untouched and opened != pt):
                S.bad('%s_open:%s' % (name, mut), '%s.open is not the inverse of seal / accepts a modified message' % name,
                      dict(meta, nonce2=n2.hex(), c2=c2.hex(), impl=hexs(opened), code=ocode, spec=hexs(want_o)))
        elif ocode != 2:
            S.bad('%s:badnonce-accepted' % name, 'open accepted a nonce that is not 12 bytes', meta)
        ctx.count('aesaead:impl-vs-spec-python', 1, [cls + (opened is not None,)])
        if L > 2000:
            continue            # large records: direct reference comparison only
        tl = 'None' if toy else '(Some %s)' % blk_table_lit(table)
        if len(tl) > (40000 if quick else 120000):
            continue
        if quick and al > 5000 and not (kind == 16 and al in (2 ** 16 - 2 ** 8 - 1, 2 ** 16 - 2 ** 8)):
            continue        # quick: only the two boundary lengths go through Coq (literal size)
        olit_open = 'None' if ocode else '(Some %s)' % olit(opened)
        sec.add('(%d, %s, %s, %s, %s, %s, %s, %d, %s, %s, %s, %s, %d)' % (
            kind, tl, blit(key), blit(nonce), blit(pt), blit(aad), olit(sealed), scode, blit(n2), blit(c2), blit(a2), olit_open, ocode), meta)
    # one AEAD object used for >= 3 records in a row (seal and open interleaved), record lengths empty / sub-block / block-multiple / unaligned
    # in every order: the CTR / CBC-MAC objects inside must carry nothing from one record to the next
    from tlslite.utils.chacha20_poly1305 import CHACHA20_POLY1305
    seqs = chunk_sequences(rng, 16, quick)
    for kind in (0, 16, 8, 'chacha'):
        name = {0: 'gcm', 16: 'ccm', 8: 'ccm8', 'chacha': 'chachapoly'}[kind]
        for lens in (seqs[::8] if quick else seqs[::4]):
            key = rbytes(rng, 32 if kind == 'chacha' else rng.choice([16, 32]))
            if kind == 'chacha':
                obj = CHACHA20_POLY1305(bytearray(key), 'python')
            else:
                obj, _blk = mk(kind, key, False, None)
            ecb = lambda b: ref.aes_ecb(key, b)
            recs = []
            for i, L in enumerate(lens):
                nonce, pt, aad = rbytes(rng, 12), rbytes(rng, L), rbytes(rng, rng.choice([0, 5, 13, 16, 21]))
                want = (ref.aead_chacha_seal(key, nonce, pt, aad) if kind == 'chacha' else
                        ref.gcm_seal(ecb, nonce, pt, aad) if kind == 0 else ref.ccm_seal(ecb, kind, nonce, pt, aad))
                sealed, scode = runf(lambda: bytes(obj.seal(bytearray(nonce), bytearray(pt), bytearray(aad))))
                res, ocode = runf(lambda: obj.open(bytearray(nonce), bytearray(want), bytearray(aad)))
                recs.append({'nonce': nonce.hex(), 'pt': pt.hex(), 'aad': aad.hex()})
                if sealed != want or ocode or res is None or bytes(res) != pt:
                    S.bad('%s_seal!=spec:record-sequence' % name, '%s: record %d of the sequence with plaintext lengths %r on ONE object: seal differs from the '
                          'reference or open does not return the plaintext' % (name, i, lens),
                          {'unit': 'aead-seq', 'aead': name, 'key': key.hex(), 'records': recs, 'impl': hexs(sealed), 'code': scode, 'spec': want.hex(),
                           'opened': hexs(bytes(res)) if res is not None and not ocode else None})
                    break
            ctx.count('aesaead:impl-vs-spec-python', 1, [(name, 'seq', tuple((x % 16 != 0) + (x == 0) * 2 for x in lens[:3]))])
    # GCM field arithmetic piece by piece: the 4-bit table multiply against the bitwise SP 800-38D multiply
    hs = Section('C09gcmh', ['Base.C09_Oracle', 'Gen.C09_AesModes', 'Gen.C09_GCM', 'Spec.C09_AEAD', 'Toy.C09_ToyOracle'], 'bool', """
Definition BT := (list (list Z * list Z))%type.
Definition O1 (k e : list Z) : BlockOracle := table_block_oracle [(1 :: zlen k :: k ++ repeat 0 16, e)].
""")
    hs.fns = [('(fun b : bool => b)', 'model', 'gcm-pieces:model+coqspec-vs-impl')]
    for _ in range(12 if quick else 100):
        key = rbytes(rng, 16)
        e0 = rng.choice([rbytes(rng, 16), bytes(15) + b'\x01', b'\x80' + bytes(15), b'\xff' * 16, bytes(16)])
        o = AESGCM(bytearray(key), 'python', lambda b: bytearray(e0))
        h = int.from_bytes(e0, 'big')
        for y in [rng.getrandbits(128), 1, 1 << 127, (1 << 128) - 1, 0, rng.getrandbits(128)]:
            v, code = runf(o._mul, y)
            if v != ref._gf_mul(y, h):
                S.bad('gcm_mul!=gf128', 'AESGCM._mul(y) differs from the SP 800-38D product y.H', {'unit': 'gcm_mul', 'h': hex(h), 'y': hex(y), 'impl': str(v)})
            ctx.count('aesaead:impl-vs-spec-python', 1, [('gcm_mul', y in (0, 1))])
            hs.add('match gcm_init (O1 %s %s) %s "python" 0 with Ok g => res_matches Z.eqb (gcm_mul (O1 %s %s) g %d) %s %d | Err _ => false end && Z.eqb (gf128_mul (borc_dummy %d) %d %d) %d' .replace('(borc_dummy %d) ', '%.0s') % (
                blit(key), blit(e0), blit(key), blit(key), blit(e0), y, olit(v, zlit), code, 0, y, h, v if v is not None else -1),
                {'fn': 'gcm_mul', 'h': hex(h), 'y': hex(y)})
    for i in range(0, 18):
        v, code = runf(AESGCM._reverseBits, i)
        hs.add(S.rm('gcm_reverseBits', 'Z.eqb', 'gcm_reverseBits (O1 [] []) %d' % i, olit(v, zlit), code), {'fn': '_reverseBits', 'i': i})
    for x in [0, 1, 2, 3, (1 << 128) - 1, 1 << 127, rng.getrandbits(128)]:
        hs.add('Z.eqb (gcm_gcmShift (O1 [] []) %d) %d' % (x, AESGCM._gcmShift(x)), {'fn': '_gcmShift', 'x': hex(x)})
    S.sections.append(sec)
    S.sections.append(hs)


# ============================================================================ live connections: exporter on full and resumed handshakes
def sec_live(S, quick):
    import c09_live
    c09_live.run_live(S, quick)


SECTIONS = [sec_poly, sec_chacha, sec_chachapoly, sec_kdf, sec_modes, sec_aesaead, sec_live]


# ============================================================================ driver
def run(ctx):
    quick = ctx.tier == 'quick'
    S = State(ctx)
    for u in UNITS:
        ok, msg = units_c09.generate(u, vlib.COQ)
        ctx.log('translator: %s' % msg)
        if not ok:
            S.tie_broken = S.tie_broken or msg
    try:
        S.fall = units_c09.fallibility(UNITS)
    except Exception as e:      # noqa
        ctx.log('fallibility query failed: %r' % (e,))
    res = vlib.proof_stage(ctx, 'Props/C09.v', model_targets=MODEL_TARGETS)
    if not res['ok']:
        # make -k goes on after the first error: name every file that no longer checks and the unit it is about
        import re
        fails = []
        for m in re.finditer(r'File "\./([^"]+)", line (\d+)', res['log']):
            f = '%s:%s' % (m.group(1), m.group(2))
            if f not in fails:
                fails.append(f)
        if fails:
            res['failing'] = ' '.join('%s[%s]' % (f, PROOF_UNIT.get(f.split(':')[0], '?')) for f in fails)
    if not res['ok'] and S.tie_broken and res['failing'] in (None, 'unknown'):
        res['failing'] = S.tie_broken[:200]          # a refused unit leaves no Gen file: name the refusal, not 'unknown'
    ctx.log('proof stage ok=%s failing=%s' % (res['ok'], res['failing']))
    ctx.cov['trusted_base'] = [
        'Coq 8.16.1 kernel + vm_compute (case evaluation)',
        'translator/pylite.py + translator/pylite_c09.py (Python ast -> Gallina; semantics in their docstrings and coq/Base/C09_Lib.v), '
        'validated on every run by evaluating each generated function against the Python function',
        'Spec/C09_*.v as the reading of RFC 8439 (cross-checked on every run against the implementation, an independent Python '
        'transcription and the openssl CLI)',
        'CPython: struct.pack/unpack, hmac.compare_digest (= equality), unbounded int arithmetic',
        'value semantics of the translation: aliasing of mutable sequences is modelled for `x = self.f` only; the translator refuses '
        '(fail closed) fields that store a caller-owned sequence uncopied and are updated in place, and locals mutated after being '
        'handed to a field/property; other aliasing patterns are trusted (bounded by translation validation)',
        'live stage: the (exporter) master secret is read from the Session object; randoms are parsed from the captured byte streams',
        'oracles (not verified): AES and 3DES block functions (Base/C09_Oracle.v BlockOracle; rijndael.py/python_tripledes.py: correspondence '
        'against openssl ECB + FIPS-197 vectors only), SHA/MD5/HMAC from hashlib (Oracles record)',
        'hand models Model/C09_KeyCalc.v (HKDF_expand_label, derive_secret, PRF_SSL, calc_key, key-block slicing, TLS 1.3 keys): correspondence tie only',
    ]
    ctx.assumptions += ['keys/nonces of the stated length, all sequence elements bytes (0..255)',
                        'ChaCha20: block counter + number of blocks <= 2^32 (RFC 8439 limit, < 256 GiB per nonce)',
                        'ChaCha20-Poly1305: AAD shorter than 2^64 bytes']
    # ---- implementation vs independent references (the property oracle; needs no Coq)
    for f in SECTIONS:
        try:
            f(S, quick)
        except Exception as e:      # noqa
            import traceback
            tb = traceback.format_exc()
            ctx.log(tb)
            S.tie_broken = S.tie_broken or ('section %s failed: %s' % (f.__name__, tb.splitlines()[-1]))
    ctx.log('implementation vs references: %d evaluations' % ctx.cov['evaluations'])
    # ---- generated model and Coq spec on the same cases
    if res['model_ok'] and not any('refused' in (S.tie_broken or '') for _ in [0]):
        allres = evaluate_all(S.sections, lambda sec: max(6, (len(sec.lits) + 15) // 16) if quick else 40)
        for sec, (bads, errs) in zip(S.sections, allres):
            for (fn, kind, stream), bad in zip(sec.fns, bads):
                ctx.count(stream, len(sec.lits), [(sec.tag, 'ok', len(sec.lits) - len(bad))])
                for i in bad[:4]:
                    ctx.log('%s: %s fails on case %d: %s' % (sec.tag, fn, i, str(sec.meta[i])[:300]))
                    if kind == 'spec':
                        S.bad('coqspec!=impl:%s' % sec.tag, 'Coq specification (RFC text) disagrees with the implementation',
                              {'section': sec.tag, 'case': sec.meta[i]})
                    elif not S.found:
                        S.tie_broken = S.tie_broken or ('generated model disagrees with implementation in %s on %s' % (sec.tag, str(sec.meta[i])[:400]))
            for e in errs:
                S.tie_broken = S.tie_broken or ('case evaluation failed: ' + e[:400])
            ctx.log('%s: %d cases evaluated in Coq' % (sec.tag, len(sec.lits)))
    elif not res['model_ok']:
        S.tie_broken = S.tie_broken or ('generated model does not compile: %s' % res['failing'])
    ctx.cov['rule'] = ('per unit: lengths 0..5 blocks incl. partial blocks, boundary keys/counters, honest AEAD outputs followed by one '
                       'mutation class; distinct/non-trivial = (unit, length class mod block, block count, mutation class, verdict)')
    if S.tie_broken and not S.found:
        ctx.violation('tie-broken', S.tie_broken, {'correspondence': 'Gen/C09_*.v vs tlslite', 'detail': S.tie_broken}, found_input=False)
        S.found = True
    vlib.broken_proof_verdict(ctx, res, S.found)


def replay(ctx, path):
    """re-runs the failing input of a replay file against $VERIF_REPO; exit 0 iff the implementation now agrees with the reference"""
    import json
    with open(path) as f:
        r = json.load(f)
    print(json.dumps({k: (v if len(str(v)) < 300 else str(v)[:300] + '...') for k, v in r.items() if k != 'log_tail'}, indent=1))
    u = r.get('unit')
    H = bytes.fromhex
    K = H(r['cipher_key']) if isinstance(r.get('cipher_key'), str) else None
    if u == 'poly1305':
        from tlslite.utils.poly1305 import Poly1305
        v, code = runf(lambda: bytes(Poly1305(bytearray(K)).create_tag(bytearray(H(r['msg'])))))
        want = ref.poly1305(K, H(r['msg'])) if len(K) == 32 else None
    elif u == 'chacha':
        from tlslite.utils.chacha import ChaCha
        v, code = runf(lambda: bytes(ChaCha(bytearray(K), bytearray(H(r['nonce'])), r['counter']).encrypt(bytearray(H(r['pt'])))))
        want = ref.chacha20_encrypt(K, r['counter'], H(r['nonce']), H(r['pt']))
    elif u == 'chachapoly':
        from tlslite.utils.chacha20_poly1305 import CHACHA20_POLY1305
        obj = CHACHA20_POLY1305(bytearray(K), 'python')
        if 'c' in r:
            v, code = runf(lambda: obj.open(bytearray(H(r['nonce'])), bytearray(H(r['c'])), bytearray(H(r['aad']))))
            want = ref.aead_chacha_open(K, H(r['nonce']), H(r['c']), H(r['aad']))
            v = None if v is None else bytes(v)
        else:
            v, code = runf(lambda: bytes(obj.seal(bytearray(H(r['nonce'])), bytearray(H(r['pt'])), bytearray(H(r['aad'])))))
            want = ref.aead_chacha_seal(K, H(r['nonce']), H(r['pt']), H(r['aad']))
    elif u == 'hkdf_expand':
        from tlslite.utils import cryptomath
        v, code = runf(lambda: bytes(cryptomath.HKDF_expand(bytearray(H(r['prk'])), bytearray(H(r['info'])), r['L'], r['alg'])))
        want = ref.hkdf_expand(H(r['prk']), H(r['info']), r['L'], r['alg'])
    elif u == 'hkdf_expand_label':
        from tlslite.utils import cryptomath
        v, code = runf(lambda: bytes(cryptomath.HKDF_expand_label(bytearray(H(r['secret'])), bytearray(H(r['label'])),
                                                                  bytearray(H(r['context'])), r['L'], r['alg'])))
        want = ref.hkdf_expand_label(H(r['secret']), H(r['label']), H(r['context']), r['L'], r['alg'])
    elif u in ('p_hash', 'PRF', 'PRF_1_2', 'PRF_1_2_SHA384', 'PRF_SSL'):
        from tlslite import mathtls
        sec, seed, n = H(r['secret']), H(r['seed']), r['n']
        if u == 'p_hash':
            v, code = runf(lambda: bytes(mathtls.P_hash(r['alg'], bytearray(sec), bytearray(seed), n)))
            want = ref.p_hash(r['alg'], sec, seed, n)
        elif u == 'PRF_SSL':
            v, code = runf(lambda: bytes(mathtls.PRF_SSL(bytearray(sec), bytearray(seed), n)))
            want = ref.prf_ssl3(sec, seed, n)
        else:
            lab = H(r['label'])
            v, code = runf(lambda: bytes(getattr(mathtls, u)(bytearray(sec), bytearray(lab), bytearray(seed), n)))
            want = ref.prf_tls10(sec, lab, seed, n) if u == 'PRF' else ref.prf_tls12('sha256' if u == 'PRF_1_2' else 'sha384', sec, lab, seed, n)
    elif u == 'ctr':
        from tlslite.utils import python_aes
        obj = python_aes.new(bytearray(K), 6, bytearray(H(r['iv'])))
        m, off = H(r['msg']), r.get('split', 0)
        v = bytes(obj.encrypt(bytearray(m[:off]))) + bytes(obj.encrypt(bytearray(m[off:])))
        code = 0
        want = ref.ossl_ctr(K, H(r['iv']) + bytes(16 - len(H(r['iv']))), m) if m else b''
    elif u == 'rc4':
        from tlslite.utils import python_rc4
        obj = python_rc4.new(bytearray(K))
        m, (o1, o2) = H(r['msg']), r['splits']
        v = b''.join(bytes(obj.encrypt(bytearray(x))) for x in (m[:o1], m[o1:o2], m[o2:]))
        code = 0
        want = ref.rc4_crypt(ref.rc4_init(K), m)
    elif u == 'cbc':
        from tlslite.utils import python_aes
        obj = python_aes.new(bytearray(K), 2, bytearray(H(r['iv'])))
        m, (a, b) = H(r['msg']), r['splits']
        v = b''.join(bytes(obj.encrypt(bytearray(x))) for x in (m[:16 * a], m[16 * a:16 * b], m[16 * b:]))
        code = 0
        want = ref.ossl_cbc('aes-%d-cbc' % (len(K) * 8), K, H(r['iv']), m) if m else b''
    elif u in ('ctr-multi', 'rc4-multi', 'cbc-multi'):
        from tlslite.utils import python_aes, python_rc4, python_tripledes
        m = H(r['msg'])
        if u == 'ctr-multi':
            obj = python_aes.new(bytearray(K), 6, bytearray(H(r['iv'])))
            want = ref.ossl_ctr(K, H(r['iv']) + bytes(16 - len(H(r['iv']))), m) if m else b''
        elif u == 'rc4-multi':
            obj = python_rc4.new(bytearray(K))
            want = ref.rc4_crypt(ref.rc4_init(K), m)
        else:
            obj = python_aes.new(bytearray(K), 2, bytearray(H(r['iv']))) if r['cipher'].startswith('aes') else python_tripledes.new(bytearray(K), bytearray(H(r['iv'])))
            want = ref.ossl_cbc(r['cipher'], K, H(r['iv']), m) if m else b''
        v, code = runf(lambda: b''.join(bytes(obj.encrypt(bytearray(x))) for x in split_by(m, r['chunks'])))
    elif u == 'aead-seq':
        from tlslite.utils import python_aesgcm, python_aesccm
        from tlslite.utils.chacha20_poly1305 import CHACHA20_POLY1305
        a = r['aead']
        obj = (CHACHA20_POLY1305(bytearray(K), 'python') if a == 'chachapoly' else python_aesgcm.new(bytearray(K)) if a == 'gcm' else
               python_aesccm.new(bytearray(K), 16 if a == 'ccm' else 8))
        ecb = lambda b: ref.aes_ecb(K, b)      # noqa: E731
        v, want, code = [], [], 0
        for rec in r['records']:
            n_, p_, a_ = H(rec['nonce']), H(rec['pt']), H(rec['aad'])
            w = (ref.aead_chacha_seal(K, n_, p_, a_) if a == 'chachapoly' else ref.gcm_seal(ecb, n_, p_, a_) if a == 'gcm' else
                 ref.ccm_seal(ecb, 16 if a == 'ccm' else 8, n_, p_, a_))
            s_, c_ = runf(lambda: bytes(obj.seal(bytearray(n_), bytearray(p_), bytearray(a_))))
            o_, c2_ = runf(lambda: obj.open(bytearray(n_), bytearray(w), bytearray(a_)))
            v.append((hexs(s_), None if o_ is None else bytes(o_).hex()))
            want.append((w.hex(), p_.hex()))
        print('impl:', v, '\nspec:', want)
        return 0 if v == want else 1
    elif u == 'live-exporter':
        import c09_live
        hits = []

        class _S(object):
            pass
        st = _S()
        st.ctx = ctx
        st.bad = lambda key, what, rep: hits.append(key)
        c09_live.run_live(st, True)
        print('live stage re-run; failing keys now:', sorted(set(hits)))
        return 1 if r.get('key') in hits else 0
    elif u in ('gcm', 'ccm', 'ccm8') and not r.get('toy') and 'impl' in r and 'spec' in r and 'c2' not in r and not str(r.get('aad', '')).startswith('len='):
        from tlslite.utils import python_aesgcm, python_aesccm
        obj = python_aesgcm.new(bytearray(K)) if u == 'gcm' else python_aesccm.new(bytearray(K), 16 if u == 'ccm' else 8)
        v, code = runf(lambda: bytes(obj.seal(bytearray(H(r['nonce'])), bytearray(H(r['pt'])), bytearray(H(r['aad'])))))
        ecb = lambda b: ref.aes_ecb(K, b)      # noqa: E731
        want = ref.gcm_seal(ecb, H(r['nonce']), H(r['pt']), H(r['aad'])) if u == 'gcm' else \
            ref.ccm_seal(ecb, 16 if u == 'ccm' else 8, H(r['nonce']), H(r['pt']), H(r['aad']))
    else:
        print('this replay file names a proof obligation / correspondence that no longer checks, or a unit without a one-call '
              're-run; see "what" and re-run ./check C09')
        return 1
    print('impl:', hexs(v), 'code', code)
    print('spec:', hexs(want))
    return 0 if v == want else 1
