"""C07: tlslite-ng interoperates with an independent TLS implementation (OpenSSL 3 via stdlib ssl).

Level: translation_validation.  The Coq part (Spec/C07_NegotiateRFC.v, Props/C07.v) states what two
conforming endpoints must negotiate and proves `fails <-> nothing common`, `choice in both`, and that
the C03 model of tlslite-ng only produces spec-permitted results.  Interoperability itself is
established per explored configuration: the same configuration is run tlslite-client x OpenSSL-server
and OpenSSL-client x tlslite-server in process, and the observations are compared with the spec's
prediction evaluated by vm_compute."""
import json
import os
import subprocess
import sys
import time
from multiprocessing import Pool

import vlib
import c03_util as U
import c07_ossl as O

sys.path.insert(0, os.path.join(vlib.ROOT, 'translator'))
import units  # noqa: E402

LEVEL = 'translation_validation'
META = {
    'text': 'Three-way correspondence per configuration: tlslite-ng client x OpenSSL 3.0 server and OpenSSL client x tlslite-ng '
            'server (in-process, ssl.MemoryBIO over the scripted in-memory socket), compared with the Coq RFC negotiation spec '
            '(vm_compute): completes?, version, suite (server preference), ALPN, resumption, client authentication, application '
            'data intact both ways at 0/1/2^14/2^14+1/50000 bytes. Coq theorems: spec fails iff nothing usable is common; spec '
            'choice lies in both configurations; the C03 model of tlslite-ng refines the spec (partial: membership, not order).',
    'note': 'Interoperability is established only for the explored configurations. Not covered (reported, never failures): '
            'SSLv3, RC4, NULL, draft ChaCha20, SRP and anonymous suites, whatever this OpenSSL build cannot construct; signature '
            'scheme and group *choice* cannot be steered through Python\'s ssl API beyond one curve, so only membership is compared.',
    'technique': 'translation validation against OpenSSL (in-process) + Coq RFC spec evaluated by vm_compute',
}
IMPORTS = ['Spec.C07_NegotiateRFC']
KEY_MINV = {'rsapss': 3, 'ed25519': 3, 'ed448': 3}


def suite_cfg(base, suite, v):
    kx, cn, mac = U.suite_meaning(suite)
    cfg = dict(base, tl_cipherNames=[cn], tl_macNames=[mac] if v >= 3 or mac in ('sha', 'md5') else [mac],
               tl_min=v, tl_max=v, ossl_min=v, ossl_max=v, suite=suite)
    if kx is not None:
        cfg['tl_keyExchangeNames'] = [kx]
        cfg['ossl_ciphers'] = O.ossl_suites()[suite] + ':@SECLEVEL=0'
    return cfg


def gen_configs(ctx, quick):
    from tlslite.constants import CipherSuite
    rng = ctx.rng
    t = U.tables()
    base = dict(tl_min=1, tl_max=4, ossl_min=1, ossl_max=4, server_key='rsa')
    cfgs, not_covered = [], []
    omap = O.ossl_suites()
    negotiable = [s for b in t['client_order']['cert'] for s in t['lists'][b] if s in CipherSuite.ietfNames]
    for b in ('srpAllSuites', 'anonSuites', 'ecdhAnonSuites'):
        negotiable += [s for s in t['lists'][b] if s in CipherSuite.ietfNames]
    singles = []
    for s in sorted(set(negotiable)):
        kx, cn, mac = U.suite_meaning(s)
        if kx in ('srp_sha', 'srp_sha_rsa', 'dh_anon', 'ecdh_anon'):
            not_covered.append('suite %#06x %s: SRP/anonymous key exchange is not reachable through Python\'s ssl' % (s, CipherSuite.ietfNames[s]))
            continue
        if s not in omap:
            not_covered.append('suite %#06x %s: not built by this OpenSSL' % (s, CipherSuite.ietfNames[s]))
            continue
        auth = O.auth_class(kx)
        keys = {'rsa': ['rsa'], 'ecdsa': ['ecdsa', 'ed25519'], 'dsa': ['dsa'], None: ['rsa', 'ecdsa']}[auth]
        vs = [4] if kx is None else ([3] if mac in ('sha256', 'sha384', 'aead') else [1, 2, 3])
        for v in vs:
            for key in keys:
                if v < KEY_MINV.get(key, 0):
                    continue
                singles.append(suite_cfg(dict(base, server_key=key), s, v))
    if quick:
        rng.shuffle(singles)
        singles = singles[:20]
    for c in singles:
        for role in ('tl_client', 'tl_server'):
            cfgs.append(dict(c, role=role))
    # version windows x key types
    extra = []
    for key in ('rsa', 'ecdsa', 'ecdsa384', 'ecdsa521', 'ed25519', 'ed448', 'rsapss', 'dsa'):
        for (a, b, c2, d) in ([(1, 4, 1, 4), (1, 3, 1, 4), (1, 4, 1, 2), (3, 4, 1, 2), (1, 1, 2, 4)] if not quick
                              else [(1, 4, 1, 4), (1, 3, 1, 4), (rng.choice([1, 2]), 4, 1, 2)]):
            extra.append(dict(base, server_key=key, tl_min=a, tl_max=b, ossl_min=c2, ossl_max=d))
    # version WINDOWS that differ between the two sides x key-exchange family, so that the negotiated
    # version lies below one side's maximum (the normal interop case): tlslite [1.0..1.2] / [1.0..1.3] x
    # OpenSSL pinned to each single version and each sub-range
    fams = [('rsa', 'rsa', 'kRSA:!PSK:!SRP'), ('dhe_rsa', 'rsa', 'kDHE+aRSA'), ('ecdhe_rsa', 'rsa', 'kECDHE+aRSA'),
            ('ecdhe_ecdsa', 'ecdsa', 'kECDHE+aECDSA'), ('dhe_dsa', 'dsa', 'kDHE+aDSS'), (None, 'rsa', None)]
    owins = [(1, 1), (2, 2), (3, 3), (4, 4), (1, 2), (2, 3), (1, 3), (2, 4), (3, 4)]
    windows = []
    for tmax in (3, 4):
        for (olo, ohi) in owins:
            for kx, key, ostr in fams:
                c = dict(base, server_key=key, tl_min=1, tl_max=tmax, ossl_min=olo, ossl_max=ohi)
                if kx is not None:
                    c['tl_keyExchangeNames'] = [kx]
                    c['ossl_ciphers'] = ostr + ':@SECLEVEL=0'
                    c['family'] = kx
                windows.append(c)
    if quick:
        must = [c for c in windows if c.get('family') == 'rsa']          # RSA key transport: every window
        rest = [c for c in windows if c.get('family') != 'rsa']
        rng.shuffle(rest)
        windows = must + rest[:30]
    extra += windows
    # client authentication with EVERY key type of /repo/tests, per version, in both role assignments
    # (usable: RSA and ECDSA everywhere, EdDSA and rsa-pss from TLS 1.2 on, DSA up to TLS 1.2)
    ckeys = [('client-rsa', 1, 4), ('rsa', 1, 4), ('client-ecdsa', 1, 4), ('ecdsa384', 1, 4), ('ecdsa521', 1, 4),
             ('client-ed25519', 3, 4), ('ed448', 3, 4), ('rsapss', 3, 4), ('client-dsa', 1, 3)]
    cauth = []
    for ck, lo, hi in ckeys:
        for v in (1, 2, 3, 4):
            if lo <= v <= hi:
                cauth.append(dict(base, server_key='ecdsa' if ck.startswith('client-rsa') or ck == 'rsa' else 'rsa',
                                  tl_min=1, tl_max=v, ossl_min=1, ossl_max=4, client_auth=True, client_key=ck,
                                  payloads=[0, 1, 3000]))
    extra += cauth
    # DHE over a group whose prime has ODD byte length (129 bytes): odd-length premaster secret for the
    # TLS 1.0/1.1 PRF split; several runs each, the secrets differ
    # ... and over a group whose prime is 2**1024 + 0x283 (top byte 0x01): the shared secret Z practically always
    # has a leading zero byte, which RFC 5246 8.1.2 strips before the PRF (canonicalisation boundary, forced)
    for v in (1, 2, 3):
        for fam, key, ostr in (('dhe_rsa', 'rsa', 'kDHE+aRSA'), ('dhe_dsa', 'dsa', 'kDHE+aDSS')):
          for dhk, reps in (('odd1032', 2 if quick else 6), ('lz1025', 1 if quick else 4)):
            for rep_ in range(reps):
                extra.append(dict(base, server_key=key, tl_min=v, tl_max=v, ossl_min=v, ossl_max=v, dh=dhk,
                                  tl_keyExchangeNames=[fam], ossl_ciphers=ostr + ':@SECLEVEL=0', family=fam, rep=rep_,
                                  payloads=[0, 1, 3000]))
    # groups
    for g, on in (('secp256r1', 'prime256v1'), ('secp384r1', 'secp384r1'), ('secp521r1', 'secp521r1'), ('x25519', 'X25519'), ('x448', 'X448')):
        for mx in (4, 3):
            extra.append(dict(base, tl_max=mx, tl_eccCurves=[g], tl_keyShares=[g] if mx == 4 else [], ossl_curve=on))
    extra.append(dict(base, tl_eccCurves=['secp256r1'], tl_keyShares=['secp256r1'], ossl_curve='secp384r1'))
    extra.append(dict(base, tl_eccCurves=[], tl_keyShares=['ffdhe2048'], tl_dhGroups=['ffdhe2048']))
    extra.append(dict(base, tl_eccCurves=['x25519', 'secp384r1'], tl_keyShares=['x25519'], ossl_curve='secp384r1'))   # HRR
    # ALPN, client authentication, resumption
    for mx in (4, 3, 1):
        extra.append(dict(base, tl_max=mx, tl_alpn=['proto-1', 'proto-2'], ossl_alpn=['proto-2', 'proto-1']))
        extra.append(dict(base, tl_max=mx, tl_alpn=['proto-1'], ossl_alpn=['proto-2']))
        extra.append(dict(base, tl_max=mx, tl_alpn=['proto-3'], ossl_alpn=None))
        extra.append(dict(base, tl_max=mx, client_auth=True, client_key='client-ecdsa'))
        extra.append(dict(base, tl_max=mx, client_auth=True, client_key='client-rsa', server_key='ecdsa'))
        extra.append(dict(base, tl_max=mx, resume=True, tickets=True))
        extra.append(dict(base, tl_max=mx, resume=True, tickets=False, no_tickets=True))
        extra.append(dict(base, tl_max=mx, resume=3, tickets=True))                 # three resumptions in a row
    # TLS 1.3 post-handshake traffic: 0..3 rounds of post-handshake client authentication interleaved with data,
    # KeyUpdate from tlslite-ng
    for rounds in (0, 1, 2, 3):
        for key in ('rsa', 'ecdsa'):
            extra.append(dict(base, server_key=key, pha=rounds, keyupdate=True, client_key='client-ecdsa'))
    extra.append(dict(base, pha=2, keyupdate=False, client_key='client-ecdsa', tl_cipherNames=['chacha20-poly1305']))
    extra.append(dict(base, pha=3, keyupdate=True, client_key='client-ecdsa', resume=2, tickets=True))
    for c in extra:
        for role in ('tl_client', 'tl_server'):
            cfgs.append(dict(c, role=role))
    # TLS 1.3 resumption (ticket PSK) x HelloRetryRequest, in both roles: the client's key_share names a group the
    # server does not take, so the ClientHello carrying the PSK binders is sent twice.  tl_client: OpenSSL server
    # restricted to one group the tlslite-ng client offers without a key share (OpenSSL's HRR has no cookie);
    # tl_server: tlslite-ng server restricted to a group OpenSSL supports but sends no share for first.
    for g, on in (('secp384r1', 'secp384r1'), ('secp521r1', 'secp521r1'), ('x448', 'X448')):
        for key in (('rsa',) if quick else ('rsa', 'ecdsa')):
            cfgs.append(dict(base, server_key=key, role='tl_client', resume=2, tickets=True, hrr=g,
                             tl_eccCurves=['x25519', g], tl_keyShares=['x25519'], ossl_curve=on, payloads=[0, 1, 3000]))
            cfgs.append(dict(base, server_key=key, role='tl_server', resume=2, tickets=True, hrr=g,
                             tl_eccCurves=[g], tl_keyShares=[g], payloads=[0, 1, 3000]))
    import ssl as _ssl
    if not hasattr(_ssl.SSLContext, 'set_psk_server_callback'):
        not_covered.append('TLS 1.3 external PSK against OpenSSL: this CPython ssl module has no PSK callbacks; PSK binders are '
                           'exercised through ticket resumption, also after a HelloRetryRequest')
    not_covered.append('tl_server x resumption x HelloRetryRequest: on the resumed connection the OpenSSL client sends its key share '
                       'for the group of the session, so only the first connection of these histories has a HelloRetryRequest')
    for i, c in enumerate(cfgs):
        c['id'] = i
        c['seed'] = rng.randrange(1 << 30)
    return cfgs, not_covered


def work(cfg):
    try:
        t0 = time.time()
        obs = O.run_config(cfg)
        obs['wall'] = round(time.time() - t0, 2)
        lits = O.spec_lits(no_alpn_conflict(cfg))
        return {'cfg': cfg, 'obs': obs, 'lits': lits}
    except Exception:  # noqa
        import traceback
        return {'cfg': cfg, 'harness_error': traceback.format_exc()[-900:]}


def no_alpn_conflict(cfg):
    """RFC 7301 demands no_application_protocol when both sides list protocols and none is common;
    OpenSSL's default callback (and tlslite-ng in TLS 1.3) continue without ALPN instead.  The spec is
    evaluated without ALPN for such configurations and both behaviours are accepted (recorded)."""
    a, b = cfg.get('tl_alpn'), cfg.get('ossl_alpn')
    if a is not None and b is not None and not set(a) & set(b):
        c = dict(cfg)
        c['tl_alpn'] = c['ossl_alpn'] = None
        c['_alpn_disjoint'] = True
        return c
    return cfg


def alert_only_alpn(obs):
    return 'no application protocol' in json.dumps(obs).lower() or [120] == obs.get('tl_outcome', [None, None])[1:2]


def can_resume_chain(cfg, obs):
    return not (cfg['role'] == 'tl_server' and obs.get('tl_version') == 4 and not cfg.get('tickets'))


def usable_for_key(cfg, v, suite):
    return O.usable(v, suite, O.KEYS[cfg['server_key']][2]) and v >= KEY_MINV.get(cfg['server_key'], 0)


def run(ctx):
    quick = ctx.tier == 'quick'
    tie_broken = None
    for unit in ('C03Tables', 'C03Defaults'):
        ok, msg = units.generate(unit, vlib.COQ)
        if not ok:
            tie_broken = msg
    res = vlib.proof_stage(ctx, 'Props/C07.v', model_targets=['Spec/C07_NegotiateRFC.vo'])
    ctx.log('proof stage ok=%s failing=%s' % (res['ok'], res['failing']))
    # RFC 7919 parameters for the OpenSSL server's DHE suites
    os.makedirs('/tmp/verif-c07', exist_ok=True)
    dh = '/tmp/verif-c07/ffdhe2048.pem'
    if not os.path.exists(dh):
        subprocess.run(['openssl', 'genpkey', '-genparam', '-algorithm', 'DH', '-pkeyopt', 'group:ffdhe2048', '-out', dh],
                       check=False, stdout=subprocess.DEVNULL, stderr=subprocess.DEVNULL)
    cfgs, not_covered = gen_configs(ctx, quick)
    t0 = time.time()
    with Pool(vlib.NPROC) as pool:
        results = pool.map(work, cfgs, chunksize=1)
    ctx.log('%d configurations x OpenSSL in %.1fs' % (len(cfgs), time.time() - t0))
    found = False
    lits, rows = [], []
    disagreements = 0
    ncomplete = 0
    for r in results:
        cfg = r['cfg']
        if 'harness_error' in r:
            tie_broken = 'harness failed: ' + r['harness_error'][-300:]
            ctx.log(tie_broken)
            continue
        obs = r['obs']
        if 'not_covered' in obs:
            not_covered.append('config %s: %s' % (json.dumps({k: v for k, v in cfg.items() if k not in ('id', 'seed')}), obs['not_covered']))
            continue
        if 'CERTIFICATE_VERIFY_FAILED' in json.dumps(obs):
            not_covered.append('config %d (%s): OpenSSL rejects the repository\'s test client certificate (its own chain policy)' % (cfg['id'], cfg.get('client_key')))
            continue
        done = bool(obs['completed'])
        ncomplete += done
        key = (cfg['role'], done, obs.get('tl_version'), obs.get('tl_suite'), cfg['server_key'], bool(cfg.get('client_auth')),
               cfg.get('tl_alpn') is not None, cfg.get('ossl_alpn') is not None, bool(cfg.get('resume')), cfg.get('ossl_curve'))
        ctx.count('tlslite-vs-openssl', 1, [key], sample={'cfg': cfg, 'completed': done, 'version': obs.get('tl_version'),
                                                          'suite': obs.get('tl_suite')} if cfg['id'] % 17 == 0 else None)
        problems = []
        if done:
            omap = O.ossl_suites()
            if obs['tl_version'] != obs['ossl_version']:
                problems.append(('version-differs', 'tlslite %r OpenSSL %r' % (obs['tl_version'], obs['ossl_version'])))
            if omap.get(obs['tl_suite']) != obs['ossl_suite_name']:
                problems.append(('suite-differs', 'tlslite %#x OpenSSL %s' % (obs['tl_suite'], obs['ossl_suite_name'])))
            if obs['tl_alpn'] != obs['ossl_alpn']:
                problems.append(('alpn-differs', 'tlslite %r OpenSSL %r' % (obs['tl_alpn'], obs['ossl_alpn'])))
            for k, v in obs.items():
                if k.startswith('data_') and not k.startswith('data_err') and v is not True:
                    problems.append(('data:' + k.split('_', 2)[2], 'application data not intact: %s' % obs.get('data_err_' + k[5:])))
            if cfg.get('client_auth'):
                seen = obs['tl_client_chain'] if cfg['role'] == 'tl_server' else obs['ossl_peer_cert']
                if not seen:
                    problems.append(('client-auth', 'client certificate not received by the server'))
            can_resume = not (cfg['role'] == 'tl_server' and obs['tl_version'] == 4 and not cfg.get('tickets'))
            if cfg.get('resume') and not can_resume:
                ctx.count('resumption-not-offered', 1, [cfg['role']])   # TLS 1.3 server without ticket keys: no mechanism in common
            if cfg.get('resume') and can_resume:
                s2 = obs.get('second')
                if not s2 or not s2.get('completed'):
                    problems.append(('resume-failed', 'second connection did not complete: %r' % (s2,)))
                else:
                    if not s2['ossl_reused'] or (cfg['role'] == 'tl_client' and not s2['tl_resumed']):
                        problems.append(('not-resumed', 'second connection was a full handshake: %r' % {k: s2[k] for k in ('tl_resumed', 'ossl_reused')}))
                    for k, v in s2.items():
                        if k.startswith('data_') and not k.startswith('data_err') and v is not True:
                            problems.append(('data-resumed', 'application data not intact after resumption'))
            for rr in obs.get('pha_rounds', []):
                if not rr.get('data_ok') or not rr.get('cert_seen') or rr.get('request'):
                    problems.append(('pha-failed:round%d' % rr['round'],
                                     'post-handshake client authentication round %d of %d failed: %r' % (rr['round'], cfg.get('pha'), rr)))
            if cfg.get('pha') and len(obs.get('pha_rounds', [])) < cfg['pha'] and obs['tl_version'] == 4 and \
                    all(rr.get('data_ok') for rr in obs.get('pha_rounds', [])):
                problems.append(('pha-missing', 'only %d of %d post-handshake authentication rounds ran' % (len(obs.get('pha_rounds', [])), cfg['pha'])))
            if obs.get('keyupdate') is not None and not obs['keyupdate']['ok']:
                problems.append(('keyupdate-failed', 'data after a KeyUpdate sent by tlslite-ng failed: %r' % (obs['keyupdate'],)))
            for idx, o3 in enumerate(obs.get('resumed_chain', [])[1:], 2):
                if can_resume_chain(cfg, obs) and (not o3.get('completed') or not o3.get('ossl_reused')):
                    problems.append(('resume-failed:nr%d' % idx, 'resumption number %d in a row failed: %r' % (
                        idx, {k: o3.get(k) for k in ('tl_outcome', 'ossl_outcome', 'tl_resumed', 'ossl_reused')})))
                for k, v in o3.items():
                    if k.startswith('data_') and not k.startswith('data_err') and v is not True:
                        problems.append(('data-resumed:nr%d' % idx, 'application data not intact after resumption number %d' % idx))
            if cfg.get('suite') is not None and obs['tl_suite'] != cfg['suite']:
                problems.append(('wrong-suite', 'asked for %#x got %#x' % (cfg['suite'], obs['tl_suite'])))
        for k, what in problems:
            tag = 'null-cipher' if 'null' in (cfg.get('tl_cipherNames') or []) else 'v%s' % obs.get('tl_version')
            if cfg.get('hrr'):
                tag += ':hrr'
            if ctx.violation('%s:%s:%s' % (k, cfg['role'], tag), what,
                             {'cfg': cfg, 'observed': obs, 'how': './check C07 --replay <this file>'}):
                found = True
        env, ccf, scf = r['lits']
        strict = True
        alpn = obs.get('tl_alpn')
        alpn_id = None if not alpn else int(alpn.split('-')[1])
        disjoint = no_alpn_conflict(cfg).get('_alpn_disjoint')
        if disjoint and not done and alert_only_alpn(obs):
            ctx.count('alpn-disjoint-aborted', 1, [cfg['role']])
            continue                                    # RFC 7301 behaviour: accepted, nothing further to compare
        lits.append('(%s, %s, %s, (%s, %d, %d, %s, %s))' % (
            env, ccf, scf, vlib.boollit(done), obs.get('tl_version') or 0, obs.get('tl_suite') or 0,
            vlib.optlit(alpn_id, vlib.zlit), vlib.boollit(strict)))
        rows.append(r)
    # ---- key derivation functions on the interoperability path against OpenSSL's own (`openssl kdf`):
    # TLS 1.0 PRF (MD5+SHA-1), TLS 1.2 PRFs, HKDF-Extract / -Expand / Expand-Label, secret lengths of both parities
    kcases = O.kdf_cases(ctx.rng, quick)
    with Pool(vlib.NPROC) as pool:
        kres = pool.map(O.kdf_case, kcases, chunksize=8)
    kbad = {}
    for r in kres:
        c = r['case']
        slen = len(c['secret']) // 2
        if 'not_covered' in r:
            not_covered.append('kdf %s: openssl kdf refused: %s' % (c['fn'], r['not_covered'][:80]))
            continue
        ctx.count('kdf-vs-openssl', 1, [(c['fn'], slen % 2, min(slen, 64), c['n'] > 48)])
        if r.get('error') or not r.get('equal'):
            key = 'kdf-differs:%s:secret-%s' % (c['fn'], 'odd' if slen % 2 else 'even')
            kbad[key] = kbad.get(key, 0) + 1
            if kbad[key] == 1 and ctx.violation(key, '%s(secret of %d bytes, %d bytes out) differs from OpenSSL: tlslite %s... OpenSSL %s... %s'
                                                % (c['fn'], slen, c['n'], r.get('mine'), r.get('ref'), r.get('error', '')),
                                                {'kdf_case': c, 'result': {k: v for k, v in r.items() if k != 'case'},
                                                 'how': 'PYTHONPATH=/repo:/verif/harness python -c "import c07_ossl; print(c07_ossl.kdf_case(<kdf_case>))"'}):
                found = True
    ctx.cov['kdf_points'] = len(kcases)
    ctx.log('kdf functions vs openssl kdf: %d points, %d differ' % (len(kcases), sum(kbad.values())))
    ctx.cov['programs'] = len(rows)
    ctx.cov['completed'] = ncomplete
    ctx.cov['not_covered'] = sorted(set(not_covered))[:80]
    ctx.log('%d configurations compared, %d completed, %d not covered' % (len(rows), ncomplete, len(set(not_covered))))
    if res['model_ok'] and tie_broken is None:
        bad, errs = vlib.coq_bad_indices('C07', IMPORTS, 'CaseT', 'chk_spec', lits,
                                         shard=max(4, (len(lits) + 15) // 16), preamble=O.PREAMBLE)
        ctx.count('spec-vs-observed(vm_compute)', len(lits), [('agree', len(lits) - len(bad))])
        for e in errs:
            tie_broken = 'spec evaluation failed: ' + e[-300:]
        disagreements = len(bad)
        seen_spec = {}
        for i in bad:
            r = rows[i]
            cfg, obs = r['cfg'], r['obs']
            found = True
            what = ('spec says the configurations %s but tlslite-ng x OpenSSL %s (%s / %s)' % (
                'share usable parameters' if not obs['completed'] else 'predict another result',
                'failed' if not obs['completed'] else 'completed with version %s suite %#x ALPN %r' % (
                    obs.get('tl_version'), obs.get('tl_suite') or 0, obs.get('tl_alpn')),
                obs.get('tl_outcome'), obs.get('ossl_outcome')))
            vkey = 'spec-disagrees:%s:%s:%s' % (cfg['role'], cfg['server_key'], 'failed' if not obs['completed'] else 'choice')
            if cfg.get('client_auth'):
                vkey += ':client-auth-%s:tls%d' % (cfg['client_key'], min(cfg['tl_max'], cfg['ossl_max']))
            if cfg.get('dh'):
                vkey += ':dh-%s:tls%d' % (cfg['dh'], min(cfg['tl_max'], cfg['ossl_max']))
            seen_spec[vkey] = seen_spec.get(vkey, 0) + 1
            if seen_spec[vkey] > 1:
                continue                              # one replay file per failure class; the count goes to the evidence
            ctx.violation(vkey, what, {'cfg': cfg, 'observed': obs, 'how': './check C07 --replay <this file>'})
    elif not res['model_ok']:
        tie_broken = tie_broken or 'spec does not compile: %s' % res['failing']
    ctx.cov['disagreements_checked'] = len(lits)
    ctx.cov['disagreements'] = disagreements
    ctx.cov['spec_disagreements_by_key'] = locals().get('seen_spec', {})
    ctx.cov['rule'] = ('programs = configurations (role x version windows x server key type x single suite x curve x ALPN x '
                       'client auth x resumption); each runs a full handshake against OpenSSL plus 5 payload sizes per direction; '
                       'distinct = (role, completed, version, suite, key, client-auth, ALPN sides, resumption, curve)')
    ctx.cov['trusted_base'] = ['Coq kernel + vm_compute (spec evaluation)', 'OpenSSL %s via CPython ssl' % __import__('ssl').OPENSSL_VERSION,
                               'harness/c07_ossl.py pump and the usable/needs_group tables derived from IETF suite names',
                               'Spec/C07_NegotiateRFC.v as the reading of RFC 5246/8446/7301']
    ctx.assumptions += ['OpenSSL server preference enabled (OP_CIPHER_SERVER_PREFERENCE); OpenSSL default group list when no curve is set',
                        'disjoint ALPN lists: both "abort with no_application_protocol" and "continue without ALPN" are accepted']
    if tie_broken and not found:
        ctx.violation('tie-broken', tie_broken, {'detail': tie_broken}, found_input=False)
        found = True
    vlib.broken_proof_verdict(ctx, res, found)


def replay(ctx, path):
    with open(path) as f:
        r = json.load(f)
    obs = O.run_config(r['cfg'])
    print(json.dumps(obs, indent=1)[:3000])
    return 0 if obs.get('completed') else 1
