"""C06: handshake messages are accepted only in the order the protocol allows; after
completion renegotiation attempts are refused and never start a second handshake.

Ties: (T) translator/units_gates.py regenerates coq/Gen/C06_Gates.v (every _getMsg call site)
      and Props/C06.v proves extracted_gates = modelled_gates;
      (H) deviation traces played by a wrapped PEER endpoint against the live endpoint under
      test (harness/c06_live.py); the outcome is compared with the Coq automaton's prediction
      (vm_compute), the Coq grammar with an independent Python grammar, and the property is
      checked directly on the implementation (oracle independent of Coq and of tlslite)."""
import json
import multiprocessing
import os
import re
import sys
import time

import vlib

sys.path.insert(0, os.path.join(vlib.ROOT, 'translator'))

LEVEL = 'proof'
META = {
    'text': 'Coq theorems (Props/C06.v) about a finite automaton of the receive side of every handshake flow '
            '(role x SSLv3-TLS1.2/TLS1.3 x key exchange x client-auth/tickets/NPN/HRR/resumption/PSK) built on the '
            '_getMsg call-site table that is regenerated from /repo on every run (gates_as_modelled): language inclusion '
            'of the accepted traces in an RFC grammar for ALL traces (verified product-automaton check), '
            'CCS/Finished ordering, no application data before Finished, renegotiation refusal, TLS 1.3 interleaving ban. '
            'The full inclusion statement is refuted by six deviation classes found by the check (witness traces proved '
            'in Coq and replayed live); the inclusion is proved for all traces avoiding those edges.',
    'note': 'Trusted: Coq kernel + vm_compute; translator/units_gates.py (ast walk, constants by import); the hand '
            'model of the coroutine structure (tied by live correspondence on 1-2 deviation traces only); '
            'Spec/C06_HsGrammar.v as the reading of RFC 5246/5077/5054/4492/6520/8446; message contents and '
            'cryptographic checks are outside this property (a consistently deviating peer is assumed able to '
            'produce valid Finished/CertificateVerify values). SSLv2 ClientHello, heartbeat and post-handshake '
            'authentication are modelled but not exercised live.',
    'technique': 'Rocq/Coq proof (reflection on a finite product automaton with proved soundness) over a '
                 'translator-extracted gate table + live deviation-trace correspondence',
}

KX_COQ = {'rsa': 'KRsa', 'dhe': 'KDhe', 'ecdhe': 'KEcdhe', 'srp': 'KSrp', 'srpcert': 'KSrpCert',
          'anon': 'KAnon', 'anonec': 'KAnon', 'cert13': 'KCert13', 'psk13': 'KPsk13'}


def b(x):
    return 'true' if x else 'false'


def cfg_lit(fl):
    k = KX_COQ[fl['kx']]
    if fl['ver'] == 'tls13':
        if fl['eut'] == 'client':
            return '(cl13 %s true false)' % k
        return '(%s %s %s %s false)' % ('sv13e' if fl.get('early') else 'sv13', k, b(fl.get('reqcert')), b(fl.get('hrr')))
    if fl['eut'] == 'client':
        if fl.get('resume'):
            k = 'KRsa'
        return '(cl12 %s %s %s false)' % (k, b(fl.get('ticket')), b(fl.get('resume')))
    rq = bool(fl.get('reqcert')) and fl['kx'] in ('rsa', 'dhe', 'ecdhe')
    if fl.get('resume'):
        return '(sv12 KRsa false false false true false)'
    return '(sv12 %s %s %s %s false false)' % (k, b(fl['ver'] == 'ssl3' and rq), b(rq), b(fl.get('npn')))


def sym_lit(s):
    ep = 'E%d' % min(s[0], 2)
    k = s[1]
    if k in ('PH', 'PBufH'):
        return '(%s, %s %s %s)' % (ep, k, s[2], b(s[3]))
    if k in ('PFrag', 'PBufFrag', 'PHb'):
        return '(%s, %s)' % (ep, k)
    if k == 'PCcs':
        return '(%s, PCcs %s)' % (ep, b(s[2]))
    if k == 'PAlert':
        return '(%s, PAlert %s)' % (ep, s[2])
    if k == 'PApp':
        return '(%s, PApp %s)' % (ep, b(s[2]))
    raise ValueError(s)


# ------------------------------------------------------------------------------------------
# the property's own oracle: the grammar of permitted receive sequences, written directly
# from the RFCs as Python regular expressions over a token string (independent of Coq and of
# tlslite-ng)
def tok(s):
    ep, k = min(s[0], 2), s[1]
    if k in ('PH', 'PBufH'):
        return '%d%s%s;' % (ep, s[2], 'a' if s[3] else 'u')
    if k in ('PFrag', 'PBufFrag'):
        return '%dFRAG;' % ep
    if k == 'PCcs':
        return '%d%s;' % (ep, 'CCS' if s[2] else 'CCSBAD')
    if k == 'PAlert':
        return '%dALERT%s;' % (ep, s[2])
    if k == 'PApp':
        if len(s) > 3 and s[3] == 'undec':
            return 'UNDEC;'
        return '%d%s;' % (ep, 'APPEMPTY' if s[2] else 'APP')
    return '%dHB;' % ep


def py_grammar(fl):
    v13 = fl['ver'] == 'tls13'
    kx = fl['kx']

    def m(e, t, must=False, first=False):
        al = 'a' if must else '[au]'
        if v13:
            ign = '(?:0CCS;)*'
            return '%s(?:%dFRAG;)*%d%s%s;' % (ign, e, e, t, al)
        return '(?:%dFRAG;)*%d%s%s;' % (e, e, t, al)

    def opt(x):
        return '(?:%s)?' % x

    def alt(*xs):
        return '(?:%s)' % '|'.join(xs)
    has_cert = kx in ('rsa', 'dhe', 'ecdhe', 'srpcert')
    has_ske = kx != 'rsa'
    creq_ok = kx in ('rsa', 'dhe', 'ecdhe')
    if not v13:
        if fl['eut'] == 'client':
            if fl.get('resume'):
                g = m(0, 'SH') + (m(0, 'NST') if fl.get('ticket') else '') + '0CCS;' + m(1, 'Fin')
            else:
                g = (m(0, 'SH') + (m(0, 'CertN') if has_cert else '') + (m(0, 'SKE') if has_ske else '') +
                     (opt(m(0, 'CR')) if creq_ok else '') + m(0, 'SHD') +
                     (m(0, 'NST') if fl.get('ticket') else '') + '0CCS;' + m(1, 'Fin'))
        else:
            if fl.get('resume'):
                g = m(0, 'CH') + '0CCS;' + m(1, 'Fin')
            else:
                auth = bool(fl.get('reqcert')) and creq_ok
                if auth:
                    alts = [m(0, 'CertN') + m(0, 'CKE') + m(0, 'CV'), m(0, 'CertE') + m(0, 'CKE')]
                    if fl['ver'] == 'ssl3':
                        alts.append('0ALERTAWarnNoCert;' + m(0, 'CKE'))
                    mid = alt(*alts)
                else:
                    mid = m(0, 'CKE')
                g = m(0, 'CH') + mid + '0CCS;' + (m(1, 'NPN') if fl.get('npn') else '') + m(1, 'Fin')
    else:
        psk = kx == 'psk13'
        if fl['eut'] == 'client':
            cert = alt(m(1, 'CertN'), m(1, 'CCert'))
            g = (opt(m(0, 'HRR')) + m(0, 'SH', True) + m(1, 'EE') +
                 ('' if psk else opt(m(1, 'CR')) + cert + m(1, 'CV')) + m(1, 'Fin', True))
        else:
            # RFC 8446 4.2.10: undecryptable records are skipped only between the first ClientHello
            # and the second one (HRR) / the first record that opens (no HRR)
            win = '(?:0CCS;|UNDEC;)*' if fl.get('early') else ''
            # without read keys every application_data record looks like early data
            win0 = '(?:0CCS;|UNDEC;|0APP;|0APPEMPTY;)*' if fl.get('early') else ''
            first = (m(0, 'CH') + win0 + m(0, 'CH', True)) if fl.get('hrr') else (m(0, 'CH', True) + win)
            mid = ''
            if fl.get('reqcert') and not psk:
                mid = alt(m(1, 'CertE'), alt(m(1, 'CertN'), m(1, 'CCert')) + m(1, 'CV'))
            g = first + mid + m(1, 'Fin', True)
    return re.compile('^' + g + '$')


def py_allowed(fl, trace):
    return py_grammar(fl).match(''.join(tok(s) for s in trace)) is not None


def py_devclass(fl, trace):
    """which known deviation (if any) an accepted-but-not-allowed trace exhibits; written from the
    description of the classes in design/C06.md, used only to key findings stably"""
    v13 = fl['ver'] == 'tls13'
    kinds = [(s[0], s[1], s[2] if len(s) > 2 else None, s[3] if len(s) > 3 else None) for s in trace]
    out = []
    pend = False
    seen_first = False
    for i, (ep, k, a, al) in enumerate(kinds):
        if not v13:
            if k in ('PH', 'PBufH') and a == 'NST' and (fl['eut'] == 'server' or not fl.get('ticket')):
                out.append('nst-unannounced:%s' % fl['eut'])
            if k == 'PCcs' and a and pend:
                out.append('span-ccs12:%s' % fl['eut'])
        else:
            if k == 'PCcs' and a and ep != 0:
                out.append('ccs-protected13:%s' % fl['eut'])
            elif k == 'PCcs' and a and pend and seen_first:
                out.append('ccs-interleaved13:%s' % fl['eut'])
            if k in ('PH', 'PBufH') and a == 'Fin' and al is False:
                out.append('unaligned-finished13:%s' % fl['eut'])
            if k in ('PH', 'PBufH') and al is False and not seen_first and \
                    ((fl['eut'] == 'client' and a == 'SH') or (fl['eut'] == 'server' and a == 'CH' and not fl.get('hrr'))):
                out.append('unaligned-first13:%s' % fl['eut'])
        if k == 'PAlert' and not (fl['ver'] == 'ssl3' and a == 'AWarnNoCert'):
            out.append('alert-in-place-of-message:%s' % fl['eut'])
        if k in ('PH', 'PBufH') and i > 0 and ((fl['eut'] == 'server' and a == 'CH' and not (v13 and fl.get('hrr'))) or
                                               (fl['eut'] == 'client' and a == 'HReq')):
            out.append('reneg-msg-skipped-in-handshake:%s' % fl['eut'])
        if k == 'PApp' and al == 'undec':
            out.append('undecryptable-record-skipped:%s' % fl['eut'])
        if not v13 and fl['eut'] == 'client' and k in ('PH', 'PBufH') and a == 'CR' and \
                fl['kx'] not in ('rsa', 'dhe', 'ecdhe'):
            out.append('certreq-in-%s:client' % fl['kx'])
        if k in ('PH', 'PBufH'):
            pend = not al
            if a in ('SH', 'HRR', 'CH'):
                seen_first = True
        elif k in ('PFrag', 'PBufFrag'):
            pend = True
    if not v13 and fl['eut'] == 'server' and fl.get('npn') and not fl.get('resume') and \
            not any(k in ('PH', 'PBufH') and a == 'NPN' for (_, k, a, _) in kinds):
        out.append('announced-npn-skipped:server')
    if not v13 and fl['eut'] == 'client' and fl.get('ticket') and \
            not any(k in ('PH', 'PBufH') and a == 'NST' for (_, k, a, _) in kinds):
        out.append('nst-skipped:client')
    return out


# ------------------------------------------------------------------------------------------
def flavours(tier):
    F = []
    for eut in ('client', 'server'):
        for ver in (('tls12', 'ssl3', 'tls10') if tier == 'quick' else ('ssl3', 'tls10', 'tls11', 'tls12')):
            kxs = ('rsa', 'dhe', 'ecdhe', 'srp', 'srpcert', 'anon', 'anonec')
            if tier == 'quick' and ver != 'tls12':
                kxs = ('rsa', 'ecdhe') if ver == 'ssl3' else ('dhe', 'srp')
            for kx in kxs:
                F.append(dict(eut=eut, ver=ver, kx=kx))
        F.append(dict(eut=eut, ver='tls12', kx='rsa', reqcert=True, clientcert=True))
        F.append(dict(eut=eut, ver='tls12', kx='ecdhe', reqcert=True, clientcert=False))
        F.append(dict(eut=eut, ver='ssl3', kx='rsa', reqcert=True, clientcert=False))
        F.append(dict(eut=eut, ver='tls10', kx='dhe', reqcert=True, clientcert=True))
        F.append(dict(eut=eut, ver='tls12', kx='ecdhe', ticket=True))
        F.append(dict(eut=eut, ver='tls12', kx='rsa', npn=True))
        F.append(dict(eut=eut, ver='tls12', kx='rsa', resume=True))
        # client auth requested, no client certificate, every version
        F.append(dict(eut=eut, ver='tls10', kx='rsa', reqcert=True, clientcert=False))
        F.append(dict(eut=eut, ver='tls11', kx='dhe', reqcert=True, clientcert=False))
        # boundary values of the options that decide which messages are mandatory
        F.append(dict(eut=eut, ver='tls12', kx='rsa', npn_c=['http/1.1'], npn_s=[]))
        F.append(dict(eut=eut, ver='tls10', kx='dhe', npn_c=['http/1.1'], npn_s=[]))
        F.append(dict(eut=eut, ver='tls12', kx='ecdhe', npn_c=None, npn_s=['x']))
        F.append(dict(eut=eut, ver='tls12', kx='rsa', npn_c=['http/1.1'], npn_s=None))
        F.append(dict(eut=eut, ver='tls12', kx='rsa', npn=True, alpn=True))
        F.append(dict(eut=eut, ver='tls12', kx='rsa', tk_keys=True, tk_count=0))
        F.append(dict(eut=eut, ver='tls12', kx='ecdhe', tk_keys=False, tk_count=1))
        F.append(dict(eut=eut, ver='tls12', kx='srp', reqcert=True, clientcert=False))
        F.append(dict(eut=eut, ver='tls12', kx='anon', reqcert=True, clientcert=False))
        F.append(dict(eut=eut, ver='tls13', kx='cert13'))
        F.append(dict(eut=eut, ver='tls13', kx='cert13', hrr=True))
        F.append(dict(eut=eut, ver='tls13', kx='cert13', reqcert=True, clientcert=True))
        F.append(dict(eut=eut, ver='tls13', kx='cert13', reqcert=True, clientcert=False))
        F.append(dict(eut=eut, ver='tls13', kx='psk13'))
        if eut == 'server':
            F.append(dict(eut=eut, ver='tls13', kx='psk13', hrr=True, early=True))
            F.append(dict(eut=eut, ver='tls13', kx='psk13', early=True))
            F.append(dict(eut=eut, ver='tls13', kx='psk13', hrr=True))
        if tier != 'quick':
            F.append(dict(eut=eut, ver='tls13', kx='cert13', reqcert=True, clientcert=True, compress=True))
            F.append(dict(eut=eut, ver='tls11', kx='ecdhe', reqcert=True, clientcert=True, npn=True))
            F.append(dict(eut=eut, ver='tls13', kx='cert13', reqcert=True, clientcert=True, hrr=True))
    return F


INS_CLIENT = ['HReq', 'SHD', 'Fin', 'CCS', 'NST', 'KU', 'App', 'AppEmpty', 'CertE', 'SH', 'AlertWarn', 'CCSbad', 'CR']
INS_SERVER = ['CH', 'Fin', 'CCS', 'NST', 'KU', 'App', 'AppEmpty', 'CertE', 'HReq', 'AlertWarn', 'CCSbad']


def single_devs(fl, log, rng, quick):
    """all single deviations for a flavour, given the honest peer log [(k, kind, epoch, flight)]"""
    devs = []
    ins = INS_CLIENT if fl['eut'] == 'client' else INS_SERVER
    v13 = fl['ver'] == 'tls13'
    n = len(log)
    for (k, kind, ep, flt) in log:
        devs.append([dict(op='skip', k=k)])
        devs.append([dict(op='dup', k=k)])
        if k + 1 < n and log[k + 1][3] == flt:
            devs.append([dict(op='swap', k=k)])
            if kind != 'CCS':
                devs.append([dict(op='merge', k=k)])
        what = list(ins) + (['CCSprot'] if (v13 and ep >= 1) else [])
        if quick:
            what = rng.sample(what, 5)
            for w in ('NST', 'CCS', 'App'):
                if w not in what and rng.random() < 0.5:
                    what.append(w)
            if fl['eut'] == 'client' and 'CR' not in what and kind in ('SHD', 'Cert', 'CertN', 'CV', 'Fin', 'SKE'):
                what.append('CR')
        for w in what:
            devs.append([dict(op='insert', k=k, what=w)])
        # always: a record that opens under no key, and the message the renegotiation branch of
        # _getMsg special-cases (in and out of the peer's transcript), before every message
        devs.append([dict(op='insert', k=k, what='Undec')])
        rn = 'HReq' if fl['eut'] == 'client' else 'CH'
        if k > 0:
            if rn not in what:
                devs.append([dict(op='insert', k=k, what=rn)])
            devs.append([dict(op='insert', k=k, what=rn, nohash=True)])
        for w in (['Fin', 'CertE', 'NST'] if not quick else [rng.choice(['Fin', 'CertE', 'NST'])]):
            devs.append([dict(op='replace', k=k, what=w)])
        # a mandatory message replaced by a warning alert (the SSLv3 no_certificate idiom, and another)
        if kind != 'CCS' and k > 0:
            devs.append([dict(op='replace', k=k, what='AlertNoCert')])
            if not quick or rng.random() < 0.3:
                devs.append([dict(op='replace', k=k, what='AlertWarn')])
        if ep >= 1 and not fl.get('early'):
            devs.append([dict(op='epoch', k=k, epoch=ep - 1)])
        if kind != 'CCS':
            devs.append([dict(op='split', k=k, at=rng.choice([1, 2, 4, 5]))])
            for mid in (['CCS', 'AlertWarn', 'App'] if not quick else [rng.choice(['CCS', 'AlertWarn', 'App'])]):
                devs.append([dict(op='split', k=k, at=3, between=mid)])
            devs.append([dict(op='coalesce', k=k)])
            devs.append([dict(op='coalesce', k=k, part=3)])
            devs.append([dict(op='span', k=k, at=4)])
            devs.append([dict(op='span', k=k, at=3, join=True)])
            if kind in ('Fin', 'SH', 'CH', 'HRR') or not quick:
                # a message that belongs to what follows rides in the same record
                for w in (['KU', 'HReq', 'NST'] if not quick else [rng.choice(['KU', 'HReq', 'NST']), 'KU']):
                    devs.append([dict(op='glue', k=k, what=w)])
    devs.append([dict(op='append', k=n - 1, what='App')])
    return devs


def outcome_code(cl):
    if cl[0] == 'ok':
        return (0, 0)
    if cl[0] == 'LocalAlert':
        return (1, cl[1])
    if cl[0] == 'RemoteAlert':
        return (2, cl[1])
    return (3, 0)


def effective(fl, obs):
    """the configuration the model and the grammar are instantiated with: what the ServerHello /
    the server's flight actually announced (emission side), not what the options intended"""
    e = dict(fl)
    if not obs:
        return e
    if fl['ver'] != 'tls13':
        if 'npn' in obs:
            e['npn'] = bool(obs['npn'])
        if 'ticket' in obs:
            e['ticket'] = bool(obs['ticket'])
        if 'reqcert' in obs and obs.get('full'):
            e['reqcert'] = bool(obs['reqcert'])
    else:
        if fl['eut'] == 'server' and 'hrr' in obs:
            e['hrr'] = bool(obs['hrr'])
    return e


def run_case(job):
    """worker: one live run"""
    import c06_live as L
    fl, ops, seed = job
    t0 = time.time()
    try:
        r = L.run_live(fl, ops, seed=seed)
    except Exception as e:  # noqa
        import traceback
        return {'fl': fl, 'ops': ops, 'error': 'harness: %s' % traceback.format_exc()[-800:]}
    if 'error' in r:
        return {'fl': fl, 'ops': ops, 'error': r['error']}
    trace = r['syms'][:r['done_at']]
    if r['eut'][0] == 'ok':
        # the handshake ends with the (last delivered) Finished; what rides behind it in the same
        # record is post-handshake traffic
        last = max([i for i, sy in enumerate(trace) if sy[1] in ('PH', 'PBufH') and sy[2] == 'Fin'] or [len(trace) - 1])
        trace = trace[:last + 1]
    return {'fl': fl, 'ops': ops, 'trace': trace, 'all_syms': r['syms'], 'eut': r['eut'], 'peer': r['peer'],
            'applied': len(r['applied']), 'readbuf': r['eut_readbuf'], 'closed': r['eut_closed'],
            'log': r['honest_log'], 'exc': r.get('eut_exc'), 'dt': time.time() - t0, 'obs': r.get('observed'),
            'tickets12': r['eut_tickets12']}


def run_post(job):
    """worker: honest handshake, then a renegotiation attempt by the peer, then data"""
    import c06_live as L
    import loop
    from tlslite.messages import HelloRequest
    from tlslite.constants import ContentType
    fl, seed = job

    def post(pair, eut, peer, dp, eut_is_client):
        out = {}
        sess0 = eut.session
        ws0, rs0 = eut._recordLayer._writeState, eut._recordLayer._readState
        if eut_is_client:
            class M(object):
                contentType = ContentType.handshake

                def write(self):
                    return HelloRequest().create().write()
            msg = M()
        else:
            ch = next(i for i in dp.sent_items if i.kind() == 'CH')

            class M(object):
                contentType = ContentType.handshake

                def write(self):
                    return bytearray(ch.data)
            msg = M()
        # drain whatever the peer sent after its Finished (TLS 1.3 tickets)
        for _ in dp.flush_flight():
            pass
        while dp.deliver_next():
            pass
        for _ in peer._sendMsg(msg):
            pass
        for _ in dp.flush_flight():
            pass
        for _ in peer.writeAsync(b'data after the attempt'):
            pass
        while dp.deliver_next():
            pass
        rr = loop.run_gen(eut.readAsync(max=100, min=1))
        out['read'] = loop.classify(rr) if rr[0] == 'exc' else ('ok', bytes(rr[1] or b''))
        out['same_session'] = eut.session is sess0
        out['same_keys'] = (eut._recordLayer._writeState is ws0) and (eut._recordLayer._readState is rs0)
        out['closed'] = bool(eut.closed)
        # what did the EUT put on the wire in response?
        pr = loop.run_gen(peer.readAsync(max=100, min=1))
        out['peer_read'] = loop.classify(pr) if pr[0] == 'exc' else ('ok', bytes(pr[1] or b''))
        if pr[0] == 'exc' and hasattr(pr[1], 'level'):
            out['peer_alert_level'] = int(pr[1].level)
        # the wrapped peer drops (and records) no_renegotiation warnings
        out['peer_saw_warning'] = 100 in dp.swallowed_warnings
        # a second handshake through the API is refused as well (only meaningful while the
        # connection is still up; a closed TLSConnection object may be reused for a new one)
        if eut.closed:
            out['api'] = 'closed'
            return out
        try:
            g = eut.handshakeClientCert(async_=True) if eut_is_client else eut.handshakeServerAsync()
            next(g)
            out['api'] = 'started'
        except ValueError as e:
            out['api'] = 'ValueError'
        except Exception as e:  # noqa
            out['api'] = type(e).__name__
        return out
    try:
        r = L.run_live(fl, [], post=post, seed=seed)
    except Exception:
        import traceback
        return {'fl': fl, 'error': traceback.format_exc()[-800:]}
    return {'fl': fl, 'eut': r.get('eut'), 'post': r.get('post'), 'error': r.get('error')}


PREAMBLE = '''
From TV Require Import Model.C06_GateTypes Model.C06_HsOrder Spec.C06_HsGrammar Model.C06_Check.
Definition CaseT := (cfg * list sym * (Z * Z) * bool * bool * Z)%type.
(* implementation outcome: (0,_) completed; (1,d) local fatal alert d; (2,_) alert from the peer; (3,_) other abort *)
(* badfin >= 0: the trace holds, at that index, a Finished message with a wrong verify_data
   (content, not order): if the automaton lets it through its gate the implementation must
   abort there; otherwise the comparison is the ordinary one *)
Definition outcome_ok (s : st) (k d : Z) : bool :=
  match pc s with
  | P_Done => Z.eqb k 0
  | P_Post => Z.eqb k 0
  | P_Abort r =>
      match r with
      | R_badmac => Z.eqb k 1 && (Z.eqb d 20 || Z.eqb d 21 || Z.eqb d 22 || Z.eqb d 10)
      | R_remote => Z.eqb k 2
      | R_any => negb (Z.eqb k 0)
      | _ => match reason_alert r with Some a => Z.eqb k 1 && Z.eqb d a | None => negb (Z.eqb k 0) end
      end
  | _ => negb (Z.eqb k 0)     (* still waiting: the implementation cannot have completed *)
  end.
Definition chk_model (x : CaseT) : bool :=
  let '(c, w, (k, d), pyallowed, pydev, badfin) := x in
  if Z.ltb badfin 0 then outcome_ok (run modelled_gates c w) k d
  else
    let n := Z.to_nat badfin in
    let s0 := run modelled_gates c (firstn n w) in
    match nth_error w n with
    | Some e =>
        let s1 := fst (step modelled_gates c s0 e) in
        if is_abort s1 && negb (is_abort s0) then outcome_ok s1 k d
        else if is_abort s0 then outcome_ok s0 k d
        else negb (Z.eqb k 0)
    | None => outcome_ok s0 k d
    end.
Definition chk_spec (x : CaseT) : bool :=
  let '(c, w, (k, d), pyallowed, pydev, badfin) := x in Bool.eqb (allowed c w) pyallowed.
'''


def jsonable(x):
    return json.loads(json.dumps(x, default=repr))


def run(ctx):
    import units_gates
    quick = ctx.tier == 'quick'
    ok, msg = units_gates.generate(vlib.COQ)
    ctx.log('translator: %s' % msg)
    tie_broken = None if ok else msg
    res = vlib.proof_stage(ctx, 'Props/C06.v',
                           model_targets=['Model/C06_Check.vo'])
    ctx.log('proof stage ok=%s failing=%s' % (res['ok'], res['failing']))
    ctx.cov['trusted_base'] = [
        'Coq 8.16.1 kernel + vm_compute (finite product automata, case evaluation)',
        'translator/units_gates.py: Python ast walk of tlsconnection.py/tlsrecordlayer.py, constants by import',
        'hand model coq/Model/C06_HsOrder.v of the coroutine control flow and of _getMsg (correspondence only)',
        'coq/Spec/C06_HsGrammar.v as the reading of RFC 5246/5077/5054/4492/6520/8446; harness Python grammar as a second reading',
        'deviating peer = real tlslite endpoint with wrapped send path (harness/c06_live.py)',
    ]
    ctx.assumptions += [
        'events abstract record contents: message kind, empty/non-empty certificate, aligned/unaligned, epoch',
        'a record protected under other keys than the current read state never opens (ideal record protection)',
        'configurations: Model.C06_HsOrder.all_cfgs (63); flags that a flow ignores are not multiplied out',
    ]
    rng = ctx.rng
    found = False
    pool = multiprocessing.Pool(min(16, os.cpu_count() or 4))
    try:
        fls = flavours(ctx.tier)
        # ---- honest runs: every flavour must complete, its trace must be allowed
        honest = pool.map(run_case, [(fl, [], 1) for fl in fls])
        jobs = []
        eff_of = {}
        for h in honest:
            if 'error' not in h:
                eff_of[json.dumps(h['fl'], sort_keys=True)] = effective(h['fl'], h.get('obs'))
        for h in honest:
            if 'error' in h or h['eut'][0] != 'ok' or h['peer'][0] != 'ok':
                tie_broken = tie_broken or ('honest flavour does not complete: %s %s' % (h['fl'], h.get('error') or (h['eut'], h['peer'])))
                # the deviations are still derived from whatever the honest peer got to send: an
                # endpoint that refuses the honest flight may well accept a deviating one
                if 'error' in h or len(h.get('log') or []) < 2:
                    continue
            devs = single_devs(h['fl'], h['log'], rng, quick)
            if not quick:
                # two deviations: a sample of pairs
                pairs = []
                for _ in range(min(len(devs), 150)):
                    a, b2 = rng.choice(devs), rng.choice(devs)
                    if a[0].get('k') != b2[0].get('k'):
                        pairs.append(a + b2)
                devs = devs + pairs
            elif len(devs) > 70:
                keep = [d for d in devs if d[0]['op'] in ('skip', 'swap', 'span', 'merge', 'glue') or d[0].get('what') in ('CR', 'Undec', 'CH', 'HReq', 'AlertNoCert')]
                rest = [d for d in devs if not (d[0]['op'] in ('skip', 'swap', 'span', 'merge', 'glue') or d[0].get('what') in ('CR', 'Undec', 'CH', 'HReq', 'AlertNoCert'))]
                rng.shuffle(rest)
                devs = keep + rest[:max(0, 100 - len(keep))]
            for d in devs:
                jobs.append((h['fl'], d, 1))
        ctx.log('%d flavours, %d deviation runs' % (len(fls), len(jobs)))
        results = honest + pool.map(run_case, jobs, chunksize=8)
        # ---- post-handshake renegotiation attempts
        post_fls = [fl for fl in fls if not fl.get('resume') or True]
        if quick:
            post_fls = [fl for fl in post_fls if fl['kx'] in ('rsa', 'ecdhe', 'cert13', 'psk13', 'srp')][:24]
        posts = pool.map(run_post, [(fl, 1) for fl in post_fls])
    finally:
        pool.close()
        pool.join()
    ctx.log('live runs done')
    # ---- the property on the implementation itself (needs no Coq)
    cases = []
    n_err = 0
    reported = set()
    for r in results:
        if 'error' in r:
            n_err += 1
            if n_err <= 3:
                ctx.log('harness error: %s' % r['error'][-300:])
            tie_broken = tie_broken or ('live run failed in the harness: %s' % r['error'][-200:])
            continue
        fl0, trace = r['fl'], r['trace']
        # the model is instantiated from what the honest run of this flavour put on the wire
        fl = eff_of.get(json.dumps(fl0, sort_keys=True), fl0)
        r['eff'] = fl
        allowed = py_allowed(fl, trace)
        completed = r['eut'][0] == 'ok'
        devs = py_devclass(fl, trace) if completed else []
        opk = '+'.join(o['op'] + (':' + o['what'] if 'what' in o else '') for o in r['ops']) or 'honest'
        key = (fl['eut'], fl['ver'], fl['kx'], tuple(sorted(k for k in fl if k not in ('eut', 'ver', 'kx') and fl[k])),
               opk, completed, allowed)
        ctx.count('live-deviation-vs-property', 1, [key],
                  sample={'fl': fl, 'ops': r['ops'], 'eut': r['eut'], 'trace': [tok(s) for s in trace]} if len(cases) % 211 == 0 else None)
        rep = {'flavour': fl0, 'effective': fl, 'ops': r['ops'], 'eut_outcome': r['eut'], 'trace': [tok(s) for s in trace],
               'how': 'PYTHONPATH=/repo:/verif/harness: c06_live.run_live(flavour, ops) (./check C06 --replay <this file>)'}
        if completed and not allowed:
            for dk in (devs or ['unclassified:%s:%s' % (fl['eut'], opk)]):
                if dk in reported:
                    continue        # one concrete trace per class is enough
                reported.add(dk)
                found = ctx.violation(dk, 'endpoint under test (%s, %s, %s) completed the handshake on a message sequence the protocol '
                              'does not allow: %s' % (fl['eut'], fl['ver'], fl['kx'], ' '.join(tok(s) for s in trace)), rep) or found
        if not completed and r['readbuf'] > 0:
            found = True
            ctx.violation('appdata-before-abort:%s' % fl['eut'], 'application data was buffered for delivery although the handshake aborted', rep)
        if not completed and not r['closed'] and r['eut'][0] in ('LocalAlert', 'RemoteAlert'):
            found = True
            ctx.violation('not-closed-after-alert:%s' % fl['eut'], 'connection left open after an aborted handshake', rep)
        if r['eut'][0] == 'Other':
            # an undocumented exception is still an abort; it is C08's concern, recorded here
            ctx.notes.append('undocumented exception %s on %s %s' % (r['eut'][1:], fl, r['ops']))
        if not r['ops'] and not (completed and allowed):
            tie_broken = tie_broken or ('honest trace rejected by the Python grammar or the endpoint: %s' % rep)
        cases.append((r, allowed, bool(devs)))
    for p in posts:
        if p.get('error') or not p.get('post'):
            tie_broken = tie_broken or ('post-handshake run failed: %s' % (p.get('error') or p,))
            continue
        fl, po = p['fl'], p['post']
        v13 = fl['ver'] == 'tls13'
        ctx.count('renegotiation-attempt', 1, [(fl['eut'], fl['ver'], fl['kx'], po['read'][0])])
        rep = {'flavour': fl, 'post': jsonable(po), 'how': 'c06 props.C06.run_post((flavour, 1))'}
        bad = None
        if po['api'] not in ('ValueError', 'closed'):
            bad = 'a second handshake could be started through the API (%s)' % po['api']
        elif not po['closed'] and (not po['same_session'] or not po['same_keys']):
            bad = 'session or keys changed after a renegotiation attempt'
        elif not v13:
            if po['read'] != ('ok', b'data after the attempt') or po['closed']:
                bad = 'data no longer flows after a refused renegotiation attempt: %r' % (po['read'],)
            elif not po.get('peer_saw_warning'):
                bad = 'no no_renegotiation warning was sent: peer saw %r' % (po['peer_read'],)
        else:
            if po['read'] != ('LocalAlert', 10) or not po['closed']:
                bad = 'TLS 1.3: handshake message after completion not answered by unexpected_message: %r' % (po['read'],)
        if bad:
            found = True
            ctx.violation('renegotiation:%s:%s' % (fl['eut'], fl['ver']), bad, rep)
    ctx.log('property oracle done: %d cases, %d renegotiation attempts' % (len(cases), len(posts)))
    # ---- Coq model / spec on the same cases
    if res['model_ok'] and tie_broken is None:
        lits = []
        for (r, allowed, dev) in cases:
            k, d = outcome_code(r['eut'])
            badfin = next((i for i, sy in enumerate(r['trace']) if len(sy) > 4 and sy[4] == 'bad'), -1)
            lits.append('(%s, [%s], (%d, %d), %s, %s, %s)' % (cfg_lit(r.get('eff', r['fl'])), '; '.join(sym_lit(s) for s in r['trace']),
                                                              k, d, b(allowed), b(dev), vlib.zlit(badfin)))
        (bad_model, bad_spec), errs = vlib.coq_bad_indices(
            'C06', [], 'CaseT', ['chk_model', 'chk_spec'], lits,
            shard=max(40, (len(lits) + 15) // 16), preamble=PREAMBLE)
        if any(('rc=-9' in e) or ('rc=137' in e) or ('rc=-15' in e) for e in errs):
            ctx.log('coqc worker killed from outside, evaluating again')
            (bad_model, bad_spec), errs = vlib.coq_bad_indices(
                'C06', [], 'CaseT', ['chk_model', 'chk_spec'], lits,
                shard=max(40, (len(lits) + 15) // 16), preamble=PREAMBLE)
        ctx.count('model-vs-impl(vm_compute)', len(lits), [('agree', len(lits) - len(bad_model))])
        for e in errs:
            tie_broken = 'case evaluation failed: ' + e[:300]
        seen_kinds = set()
        for i in bad_model:
            r = cases[i][0]
            kk = (r['fl']['eut'], r['fl']['ver'] == 'tls13', '+'.join(o['op'] + ':' + str(o.get('what', '')) for o in r['ops']), r['eut'])
            if kk in seen_kinds or len(seen_kinds) > 40:
                continue
            seen_kinds.add(kk)
            ctx.log('model/impl disagreement: %s %s impl=%s trace=%s' % (r['fl'], r['ops'], r['eut'], ' '.join(tok(s) for s in r['trace'])))
        for i in []:
            r = cases[i][0]
            ctx.log('model/impl disagreement: %s %s impl=%s trace=%s' % (r['fl'], r['ops'], r['eut'], ' '.join(tok(s) for s in r['trace'])))
        if bad_model and not found:
            r = cases[bad_model[0]][0]
            tie_broken = 'automaton prediction differs from the implementation on %d cases, e.g. %s %s impl=%s' % (
                len(bad_model), r['fl'], r['ops'], r['eut'])
        for i in bad_spec[:5]:
            r = cases[i][0]
            tie_broken = tie_broken or 'Coq grammar and Python grammar disagree on %s %s' % (r['fl'], ' '.join(tok(s) for s in r['trace']))
    elif not res['model_ok']:
        tie_broken = tie_broken or ('model does not compile: %s' % res['failing'])
    ctx.cov['rule'] = ('cases = honest trace of every flavour (role under test x version x key exchange x options) with %s '
                       'deviation(s) applied by the wrapped peer: skip, duplicate, swap adjacent, insert/replace by '
                       'HelloRequest/ServerHelloDone/Finished/CCS/NewSessionTicket/KeyUpdate/application data/empty '
                       'Certificate/ClientHello/ServerHello/warning alert/protected CCS, older epoch, fragment, fragment with '
                       'interleaved record, coalesce, start a message in the previous record or before CCS; '
                       'distinct = (flavour, deviation ops, completed?, allowed?)' % ('1' if quick else '1-2'))
    if tie_broken and not found:
        ctx.violation('tie-broken', tie_broken, {'correspondence': 'C06 automaton / gate table vs tlslite', 'detail': tie_broken},
                      found_input=False)
        found = True
    vlib.broken_proof_verdict(ctx, res, found)


def replay(ctx, path):
    with open(path) as f:
        r = json.load(f)
    if 'flavour' not in r:
        print(json.dumps(r, indent=1)[:3000])
        return 1
    if 'post' in r:
        print(run_post((r['flavour'], 1)))
        return 1
    out = run_case((r['flavour'], r['ops'], 1))
    if 'error' in out:
        print(out['error'])
        return 1
    hon = run_case((r['flavour'], [], 1))
    out['fl'] = effective(r['flavour'], hon.get('obs'))
    allowed = py_allowed(out['fl'], out['trace'])
    print('endpoint under test:', out['eut'], ' trace:', ' '.join(tok(s) for s in out['trace']))
    print('allowed by the grammar:', allowed, ' deviation classes:', py_devclass(out['fl'], out['trace']))
    return 1 if (out['eut'][0] == 'ok' and not allowed) else 0
