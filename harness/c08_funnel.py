"""C08, part "error funnel": live observation of tlslite-ng's exception -> alert / shutdown
funnel, to be compared with coq/Model/C08_Funnel.v (chk_funnel / predict).

What is patched and what is not
-------------------------------
The functions under test are never touched: TLSRecordLayer._getMsg, _getNextRecord,
_getNextRecordFromSocket, _sendError, _shutdown, _sendMsg, _sendMsgThroughSocket, readAsync,
writeAsync, closeAsync, _decrefAsync and TLSConnection._handshakeWrapperAsync and the handshake
bodies run unmodified.  An exception of a chosen class is made to arise at a chosen depth in
one of two ways (field `how` of a case):

  'genuine:*'  the peer (a scripted byte source, a real tlslite peer, or an on-path tap on the
               peer's socket) really sends the offending bytes / closes / the transport fails.
  'patch'      a *callee* of the funnel is temporarily replaced by a function that raises:
                 depth record  : <endpoint>._recordLayer.recvRecord        (RecordLayer instance)
                 depth parser  : tlslite.messages.<Msg>.parse               (message class)
                 depth direct  : <endpoint>._recordLayer.calcPendingStates /
                                 calcTLS1_3PendingState / calcTLS1_3KeyUpdate_sender / sendRecord
                 depth checker : the user supplied checker callable
               This is the only way to produce classes that no byte string can produce
               (AttributeError, ...); it patches a leaf the code under test calls, never the
               funnel.
Logging (never altering behaviour): <endpoint>._recordLayer.sendRecord is wrapped to record the
plaintext of alert records after they were accepted by the socket, and the MemSock's close()
is wrapped to record when the socket is closed.
"""
import errno
import random
import socket

import loop
from loop import Pair, MemSock, creds, settings, DetRandom
import vlib
from tlslite import errors as tlserr
from tlslite import messages as tlsmsg
from tlslite import constants as tlsconst
from tlslite.utils import codec as tlscodec
from tlslite.constants import AlertDescription, AlertLevel, ContentType, Fault

# --------------------------------------------------------------------------------------------
# encodings (must equal coq/Model/C08_Funnel.v: exc_code, layer_of_code, depth_of_code,
# action_of_code; test_encoding() below and the 'subclass' / 'const' cases tie them)
CLASS_CODES = {
    'BaseException': 0, 'Exception': 1, 'GeneratorExit': 2, 'KeyboardInterrupt': 3,
    'SystemExit': 4,
    'SyntaxError': 10, 'AssertionError': 11, 'AttributeError': 12, 'LookupError': 13,
    'IndexError': 14, 'KeyError': 15, 'TypeError': 16, 'ValueError': 17, 'UnicodeError': 18,
    'UnicodeDecodeError': 19, 'ArithmeticError': 20, 'ZeroDivisionError': 21,
    'OverflowError': 22, 'RuntimeError': 23, 'NotImplementedError': 24, 'RecursionError': 25,
    'MemoryError': 26, 'StopIteration': 27, 'SockError': 28,
    'BaseTLSException': 40, 'EncryptionError': 41, 'TLSError': 42,
    'TLSClosedConnectionError': 43, 'TLSAbruptCloseError': 44, 'TLSAlert': 45,
    'TLSLocalAlert': 46, 'TLSRemoteAlert': 47, 'TLSAuthenticationError': 48,
    'TLSNoAuthenticationError': 49, 'TLSAuthenticationTypeError': 50,
    'TLSFingerprintError': 51, 'TLSAuthorizationError': 52, 'TLSValidationError': 53,
    'TLSFaultError': 54, 'TLSUnsupportedError': 55, 'TLSInternalError': 56,
    'TLSProtocolException': 57, 'TLSIllegalParameterException': 58, 'TLSDecodeError': 59,
    'TLSUnexpectedMessage': 60, 'TLSRecordOverflow': 61, 'TLSDecryptionFailed': 62,
    'TLSBadRecordMAC': 63, 'TLSInsufficientSecurity': 64, 'TLSUnknownPSKIdentity': 65,
    'TLSHandshakeFailure': 66, 'MaskTooLongError': 67, 'MessageTooLongError': 68,
    'EncodingError': 69, 'InvalidSignature': 70, 'UnknownRSAType': 71,
    'DecodeError': 80, 'BadCertificateError': 81,
}
LAYER_CODES = {'handshake': 0, 'read': 1, 'write': 2, 'close': 3}
DEPTH_CODES = {'record': 0, 'parser': 1, 'direct': 2, 'checker': 3, 'pretry': 4, 'reconly': 5}
ACTION_CODES = {'raise': 0, 'senderror': 1, 'peeralert': 2, 'shutraise': 3, 'shutraisesock': 4}
FINAL_DONE = -1
FINAL_UNKNOWN = -2

_BUILTIN = {
    'BaseException': BaseException, 'Exception': Exception, 'GeneratorExit': GeneratorExit,
    'KeyboardInterrupt': KeyboardInterrupt, 'SystemExit': SystemExit,
    'SyntaxError': SyntaxError, 'AssertionError': AssertionError,
    'AttributeError': AttributeError, 'LookupError': LookupError, 'IndexError': IndexError,
    'KeyError': KeyError, 'TypeError': TypeError, 'ValueError': ValueError,
    'UnicodeError': UnicodeError, 'UnicodeDecodeError': UnicodeDecodeError,
    'ArithmeticError': ArithmeticError, 'ZeroDivisionError': ZeroDivisionError,
    'OverflowError': OverflowError, 'RuntimeError': RuntimeError,
    'NotImplementedError': NotImplementedError, 'RecursionError': RecursionError,
    'MemoryError': MemoryError, 'StopIteration': StopIteration, 'SockError': socket.error,
}


def py_class(name):
    """The live class for a name of CLASS_CODES."""
    if name in _BUILTIN:
        return _BUILTIN[name]
    if name in ('DecodeError', 'BadCertificateError'):
        return getattr(tlscodec, name)
    return getattr(tlserr, name)


CLASS_OF = dict((n, py_class(n)) for n in CLASS_CODES)
_CODE_OF_CLASS = dict((c, CLASS_CODES[n]) for n, c in CLASS_OF.items())
NAME_OF_CODE = dict((v, k) for k, v in CLASS_CODES.items())


def make_exc(name):
    """An instance of the class (constructors differ)."""
    cls = CLASS_OF[name]
    if name in ('TLSLocalAlert', 'TLSRemoteAlert'):
        return cls(tlsmsg.Alert().create(AlertDescription.internal_error, AlertLevel.fatal))
    if name == 'UnicodeDecodeError':
        return cls('utf-8', b'\xff', 0, 1, 'injected')
    if name == 'SockError':
        return cls(errno.ECONNRESET, 'injected')
    if name == 'TLSValidationError':
        return cls('injected')
    return cls('injected')


INJECTED_DESCR = int(AlertDescription.internal_error)


def raise_action(name):
    """('raise', class code, .description of the instance make_exc builds, or -1)"""
    return ('raise', CLASS_CODES[name],
            INJECTED_DESCR if name in ('TLSLocalAlert', 'TLSRemoteAlert') else -1)


def class_code(e):
    """Code of the most specific class of the table in the MRO of type(e) (BrokenPipeError,
    ConnectionResetError, ... -> SockError: no handler of the funnel names a class between
    them and OSError)."""
    for c in type(e).__mro__:
        if c in _CODE_OF_CLASS:
            return _CODE_OF_CLASS[c]
    return FINAL_UNKNOWN


# constants tie: same order as alert_consts in the model
ALERT_CONSTS = [AlertDescription.close_notify, AlertDescription.unexpected_message,
                AlertDescription.bad_record_mac, AlertDescription.decryption_failed,
                AlertDescription.record_overflow, AlertDescription.bad_certificate,
                AlertDescription.illegal_parameter, AlertDescription.decode_error,
                AlertLevel.warning, AlertLevel.fatal, AlertDescription.decrypt_error]


# --------------------------------------------------------------------------------------------
class Stuck(Exception):
    pass


def drive(gens, max_rounds=20000):
    """Round-robin; catches BaseException (GeneratorExit / KeyboardInterrupt are injected
    classes).  Returns list of ('ok', None) | ('exc', e).  The first generator is the endpoint
    under test; the others are helpers that may never finish (they are dropped when the
    first one is done and they make no progress)."""
    res = [None] * len(gens)
    active = list(range(len(gens)))
    idle = 0
    while active:
        progressed = False
        for i in list(active):
            try:
                r = next(gens[i])
                if r not in (0, 1) or isinstance(r, (bytes, bytearray)):
                    progressed = True
                elif r == 1:
                    progressed = True
            except StopIteration:
                res[i] = ('ok', None)
                active.remove(i)
                progressed = True
            except BaseException as e:  # noqa
                res[i] = ('exc', e)
                active.remove(i)
                progressed = True
        idle = 0 if progressed else idle + 1
        if 0 not in active and idle > 50:
            break
        if idle > max_rounds:
            for i in active:
                res[i] = ('exc', Stuck('no progress'))
            break
    for i in active:
        if res[i] is None:
            res[i] = ('exc', Stuck('abandoned'))
    return res


class Probe(object):
    """Trace instrumentation of the endpoint under test (logging only) and state snapshots."""

    def __init__(self, conn, sock):
        self.conn, self.sock = conn, sock
        self.events = []
        self.pending = []        # alerts accepted by BufferedSocket but still in its queue
        self.init = None
        self.fired = False
        rl = conn._recordLayer
        self._orig_send = rl.sendRecord
        probe = self

        def logged_send(msg):
            ct = msg.contentType
            data = bytes(msg.write())
            for r in probe._orig_send(msg):
                yield r
            if ct == ContentType.alert and len(data) == 2:
                # accepted by BufferedSocket: queued in write-buffering mode, else written
                if conn.sock.buffer_writes:
                    probe.pending.append((data[0], data[1]))
                else:
                    probe.events.append((data[0], data[1]))
        rl.sendRecord = logged_send
        orig_recv = rl.recvRecord
        self.recv_buffering = None

        def logged_recv():
            # the write-buffering flag at the time of the latest record read (logging only)
            probe.recv_buffering = bool(conn.sock.buffer_writes)
            for r in orig_recv():
                yield r
        rl.recvRecord = logged_recv
        orig_sock_send = sock.send

        def logged_sock_send(data):
            k = orig_sock_send(data)
            # BufferedSocket.flush*/close() empty _write_queue before handing the bytes to the
            # real socket: queued alerts are on the wire now
            if probe.pending and len(conn.sock._write_queue) == 0:
                probe.events.extend(probe.pending)
                del probe.pending[:]
            return k
        sock.send = logged_sock_send
        orig_close = sock.close

        def logged_close():
            probe.events.append((-1, 0))
            orig_close()
        sock.close = logged_close

    def snap(self):
        """Record the state at the moment of the event (first call wins) and forget the
        trace so far (the comparison is about what the funnel adds)."""
        if self.init is None:
            c = self.conn
            self.init = (bool(c.closed), bool(self.sock.closed), c.session is not None,
                         bool(c.session.resumable) if c.session is not None else False,
                         bool(c.closeSocket), bool(c.ignoreAbruptClose))
            self.fault = None if not c.fault else list(Fault.faultAlerts[c.fault])
            self.buffering = bool(c.sock.buffer_writes)
            del self.events[:]
            del self.pending[:]

    def final(self):
        c = self.conn
        return (bool(c.closed), bool(self.sock.closed), c.session is not None,
                bool(c.session.resumable) if c.session is not None else False)


def _raiser(probe, exc_name, sf, when=0, passthrough=None, gen=False):
    """A function raising the class on its `when`-th call (earlier calls go to
    `passthrough`).  With sf the very next socket send of the endpoint fails (EPIPE)."""
    state = {'n': 0}

    def fire():
        probe.fired = True
        probe.snap()
        if sf:
            s = probe.sock
            s.fault = dict(kind='send', index=s.n_send, err=errno.EPIPE)
            s.faulted = False
        raise make_exc(exc_name)

    if gen:
        def g(*a, **kw):
            n = state['n']
            state['n'] += 1
            if n < when:
                for r in passthrough(*a, **kw):
                    yield r
                return
            fire()
            yield 0  # pragma: no cover
        return g

    def f(*a, **kw):
        n = state['n']
        state['n'] += 1
        if n < when:
            return passthrough(*a, **kw)
        fire()
    return f


class _ClassPatch(object):
    """Temporarily replace a method on a class (message parse)."""

    def __init__(self, cls, attr, fn):
        self.cls, self.attr, self.fn = cls, attr, fn

    def __enter__(self):
        self.own = self.attr in self.cls.__dict__
        self.saved = self.cls.__dict__.get(self.attr)
        setattr(self.cls, self.attr, self.fn)

    def __exit__(self, *a):
        if self.own:
            setattr(self.cls, self.attr, self.saved)
        else:
            delattr(self.cls, self.attr)


class _NoPatch(object):
    def __enter__(self):
        pass

    def __exit__(self, *a):
        pass


# --------------------------------------------------------------------------------------------
def _hs_gens(p, under, version, checker=None):
    """Handshake generators; `under` is 'client' or 'server'.  TLS 1.3 when version == 13,
    TLS 1.2 otherwise."""
    if version == 13:
        st = dict(minv=(3, 3), maxv=(3, 4))
    else:
        st = dict(minv=(3, 3), maxv=(3, 3))
    chain, key = creds('rsa')
    ckw = dict(settings=settings(**st))
    skw = dict(certChain=chain, privateKey=key, settings=settings(**st))
    if checker is not None:
        (ckw if under == 'client' else skw)['checker'] = checker
    cg = p.client.handshakeClientCert(async_=True, **ckw)
    sg = p.server.handshakeServerAsync(**skw)
    return (cg, sg) if under == 'client' else (sg, cg)


def _established(seed, version, under):
    """A pair after a completed handshake; returns (pair, endpoint, its sock, peer, peer sock)."""
    p = Pair()
    cg, sg = _hs_gens(p, 'client', version)
    r = loop.drive([cg, sg])
    if r[0][0] != 'ok' or r[1][0] != 'ok':
        raise RuntimeError('setup handshake failed: %r' % (r,))
    if under == 'client':
        return p, p.client, p.csock, p.server, p.ssock
    return p, p.server, p.ssock, p.client, p.csock


def _run_to_end(gen):
    for _ in gen:
        pass


def _alert_record(level, descr, version=(3, 3)):
    return bytes(bytearray([21, version[0], version[1], 0, 2, level, descr]))


# A case is a dict:
#   layer, depth, action=(kind, a1, a2), sf (bool), how, plus options:
#   under ('client'|'server'), version (12|13), ignore_abrupt, close_socket, fault (Fault id)
def observe_case(case, seed=0):
    """Run one case live.  Returns dict(init=(closed, sock_closed, has_session, resumable,
    close_socket, ignore_abrupt), fault=list|None, final_code, descr, final=(closed,
    sock_closed, has_session, resumable), trace=[(level, descr) | (-1, 0)], exc=repr)."""
    det = DetRandom(seed).install()
    try:
        return _observe(case, seed)
    finally:
        det.uninstall()


def _observe(case, seed):
    layer, depth = case['layer'], case['depth']
    kind, a1, a2 = case['action']
    sf = bool(case.get('sf', False))
    how = case.get('how', 'patch')
    under = case.get('under', 'client')
    version = case.get('version', 12)
    exc_name = NAME_OF_CODE.get(a1) if kind == 'raise' else None
    patch = _NoPatch()
    helpers = []

    def configure(conn):
        conn.ignoreAbruptClose = bool(case.get('ignore_abrupt', False))
        conn.closeSocket = bool(case.get('close_socket', True))
        if case.get('fault'):
            conn.fault = case['fault']

    def arm_sf(probe):
        if sf:
            s = probe.sock
            s.fault = dict(kind='send', index=s.n_send, err=errno.EPIPE)
            s.faulted = False

    # ---------------------------------------------------------------- handshake
    if layer == 'handshake':
        p = Pair()
        conn, sock = (p.client, p.csock) if under == 'client' else (p.server, p.ssock)
        peer_sock = p.ssock if under == 'client' else p.csock
        configure(conn)
        probe = Probe(conn, sock)
        checker = None
        scripted = None          # bytes fed instead of a live peer
        rl = conn._recordLayer
        if how == 'patch':
            if depth == 'record':
                # client: first record read (ServerHello); server: first record (ClientHello)
                rl.recvRecord = _raiser(probe, exc_name, sf, gen=True)
            elif depth == 'parser':
                cls = tlsmsg.ServerHello if under == 'client' else tlsmsg.ClientHello
                patch = _ClassPatch(cls, 'parse', _raiser(probe, exc_name, sf))
            elif depth == 'direct':
                if version == 13:
                    rl.calcTLS1_3PendingState = _raiser(probe, exc_name, sf)
                else:
                    rl.calcPendingStates = _raiser(probe, exc_name, sf)
            elif depth == 'checker':
                checker = _raiser(probe, exc_name, sf)
            elif depth == 'reconly':
                # the first handshake record cannot be sent; _sendMsgThroughSocket then
                # looks for an alert with _getNextRecord, whose record read raises
                sock.fault = dict(kind='send', index=0, err=errno.EPIPE)
                rl.recvRecord = _raiser(probe, exc_name, sf, gen=True)
            else:
                raise ValueError(depth)
        elif how == 'genuine:bytes':
            scripted = case['bytes']
        elif how == 'genuine:sendfail-alert':
            # ClientHello cannot be sent, an alert is waiting in the receive buffer
            sock.fault = dict(kind='send', index=0, err=errno.EPIPE)
            scripted = case['bytes']
        elif how == 'genuine:tap':
            peer_sock.tap = case['tap']
        elif how == 'genuine:eof':
            scripted = b''
        elif how == 'genuine:anon-no-mutual-group':
            pass
        else:
            raise ValueError(how)
        if how == 'genuine:anon-no-mutual-group':
            # real client offering only ECDH_anon with a group the server does not accept:
            # AECDHKeyExchange.makeServerKeyExchange raises TLSInsufficientSecurity
            # (keyexchange.py "No mutual groups") inside _serverAnonKeyExchange, which now
            # answers with _sendError(insufficient_security) (1b729e0)
            if under != 'server':
                raise ValueError('server under test')
            cset = settings(minv=(3, 3), maxv=(3, 3), eccCurves=['secp521r1'], keyShares=[],
                            keyExchangeNames=['ecdh_anon'])
            sset = settings(minv=(3, 3), maxv=(3, 3), eccCurves=['secp256r1'], keyShares=[],
                            keyExchangeNames=['ecdh_anon'])
            gens = [p.server.handshakeServerAsync(anon=True, settings=sset),
                    p.client.handshakeClientAnonymous(async_=True, settings=cset)]
        elif scripted is not None:
            sock.inbuf += scripted
            if how == 'genuine:eof':
                sock.peer_closed = True
            st = dict(minv=(3, 3), maxv=(3, 4) if version == 13 else (3, 3))
            if under == 'client':
                gens = [conn.handshakeClientCert(async_=True, settings=settings(**st))]
            else:
                chain, key = creds('rsa')
                gens = [conn.handshakeServerAsync(certChain=chain, privateKey=key,
                                                  settings=settings(**st))]
        else:
            g0, g1 = _hs_gens(p, under, version, checker=checker)
            gens = [g0, g1]
        if how != 'patch':
            probe.snap()
            if how not in ('genuine:sendfail-alert',):
                arm_sf_later = sf
            else:
                arm_sf_later = False
            if arm_sf_later:
                # fail the first send after the ClientHello flight
                sock.fault = dict(kind='send', index=case.get('sf_index', 1), err=errno.EPIPE)
        with patch:
            res = drive(gens)
        if how != 'patch' and probe.recv_buffering is not None:
            # genuine events arrive through a record read: the state of the write-buffering
            # flag at that read is the one of the event (TLS <= 1.2 client: True between
            # ServerHello and its own Finished)
            probe.buffering = probe.recv_buffering

    # ---------------------------------------------------------------- read
    elif layer == 'read':
        p, conn, sock, peer, peer_sock = _established(seed, version, under)
        configure(conn)
        probe = Probe(conn, sock)
        rl = conn._recordLayer
        if how == 'patch':
            if depth == 'record':
                rl.recvRecord = _raiser(probe, exc_name, sf, gen=True)
            elif depth == 'parser':
                _run_to_end(peer.writeAsync(b'hello'))
                patch = _ClassPatch(tlsmsg.ApplicationData, 'parse',
                                    _raiser(probe, exc_name, sf))
            elif depth == 'direct':
                if version != 13:
                    raise ValueError('read/direct needs TLS 1.3 (KeyUpdate)')
                _run_to_end(peer.send_keyupdate_request(
                    tlsconst.KeyUpdateMessageType.update_not_requested))
                rl.calcTLS1_3KeyUpdate_sender = _raiser(probe, exc_name, sf)
            else:
                raise ValueError(depth)
        elif how == 'genuine:peer-alert':
            _run_to_end(peer._sendMsg(tlsmsg.Alert().create(a2, a1)))
        elif how == 'genuine:peer-ccs':
            _run_to_end(peer._sendMsg(tlsmsg.ChangeCipherSpec()))
        elif how == 'genuine:badmac':
            _run_to_end(peer.writeAsync(b'hello'))
            sock.inbuf[-1] ^= 1
        elif how == 'genuine:overflow':
            sock.inbuf += bytes(bytearray([23, 3, 3, 0xff, 0xff]))
        elif how == 'genuine:empty-record':
            sock.inbuf += bytes(bytearray([22, 3, 3, 0, 0]))
        elif how == 'genuine:eof':
            sock.peer_closed = True
        elif how == 'genuine:reset':
            sock.fault = dict(kind='recv', index=sock.n_recv, err=errno.ECONNRESET)
            sock.faulted = False
        else:
            raise ValueError(how)
        if how != 'patch':
            probe.snap()
            arm_sf(probe)
        with patch:
            res = drive([conn.readAsync(max=100, min=1)])

    # ---------------------------------------------------------------- write
    elif layer == 'write':
        p, conn, sock, peer, peer_sock = _established(seed, version, under)
        configure(conn)
        probe = Probe(conn, sock)
        rl = conn._recordLayer
        if how == 'patch':
            rl.sendRecord = _raiser(probe, exc_name, False, gen=True)
        elif how == 'genuine:sendfail':
            probe.snap()
            sock.fault = dict(kind='send', index=sock.n_send, err=errno.EPIPE)
            sock.faulted = False
        elif how == 'genuine:closed':
            _run_to_end(conn.closeAsync())
            probe.snap()
        else:
            raise ValueError(how)
        res = drive([conn.writeAsync(b'some data')])

    # ---------------------------------------------------------------- close
    elif layer == 'close':
        p, conn, sock, peer, peer_sock = _established(seed, version, under)
        configure(conn)
        probe = Probe(conn, sock)
        rl = conn._recordLayer
        if how == 'patch':
            if depth == 'direct':
                rl.sendRecord = _raiser(probe, exc_name, False, gen=True)
            elif depth == 'record':
                rl.recvRecord = _raiser(probe, exc_name, sf, gen=True)
            elif depth == 'parser':
                _run_to_end(peer._sendMsg(tlsmsg.Alert().create(
                    AlertDescription.close_notify, AlertLevel.warning)))
                patch = _ClassPatch(tlsmsg.Alert, 'parse', _raiser(probe, exc_name, sf))
            else:
                raise ValueError(depth)
        elif how == 'genuine:sendfail':
            probe.snap()
            sock.fault = dict(kind='send', index=sock.n_send, err=errno.EPIPE)
            sock.faulted = False
        elif how == 'genuine:peer-alert':
            _run_to_end(peer._sendMsg(tlsmsg.Alert().create(a2, a1)))
            probe.snap()
        elif how == 'genuine:eof':
            sock.peer_closed = True
            probe.snap()
        elif how == 'genuine:closed':
            _run_to_end(conn.closeAsync())
            probe.snap()
        else:
            raise ValueError(how)
        probe.snap()            # the close_notify sent by _decrefAsync is part of the trace
        with patch:
            res = drive([conn.closeAsync()])
    else:
        raise ValueError(layer)

    if case.get('expect_buffering') is not None and \
            bool(case['expect_buffering']) != bool(probe.buffering):
        raise RuntimeError('case expected write-buffering mode %r at the event: %r'
                           % (case['expect_buffering'], case_key(case)))
    kindr, e = res[0]
    if probe.init is None or (how == 'patch' and not probe.fired):
        raise RuntimeError('the injected event never happened: %r -> %r' % (case, res))
    if kindr == 'ok':
        code, descr = FINAL_DONE, None
    else:
        if isinstance(e, Stuck):
            raise RuntimeError('endpoint stuck: %r' % (case,))
        code = class_code(e)
        descr = getattr(e, 'description', None)
        descr = int(descr) if isinstance(descr, int) else None
    return dict(init=probe.init, fault=probe.fault, buffering=probe.buffering,
                final_code=code, descr=descr,
                final=probe.final(), trace=list(probe.events),
                final_buffering=bool(conn.sock.buffer_writes), queued=list(probe.pending),
                queue_bytes=sum(len(x) for x in conn.sock._write_queue),
                exc=None if kindr == 'ok' else repr(e)[:200])


# --------------------------------------------------------------------------------------------
def observe(layer, depth, exc_name, seed=0, **opts):
    """`ARaise exc_name` by patching a callee (see module doc), default configuration.
    Returns (final_class_code, last fatal alert written or None, closed, resumable) -- the
    tuple computed by `predict` in the model (resumable is False when there is no session,
    as in the model's init_state for the handshake)."""
    case = dict(layer=layer, depth=depth, action=raise_action(exc_name), sf=False, how='patch')
    if layer == 'read' and depth == 'direct':
        case['version'] = 13
    if layer == 'close':
        case['close_socket'] = False      # as in the model's init_state for the close layer
    case.update(opts)
    o = observe_case(case, seed)
    fatal = [d for (l, d) in o['trace'] if l == AlertLevel.fatal]
    closed, _, has_sess, resum = o['final']
    return (o['final_code'], fatal[-1] if fatal else None, closed, resum if has_sess else False)


# --------------------------------------------------------------------------------------------
# case generation
INJECT_CLASSES_QUICK = [
    'AttributeError', 'AssertionError', 'IndexError', 'KeyError', 'TypeError', 'ValueError',
    'SyntaxError', 'DecodeError', 'BadCertificateError', 'SockError', 'StopIteration',
    'TLSIllegalParameterException', 'TLSDecodeError', 'TLSUnexpectedMessage',
    'TLSRecordOverflow', 'TLSDecryptionFailed', 'TLSBadRecordMAC', 'TLSAbruptCloseError',
    'TLSClosedConnectionError', 'TLSInternalError', 'TLSHandshakeFailure',
    'TLSInsufficientSecurity', 'TLSRemoteAlert', 'TLSValidationError', 'GeneratorExit',
    'KeyboardInterrupt', 'InvalidSignature',
]

FEASIBLE_PATCH = {
    'handshake': ['record', 'parser', 'direct', 'checker', 'reconly'],
    'read': ['record', 'parser', 'direct'],
    'write': ['direct'],
    'close': ['record', 'parser', 'direct'],
}


# Outside the model (its stated assumption is "sock.close() does not raise"): the TLS 1.2
# client is between two flights with handshake records queued in BufferedSocket
# (buffer_writes) when a callee raises and the transport is broken.  _shutdown() sets
# closed, then BufferedSocket.close() flushes first, the flush raises socket.error out of
# _shutdown: the real socket is never closed, session.resumable is not cleared, and the
# socket.error replaces the original exception.  observe_case(FLUSH_FAILURE_CASE) shows
# final_code = SockError, sock_closed False, empty trace.
FLUSH_FAILURE_CASE = dict(layer='handshake', depth='direct', action=('raise', 11, -1), sf=True,
                          how='patch', version=12)


def _server_hello_bytes(cipher_suite, version=(3, 3)):
    sh = tlsmsg.ServerHello().create(version, bytearray(32), bytearray(0), cipher_suite)
    body = sh.write()
    return bytes(bytearray([22, 3, 3, len(body) >> 8, len(body) & 255]) + body)


def tap_zero_key_share(name, chunk):
    """On-path modification of the server's first flight: the key_exchange of the ServerHello
    key_share extension is replaced by zero bytes (an invalid point / share)."""
    from tlslite.utils.codec import Parser
    chunk = bytes(chunk)
    if len(chunk) > 6 and chunk[0] == 22 and chunk[5] == 2:
        n = (chunk[3] << 8) | chunk[4]
        sh = tlsmsg.ServerHello().parse(Parser(bytearray(chunk[6:5 + n])))
        ks = sh.getExtension(tlsconst.ExtensionType.key_share)
        if ks is not None and ks.server_share is not None:
            ke = bytes(ks.server_share.key_exchange)
            return chunk.replace(ke, bytes(len(ke)))
    return chunk


def tap_after_server_hello(replacement, name, chunk):
    """On-path: everything the server sends after its ServerHello record in the first flight is
    replaced by `replacement` (use functools.partial to bind it)."""
    chunk = bytes(chunk)
    if len(chunk) > 6 and chunk[0] == 22 and chunk[5] == 2:
        n = (chunk[3] << 8) | chunk[4]
        return chunk[:5 + n] + replacement
    return chunk


BAD_CERTIFICATE_RECORD = bytes(bytearray([22, 3, 3, 0, 5, 11, 0, 0, 1, 0]))   # Certificate, 1 byte
EARLY_SHD_RECORD = bytes(bytearray([22, 3, 3, 0, 4, 14, 0, 0, 0]))           # ServerHelloDone
PEER_ALERT_LEVELS = (0, 1, 2, 3, 255)


def genuine_cases():
    """Cases where the peer / transport really misbehaves (no patch at all)."""
    A = AlertDescription
    out = []

    def add(layer, depth, action, how, **kw):
        d = dict(layer=layer, depth=depth, action=action, sf=kw.pop('sf', False), how=how)
        d.update(kw)
        out.append(d)
    # --- handshake, client under test, scripted peer
    shd = bytes(bytearray([22, 3, 3, 0, 4, 14, 0, 0, 0]))          # ServerHelloDone first
    add('handshake', 'parser', ('senderror', A.unexpected_message, 0), 'genuine:bytes', bytes=shd)
    add('handshake', 'parser', ('senderror', A.unexpected_message, 0), 'genuine:bytes', bytes=shd,
        sf=True)
    add('handshake', 'record', ('senderror', A.unexpected_message, 0), 'genuine:bytes',
        bytes=bytes(bytearray([22, 3, 3, 0, 0])))                   # empty handshake record
    add('handshake', 'record', ('senderror', A.unexpected_message, 0), 'genuine:bytes',
        bytes=bytes(bytearray([22, 3, 3, 0, 0])), version=13)
    trunc = bytes(bytearray([22, 3, 3, 0, 6, 2, 0, 0, 2, 3, 3]))    # ServerHello of 2 bytes
    add('handshake', 'parser', raise_action('DecodeError'), 'genuine:bytes',
        bytes=trunc)
    add('handshake', 'parser', raise_action('DecodeError'), 'genuine:bytes',
        bytes=trunc, sf=True)
    add('handshake', 'parser', raise_action('DecodeError'), 'genuine:bytes',
        bytes=trunc, fault=Fault.badA)                              # fault set, alert not listed
    add('handshake', 'record', raise_action('TLSRecordOverflow'), 'genuine:bytes',
        bytes=bytes(bytearray([22, 3, 3, 0xff, 0xff])))
    add('handshake', 'record', raise_action('TLSAbruptCloseError'), 'genuine:eof')
    # SSLv2-framed record with padding > length: RecordHeader2 check (recordlayer.py 186)
    add('handshake', 'record', raise_action('TLSIllegalParameterException'),
        'genuine:bytes', bytes=bytes(bytearray([0x00, 0x01, 0x05])))
    add('handshake', 'direct', ('senderror', A.illegal_parameter, 0), 'genuine:bytes',
        bytes=_server_hello_bytes(0x00ff))                          # suite that was not offered
    for lv, ds in ((2, A.handshake_failure), (1, A.user_canceled), (1, A.close_notify),
                   (2, A.close_notify)):
        add('handshake', 'parser', ('peeralert', lv, ds), 'genuine:bytes',
            bytes=_alert_record(lv, ds))
    add('handshake', 'parser', ('peeralert', 1, A.user_canceled), 'genuine:bytes',
        bytes=_alert_record(1, A.user_canceled), sf=True)
    add('handshake', 'reconly', ('shutraise', A.handshake_failure, 0), 'genuine:sendfail-alert',
        bytes=_alert_record(2, A.handshake_failure))
    # ClientHello cannot be sent and the pending record is NOT an alert: since 0ab9df1
    # _sendMsgThroughSocket shuts down and re-raises the socket error
    add('handshake', 'reconly', ('shutraisesock', 0, 0), 'genuine:sendfail-alert', bytes=shd)
    # a real server whose ServerHello key share was replaced by zeros: the TLS 1.3 client
    # raises TLSIllegalParameterException from kex.calc_shared_key (tlsconnection.py 1296)
    # directly in the handshake body -> no alert (wrapper_no_alert_for_direct_raise)
    add('handshake', 'direct', raise_action('TLSIllegalParameterException'), 'genuine:tap',
        tap=tap_zero_key_share, version=13)
    # anonymous ECDH without a mutual group (server under test): used to be a residue class
    # escaping without alert; since 1b729e0 _serverAnonKeyExchange converts it locally with
    # _sendError(insufficient_security) in the handshake body
    add('handshake', 'direct', ('senderror', A.insufficient_security, 0),
        'genuine:anon-no-mutual-group', under='server')
    # received alerts of every level (the code treats everything that is not a warning like a
    # fatal alert), client and server under test, TLS 1.2 and 1.3 hello
    for lv in PEER_ALERT_LEVELS:
        for ds in (A.handshake_failure, A.user_canceled, A.close_notify):
            for ver in (12, 13):
                add('handshake', 'parser', ('peeralert', lv, ds), 'genuine:bytes',
                    bytes=_alert_record(lv, ds), version=ver)
            add('handshake', 'parser', ('peeralert', lv, ds), 'genuine:bytes',
                bytes=_alert_record(lv, ds), version=12, under='server')
        add('handshake', 'parser', ('peeralert', lv, A.internal_error), 'genuine:bytes',
            bytes=_alert_record(lv, A.internal_error), version=13, under='server',
            close_socket=False)
    # write-buffering mode: the TLS 1.2 client has sock.buffer_writes = True while it reads
    # Certificate / ServerKeyExchange / ServerHelloDone.  _sendError must flush, switch the
    # buffering off and WRITE the alert (with closeSocket = False nothing else would ever
    # flush it); the close_notify reply to a warning alert is only queued there.
    import functools
    for cs in (False, True):
        add('handshake', 'parser', raise_action('DecodeError'), 'genuine:tap', version=12,
            tap=functools.partial(tap_after_server_hello, BAD_CERTIFICATE_RECORD),
            close_socket=cs, expect_buffering=True)
        add('handshake', 'parser', ('senderror', A.unexpected_message, 0), 'genuine:tap',
            version=12, tap=functools.partial(tap_after_server_hello, EARLY_SHD_RECORD),
            close_socket=cs, expect_buffering=True)
        add('handshake', 'record', ('senderror', A.unexpected_message, 0), 'genuine:tap',
            version=12, close_socket=cs, expect_buffering=True,
            tap=functools.partial(tap_after_server_hello, bytes(bytearray([22, 3, 3, 0, 0]))))
        add('handshake', 'record', raise_action('TLSRecordOverflow'), 'genuine:tap',
            version=12, close_socket=cs, expect_buffering=True,
            tap=functools.partial(tap_after_server_hello,
                                  bytes(bytearray([22, 3, 3, 0xff, 0xff]))))
        for lv, ds in ((1, A.user_canceled), (2, A.handshake_failure), (0, A.handshake_failure),
                       (255, A.internal_error), (1, A.close_notify), (3, A.close_notify)):
            add('handshake', 'parser', ('peeralert', lv, ds), 'genuine:tap', version=12,
                tap=functools.partial(tap_after_server_hello, _alert_record(lv, ds)),
                close_socket=cs, expect_buffering=True)
    # --- read
    for lv in PEER_ALERT_LEVELS:
        for ds in (A.internal_error, A.user_canceled, A.close_notify):
            add('read', 'parser', ('peeralert', lv, ds), 'genuine:peer-alert',
                version=12 if lv % 2 else 13, under='server' if lv in (0, 1) else 'client')
            add('close', 'parser', ('peeralert', lv, ds), 'genuine:peer-alert',
                close_socket=False, version=13 if lv % 2 else 12)
        add('read', 'parser', ('peeralert', lv, A.handshake_failure), 'genuine:peer-alert',
            version=12, close_socket=False)
    for ver in (12, 13):
        add('read', 'record', raise_action('TLSBadRecordMAC'), 'genuine:badmac',
            version=ver)
        add('read', 'record', raise_action('TLSRecordOverflow'), 'genuine:overflow',
            version=ver)
        add('read', 'record', raise_action('TLSAbruptCloseError'), 'genuine:eof',
            version=ver)
        add('read', 'record', raise_action('TLSAbruptCloseError'), 'genuine:eof',
            version=ver, ignore_abrupt=True)
        add('read', 'record', raise_action('SockError'), 'genuine:reset',
            version=ver)
        for lv, ds in ((2, A.internal_error), (1, A.user_canceled), (1, A.close_notify)):
            add('read', 'parser', ('peeralert', lv, ds), 'genuine:peer-alert', version=ver)
        add('read', 'parser', ('peeralert', 1, A.user_canceled), 'genuine:peer-alert',
            version=ver, sf=True)
    add('read', 'record', raise_action('TLSBadRecordMAC'), 'genuine:badmac', sf=True)
    add('read', 'record', raise_action('TLSBadRecordMAC'), 'genuine:badmac',
        under='server')
    add('read', 'parser', ('senderror', A.unexpected_message, 0), 'genuine:peer-ccs', version=12)
    # --- write
    add('write', 'direct', raise_action('SockError'), 'genuine:sendfail')
    add('write', 'direct', raise_action('SockError'), 'genuine:sendfail',
        ignore_abrupt=True)
    # write() on a closed connection: since the upstream fix the test is before writeAsync's try
    add('write', 'pretry', raise_action('TLSClosedConnectionError'), 'genuine:closed')
    # --- close
    add('close', 'direct', raise_action('SockError'), 'genuine:sendfail')
    add('close', 'direct', raise_action('SockError'), 'genuine:closed')
    for lv, ds in ((1, A.close_notify), (2, A.internal_error), (1, A.user_canceled)):
        add('close', 'parser', ('peeralert', lv, ds), 'genuine:peer-alert', close_socket=False)
    add('close', 'record', raise_action('TLSAbruptCloseError'), 'genuine:eof',
        close_socket=False)
    return out


def patch_cases(rng, quick=True):
    out = []
    names = list(INJECT_CLASSES_QUICK) if quick else sorted(CLASS_CODES, key=CLASS_CODES.get)
    for layer, depths in sorted(FEASIBLE_PATCH.items()):
        for depth in depths:
            for name in names:
                base = dict(layer=layer, depth=depth, action=raise_action(name),
                            sf=False, how='patch')
                variants = [dict()]
                if layer == 'handshake':
                    variants = [dict(version=12), dict(version=13)]
                    if depth in ('record', 'parser', 'direct'):
                        variants.append(dict(version=rng.choice((12, 13)), under='server'))
                    # a failing alert send; at direct / checker / reconly it exercises the
                    # _sendError of the wrapper's own except clauses (no _shutdown after it)
                    # (not at depth direct with TLS 1.2: there the injection point has queued
                    # handshake writes, see FLUSH_FAILURE_CASE)
                    if depth != 'direct':
                        variants.append(dict(version=12, sf=True))
                    if depth in ('direct', 'checker'):
                        variants.append(dict(version=13, sf=True))
                    if depth in ('direct', 'checker') and name in (
                            'TLSIllegalParameterException', 'TLSDecodeError',
                            'TLSDecryptionFailed', 'AttributeError'):
                        # fault-testing mode does not apply to the wrapper's own alerts
                        variants.append(dict(version=12, fault=Fault.badA))
                    if depth == 'parser' and name in ('TLSIllegalParameterException', 'DecodeError',
                                                      'AttributeError', 'TLSRemoteAlert'):
                        variants.append(dict(version=12, fault=Fault.badA))
                elif layer == 'read':
                    variants = [dict(version=13)] if depth == 'direct' else \
                        [dict(version=12), dict(version=13), dict(version=12, ignore_abrupt=True)]
                    if depth in ('record', 'parser'):
                        variants.append(dict(version=12, sf=True))
                elif layer == 'write':
                    variants = [dict(version=12), dict(version=13, ignore_abrupt=True)]
                elif layer == 'close':
                    if depth == 'direct':
                        variants = [dict(version=12), dict(version=13, close_socket=False)]
                    else:
                        variants = [dict(version=12, close_socket=False),
                                    dict(version=13, close_socket=False, sf=True)]
                for v in variants:
                    c = dict(base)
                    c.update(v)
                    out.append(c)
    return out


def cases(rng=None, quick=True):
    """Full list of case dicts (genuine first).  `simple_cases` gives the (layer, depth,
    exc_name) triples usable with observe()/predict."""
    rng = rng or random.Random(0)
    return genuine_cases() + patch_cases(rng, quick)


def simple_cases(rng=None, quick=True):
    names = list(INJECT_CLASSES_QUICK) if quick else sorted(CLASS_CODES, key=CLASS_CODES.get)
    return [(l, d, n) for l, ds in sorted(FEASIBLE_PATCH.items()) for d in ds for n in names
            if not (d in ('checker', 'reconly'))]


# --------------------------------------------------------------------------------------------
# Gallina literals
PREAMBLE = ''
IMPORTS = ['Model.C08_Funnel']
CASE_TYPE = 'fcase'
CHECK_FN = 'chk_funnel'


def lit(case, obs):
    """Literal of type C08_Funnel.fcase for chk_funnel."""
    z, b = vlib.zlit, vlib.boollit
    kind, a1, a2 = case['action']
    i = obs['init']
    f = obs['final']
    inp = '((%s, %s), (%s, %s, %s), %s, (%s, %s, %s, %s, %s, %s), %s, %s)' % (
        z(LAYER_CODES[case['layer']]), z(DEPTH_CODES[case['depth']]),
        z(ACTION_CODES[kind]), z(a1), z(a2), b(case.get('sf', False)),
        b(i[0]), b(i[1]), b(i[2]), b(i[3]), b(i[4]), b(i[5]),
        vlib.optlit(obs['fault'], lambda l: vlib.listlit(l, z)), b(obs['buffering']))
    evl = lambda e: '(%s, %s)' % (z(e[0]), z(e[1]))
    out = '(%s, %s, (%s, %s, %s, %s), %s, (%s, %s))' % (
        z(obs['final_code']), vlib.optlit(obs['descr'], z),
        b(f[0]), b(f[1]), b(f[2]), b(f[3]),
        vlib.listlit(obs['trace'], evl),
        b(obs['final_buffering']), vlib.listlit(obs['queued'], evl))
    return '(%s, %s)' % (inp, out)


def predict_expr(layer, depth, exc_name):
    return 'predict %d %d %d' % (LAYER_CODES[layer], DEPTH_CODES[depth], CLASS_CODES[exc_name])


def predict_lit(triple, observed):
    """Literal for chk_predict: triple = (layer, depth, exc_name), observed = observe(...)."""
    l, d, n = triple
    fc, al, cl, rs = observed
    return '((%d, %d, %d), (%s, %s, %s, %s))' % (
        LAYER_CODES[l], DEPTH_CODES[d], CLASS_CODES[n], vlib.zlit(fc),
        vlib.optlit(al, vlib.zlit), vlib.boollit(cl), vlib.boollit(rs))


PREDICT_CASE_TYPE = '(Z * Z * Z) * (Z * option Z * bool * bool)'
PREDICT_CHECK_FN = 'chk_predict'


def subclass_lits():
    """All pairs (a, b, issubclass(a, b)) for chk_subclass."""
    names = sorted(CLASS_CODES, key=CLASS_CODES.get)
    return ['(%d, %d, %s)' % (CLASS_CODES[a], CLASS_CODES[b],
                              vlib.boollit(issubclass(CLASS_OF[a], CLASS_OF[b])))
            for a in names for b in names]


def const_lits():
    return ['(%d, %d)' % (i, int(v)) for i, v in enumerate(ALERT_CONSTS)]


def case_key(case):
    """Stable identification of a case for evidence / violations."""
    kind, a1, a2 = case['action']
    what = NAME_OF_CODE.get(a1, a1) if kind == 'raise' else '%s:%s:%s' % (kind, a1, a2)
    extra = ','.join('%s=%s' % (k, case[k]) for k in sorted(case)
                     if k in ('under', 'version', 'ignore_abrupt', 'close_socket', 'fault')
                     and case[k] not in (None, False))
    return '%s/%s/%s/%s%s/%s' % (case['layer'], case['depth'], what, case.get('how', 'patch'),
                                 '+sf' if case.get('sf') else '', extra)


def _observe_job(args):
    c, seed = args
    try:
        return observe_case(c, seed), None
    except Exception as e:  # noqa
        return None, '%s: %r' % (case_key(c), e)


def run_cases(case_list, seed=0, procs=0):
    """Observe all cases (in `procs` worker processes when > 1); returns
    (lits, observations, errors[(index, message)]).  Case k uses seed + k."""
    jobs = [(c, seed + k) for k, c in enumerate(case_list)]
    if procs and procs > 1:
        import multiprocessing
        with multiprocessing.Pool(procs) as pool:
            results = pool.map(_observe_job, jobs, chunksize=8)
    else:
        results = [_observe_job(j) for j in jobs]
    lits, obss, errs = [], [], []
    for k, (o, err) in enumerate(results):
        if err is not None:
            errs.append((k, err))
        obss.append(o)
        lits.append(lit(case_list[k], o) if o is not None else None)
    return lits, obss, errs


def compare(case_list, seed=0, tag='C08f', procs=0):
    """Convenience: observe, evaluate chk_funnel in Coq; returns
    (bad case indices, observations, observation errors, coq errors)."""
    lits, obss, errs = run_cases(case_list, seed, procs)
    idx = [k for k, l in enumerate(lits) if l is not None]
    bad, cerrs = vlib.coq_bad_indices(tag, IMPORTS, CASE_TYPE, CHECK_FN, [lits[k] for k in idx],
                                      preamble=PREAMBLE)
    return [idx[b] for b in bad], obss, errs, cerrs
