"""Toy primitives mirrored in coq/Toy/*.v (byte-exact correspondence without oracle tables)."""
TOY_P = (1 << 61) - 1


class ToyMac(object):
    """Duck-typed hashlib/hmac object: copy/update/digest/digest_size/block_size."""

    def __init__(self, key, digest_size, block_size=64, _h=None):
        self.key = bytes(key)
        self.digest_size = digest_size
        self.block_size = block_size
        self.name = 'toy%d' % digest_size
        if _h is None:
            h = 1
            for b in self.key:
                h = ((h << 5) ^ (h >> 2) ^ (b + 1)) & 0xFFFFF
            _h = h
        self._h = _h

    def copy(self):
        return ToyMac(self.key, self.digest_size, self.block_size, self._h)

    def update(self, data):
        h = self._h
        for b in bytearray(data):
            h = ((h << 5) ^ (h >> 2) ^ (b + 1)) & 0xFFFFF
        self._h = h

    def digest(self):
        h = self._h
        return bytes(((h >> (k & 7)) + 31 * k + h) & 255 for k in range(self.digest_size))
