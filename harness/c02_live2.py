"""C02 live scenarios that need their own set-up: TLS 1.3 KeyUpdate epochs (with an independent
HKDF chain) and attacker records injected DURING the handshake, before every record of either
flight (so in particular at every key-change boundary)."""
import hashlib
import hmac


def hkdf_expand_label(secret, label, context, length, hname):
    """RFC 8446 7.1, written from the RFC with the standard library only."""
    full = b'tls13 ' + label
    info = length.to_bytes(2, 'big') + bytes([len(full)]) + full + bytes([len(context)]) + context
    out, t, i = b'', b'', 1
    while len(out) < length:
        t = hmac.new(bytes(secret), t + info + bytes([i]), getattr(hashlib, hname)).digest()
        out += t
        i += 1
    return out[:length]


def split_records(buf):
    out, i = [], 0
    while i + 5 <= len(buf):
        n = (buf[i + 3] << 8) | buf[i + 4]
        out.append(bytes(buf[i:i + 5 + n]))
        i += 5 + n
    return out, i == len(buf)


def _pair(ver, cipher, mac, etm, seed):
    import loop
    rnd = loop.DetRandom(seed).install()
    try:
        for kx in ('rsa', 'ecdhe_rsa'):
            p = loop.Pair()
            kw = dict(minv=ver, maxv=ver, cipherNames=[cipher], macNames=[mac], useEncryptThenMAC=etm)
            cs, ss = loop.settings(**kw), loop.settings(**kw)
            if ver < (3, 4):
                cs.keyExchangeNames = [kx]
                ss.keyExchangeNames = [kx]
            yield p, cs, ss
            if ver >= (3, 4):
                break
    finally:
        rnd.uninstall()


def _read_all(loop, ep, want):
    """read until `want` bytes, b'' or an exception; returns (bytes, outcome)"""
    got = bytearray()
    for _ in range(12):
        r = loop.drive([(x for x in ep.readAsync(4096, 1))], max_steps=6000)[0]
        if r[0] == 'exc':
            return bytes(got), r[1]
        if not r[1]:
            return bytes(got), 'eof'
        got += r[1]
        if len(got) >= want:
            break
    return bytes(got), None


# ------------------------------------------------------------------------------------------
def keyupdate_case(args):
    """args = (cipher, seed, variant).  Two consecutive KeyUpdates per direction."""
    cipher, seed, variant = args
    import loop
    from tlslite import errors as E
    from tlslite.constants import CipherSuite
    res = dict(args=args, viol=[])
    p = None
    for p, cs, ss in _pair((3, 4), cipher, 'aead', False, seed):
        chain, key = loop.creds('rsa')
        co, so = p.handshake(client_kw=dict(settings=cs), server_kw=dict(certChain=chain, privateKey=key, settings=ss))
        if loop.classify(co) != ('ok',) or loop.classify(so) != ('ok',):
            res['skip'] = True
            return res
    c, s = p.client, p.server
    hname = 'sha384' if c.session.cipherSuite in CipherSuite.sha384PrfSuites else 'sha256'
    hlen = 48 if hname == 'sha384' else 32
    # ---- the chain of traffic secrets, independently (RFC 8446 7.2)
    exp = {'c': [bytes(c.session.cl_app_secret)], 's': [bytes(c.session.sr_app_secret)]}
    for d in 'cs':
        for _ in range(3):
            exp[d].append(hkdf_expand_label(exp[d][-1], b'traffic upd', b'', hlen, hname))
    held = bytearray()
    p.csock.tap = lambda name, chunk: (held.extend(chunk), b'')[1]
    msgs = [b'record A of epoch 1', b'record B of epoch 2', b'record C of epoch 3']
    ivs = []
    for i, m in enumerate(msgs):
        loop.drive([c.send_keyupdate_request(0)])
        ivs.append(bytes(c._recordLayer._writeState.fixedNonce))
        want_secret = exp['c'][i + 1]
        if bytes(c.session.cl_app_secret) != want_secret:
            res['viol'].append(('keyupdate-chain', 'after KeyUpdate #%d the client traffic secret is not '
                                'HKDF-Expand-Label(previous, "traffic upd")' % (i + 1)))
        if ivs[-1] != hkdf_expand_label(want_secret, b'iv', b'', 12, hname):
            res['viol'].append(('keyupdate-chain', 'after KeyUpdate #%d the write IV is not derived from generation %d' % (i + 1, i + 1)))
        loop.drive([c.writeAsync(m)])
    if len(set(ivs)) != len(ivs):
        res['viol'].append(('keyupdate-epochs-equal', 'two key epochs of one direction have the same IV'))
    p.csock.tap = None
    recs, _ = split_records(bytes(held))          # KU1, A, KU2, B, KU3, C
    if len(recs) != 6:
        res['skip'] = True
        return res
    if variant == 'honest':
        feed, want = recs, b''.join(msgs)
    elif variant == 'replay-prev':                # B replaced by A (same sequence number, previous epoch)
        feed, want = recs[:3] + [recs[1]], msgs[0]
    elif variant == 'replay-first-in-third':
        feed, want = recs[:5] + [recs[1]], msgs[0] + msgs[1]
    elif variant == 'skip-keyupdate':             # B delivered although KeyUpdate #2 was dropped
        feed, want = recs[:2] + [recs[3]], msgs[0]
    else:
        raise ValueError(variant)
    p.ssock.inbuf += b''.join(feed)
    got, outcome = _read_all(loop, s, len(b''.join(msgs)) + 1 if variant != 'honest' else len(want))
    res.update(got=got.hex(), outcome=type(outcome).__name__ if isinstance(outcome, Exception) else outcome)
    if got != want:
        res['viol'].append(('accepted-not-next' if len(got) > len(want) or got != want[:len(got)] else 'honest-stream-broken',
                            'KeyUpdate %s: server delivered %d bytes, the peer\'s stream up to the forged record is %d bytes'
                            % (variant, len(got), len(want))))
    elif variant != 'honest':
        if not isinstance(outcome, E.TLSLocalAlert):
            res['viol'].append(('rejected-without-alert:%s' % res['outcome'], 'KeyUpdate %s: outcome %s' % (variant, res['outcome'])))
        elif not s.closed or (s.session and s.session.resumable):
            res['viol'].append(('not-closed', 'KeyUpdate %s: closed=%s' % (variant, s.closed)))
    # the other direction: server updates twice, the client must follow (honest only)
    if variant == 'honest' and not res['viol']:
        for i in range(2):
            loop.drive([s.send_keyupdate_request(0)])
            if bytes(s.session.sr_app_secret) != exp['s'][i + 1]:
                res['viol'].append(('keyupdate-chain', 'server KeyUpdate #%d: secret not the next of the chain' % (i + 1)))
            loop.drive([s.writeAsync(b'srv%d' % i)])
        g, o = _read_all(loop, c, 8)
        if g != b'srv0srv1':
            res['viol'].append(('honest-stream-broken', 'client could not follow two server KeyUpdates: %r %r' % (g, o)))
    return res


# ------------------------------------------------------------------------------------------
FRAGS = {'alert1': lambda v: bytes([21, v[0], v[1], 0, 1, 1]),            # half an alert message
         'hs1': lambda v: bytes([22, v[0], v[1], 0, 1, 20]),              # first byte of a handshake message
         'alert2': lambda v: bytes([21, v[0], v[1], 0, 2, 1, 0])}          # a whole plaintext warning alert


def inject_case(args):
    """args = (ver, cipher, mac, etm, seed, direction 'c'|'s', k, frag): the attacker inserts one plaintext
    record before the k-th record sent in `direction` during the handshake."""
    ver, cipher, mac, etm, seed, direction, k, frag = args
    import loop
    from tlslite import errors as E
    res = dict(args=args, viol=[])
    for p, cs, ss in _pair(ver, cipher, mac, etm, seed):
        chain, key = loop.creds('rsa')
        count = [0]
        injected = [False]
        wire_ver = (3, 3) if ver >= (3, 3) else ver

        def tap(name, chunk, count=count, injected=injected):
            recs, whole = split_records(chunk)
            if not whole:
                return chunk
            out = b''
            for r in recs:
                if count[0] == k and not injected[0]:
                    out += FRAGS[frag](wire_ver)
                    injected[0] = True
                count[0] += 1
                out += r
            return out
        (p.csock if direction == 'c' else p.ssock).tap = tap
        co, so = p.handshake(client_kw=dict(settings=cs), server_kw=dict(certChain=chain, privateKey=key, settings=ss), max_steps=40000)
        cc, sc = loop.classify(co), loop.classify(so)
        if not injected[0]:
            # the handshake has fewer than k+1 records in this direction (or this key exchange is not available)
            if cc == ('ok',) and sc == ('ok',):
                res['skip'] = 'no such record'
                return res
            continue
        (p.csock if direction == 'c' else p.ssock).tap = None
        res.update(client=cc, server=sc, nrec=count[0])
        victim, vout = (p.server, sc) if direction == 'c' else (p.client, cc)
        if cc == ('ok',) and sc == ('ok',):
            # the injected bytes were swallowed: from now on everything yielded must be what the peer protected
            c, s = p.client, p.server
            loop.drive([c.writeAsync(b'ping from client')])
            g1, o1 = _read_all(loop, s, 16)
            loop.drive([s.writeAsync(b'pong from server')])
            g2, o2 = _read_all(loop, c, 16)
            first, second = (c, s) if direction == 'c' else (s, c)     # the injected side's peer closes first
            loop.drive([first.closeAsync()])
            g3, o3 = _read_all(loop, second, 1)
            res.update(post=[g1.hex(), repr(o1), g2.hex(), repr(o2), g3.hex(), repr(o3)])
            if g1 != b'ping from client' or g2 != b'pong from server' or o1 is not None or o2 is not None:
                res['viol'].append(('unprotected-bytes-survive', 'handshake completed despite the injected %s record and the data '
                                    'exchange then failed: %r %r' % (frag, o1, o2)))
            elif o3 != 'eof' or g3:
                res['viol'].append(('unprotected-bytes-survive', 'handshake completed despite the injected plaintext %s record; the peer\'s '
                                    'protected close_notify was then yielded as %r (an alert the peer never protected)' % (frag, o3)))
            elif frag != 'alert2':
                # complete and everything fine afterwards: the fragment was silently dropped at the key change
                res['viol'].append(('unprotected-record-ignored', 'a plaintext %s record the peer never sent was accepted silently' % frag))
        else:
            # must be a clean fatal rejection on the side that received the injected record
            if vout[0] == 'Deadlock':
                pass          # the fragment shifted the framing of the plaintext flight: the endpoint waits, nothing is accepted
            elif vout[0] not in ('LocalAlert', 'RemoteAlert'):
                res['viol'].append(('rejected-without-alert:%s' % (vout[0],), 'injected %s before record %d (%s->): %r / %r'
                                    % (frag, k, direction, cc, sc)))
        return res
    res['skip'] = 'no handshake'
    return res


# ------------------------------------------------------------------------------------------
def ku_history_case(args):
    """args = (cipher, seed, nops): a random history of KeyUpdates (requested / not requested, sent by either
    role, sequential or crossing) with data in both directions after each.  Checks, after every step:
    data is delivered exactly; at both ends the stored traffic secrets are the secrets of the installed
    keys (IV of the write/read state = HKDF-Expand-Label(stored secret, "iv")); and returns the generation
    numbers (position of each stored secret in the independent HKDF chain) for the model comparison."""
    import random
    cipher, seed, nops = args
    import loop
    from tlslite.constants import CipherSuite
    rng = random.Random(seed)
    res = dict(args=args, viol=[], ops=[], gens=None)
    p = None
    for p, cs, ss in _pair((3, 4), cipher, 'aead', False, seed):
        chain, key = loop.creds('rsa')
        co, so = p.handshake(client_kw=dict(settings=cs), server_kw=dict(certChain=chain, privateKey=key, settings=ss))
        if loop.classify(co) != ('ok',) or loop.classify(so) != ('ok',):
            res['skip'] = True
            return res
    ends = {'c': p.client, 's': p.server}
    c = p.client
    hname = 'sha384' if c.session.cipherSuite in CipherSuite.sha384PrfSuites else 'sha256'
    hlen = 48 if hname == 'sha384' else 32
    chain_ = {'c': [bytes(c.session.cl_app_secret)], 's': [bytes(c.session.sr_app_secret)]}
    for d in 'cs':
        for _ in range(2 * nops + 4):
            chain_[d].append(hkdf_expand_label(chain_[d][-1], b'traffic upd', b'', hlen, hname))
    counter = [0]

    def exchange(frm, to, step):
        counter[0] += 1
        m = b'marker-%03d-from-%s' % (counter[0], frm.encode())
        o = loop.drive([ends[frm].writeAsync(m)])[0]
        if o[0] != 'ok':
            res['viol'].append(('keyupdate-data-lost', 'step %d %r: write by %s failed: %r' % (step, res['ops'][-1], frm, loop.classify(o))))
            return False
        g, out = _read_all(loop, ends[to], len(m))
        if g != m:
            res['viol'].append(('keyupdate-data-lost', 'step %d %r: %s wrote %d bytes after the KeyUpdate(s), %s read %r (%s)'
                                % (step, res['ops'][-1], frm, len(m), to, g, type(out).__name__ if isinstance(out, Exception) else out)))
            return False
        return True

    def check_stored(step):
        for side in 'cs':
            e = ends[side]
            own = bytes(e.session.cl_app_secret if side == 'c' else e.session.sr_app_secret)
            peer = bytes(e.session.sr_app_secret if side == 'c' else e.session.cl_app_secret)
            if hkdf_expand_label(own, b'iv', b'', 12, hname) != bytes(e._recordLayer._writeState.fixedNonce):
                res['viol'].append(('keyupdate-stored-secret', 'step %d %r: %s stores an own-direction traffic secret that is not '
                                    'the secret of its installed write key' % (step, res['ops'][-1], side)))
            if hkdf_expand_label(peer, b'iv', b'', 12, hname) != bytes(e._recordLayer._readState.fixedNonce):
                res['viol'].append(('keyupdate-stored-secret', 'step %d %r: %s stores a peer-direction traffic secret that is not '
                                    'the secret of its installed read key' % (step, res['ops'][-1], side)))

    for step in range(nops):
        kind = rng.choice(['seq', 'seq', 'cross'])
        if kind == 'seq':
            x = rng.choice('cs')
            y = 's' if x == 'c' else 'c'
            req = rng.random() < 0.6
            res['ops'].append(('seq', x, req))
            loop.drive([ends[x].send_keyupdate_request(1 if req else 0)])
            ok = exchange(x, y, step) and exchange(y, x, step) and exchange(x, y, step)
        else:
            rc, rs = rng.random() < 0.5, rng.random() < 0.5
            res['ops'].append(('cross', rc, rs))
            loop.drive([ends['c'].send_keyupdate_request(1 if rc else 0)])
            loop.drive([ends['s'].send_keyupdate_request(1 if rs else 0)])
            ok = exchange('c', 's', step) and exchange('s', 'c', step) and exchange('c', 's', step) and exchange('s', 'c', step)
        if not ok:
            return res
        if not any(v[0] == 'keyupdate-stored-secret' for v in res['viol']):
            check_stored(step)        # (keep going: the stale secret shows as lost data at the next KeyUpdate)

    def gen(secret, d):
        s = bytes(secret)
        return chain_[d].index(s) if s in chain_[d] else -1
    cl, sv = p.client, p.server
    res['gens'] = [gen(cl.session.cl_app_secret, 'c'), gen(cl.session.sr_app_secret, 's'),
                   gen(sv.session.sr_app_secret, 's'), gen(sv.session.cl_app_secret, 'c')]
    return res


def ku_model_ops(ops):
    """The history as operations of the Coq model (A = client): list of Gallina ku_op terms."""
    out = []
    for o in ops:
        if o[0] == 'seq':
            _, x, req = o
            a = (x == 'c')
            out.append('KUSend %s %s' % ('true' if a else 'false', 'true' if req else 'false'))
            out.append('KURecv %s' % ('true' if a else 'false'))          # processed by the peer (B when A sent)
            if req:
                out.append('KURecv %s' % ('false' if a else 'true'))      # the answer, processed by the sender
        else:
            _, rc, rs = o
            out.append('KUSend true %s' % ('true' if rc else 'false'))
            out.append('KUSend false %s' % ('true' if rs else 'false'))
            out.append('KURecv true')
            out.append('KURecv false')
            if rc:
                out.append('KURecv false')
            if rs:
                out.append('KURecv true')
    return out


# ------------------------------------------------------------------------------------------
FLAVOURS = ('tls13', 'tls13-hrr', 'tls13-psk', 'tls13-ticket', 'tls12', 'tls12-etm-cbc', 'tls12-resume-id',
            'tls12-ticket', 'tls12-early', 'tls10')
HRR_RANDOM = bytes.fromhex('cf21ad74e59a6111be1d8c021e65b891c2a211167abb8c5e079e09e2c8a8339c')
PLAIN_RECORDS = {
    'ccs': bytes([20, 3, 3, 0, 1, 1]),
    'alert-warning': bytes([21, 3, 3, 0, 2, 1, 0]),
    'alert-fatal': bytes([21, 3, 3, 0, 2, 2, 40]),
    'appdata': bytes([23, 3, 3, 0, 5]) + b'hello',
    'handshake': bytes([22, 3, 3, 0, 4, 0, 0, 0, 0]),
    'heartbeat': bytes([24, 3, 3, 0, 3, 1, 0, 0]),
}


def _flavour_pair(flavour, seed):
    """Complete a handshake of the given flavour; returns the Pair or None (flavour not available)."""
    import loop
    from tlslite.api import SessionCache
    from tlslite.constants import ExtensionType
    from tlslite.extensions import TLSExtension
    from tlslite.messages import ClientHello
    rnd = loop.DetRandom(seed).install()
    try:
        chain, key = loop.creds('rsa')
        t13 = flavour.startswith('tls13')
        ver = (3, 4) if t13 else ((3, 1) if flavour == 'tls10' else (3, 3))
        cipher, mac = ('aes128gcm', 'aead') if ver >= (3, 3) and flavour != 'tls12-etm-cbc' else ('aes128', 'sha')
        cache = SessionCache() if flavour == 'tls12-resume-id' else None
        session = None
        rounds = 2 if flavour in ('tls13-ticket', 'tls12-resume-id', 'tls12-ticket') else 1
        p = None
        for rnd_no in range(rounds):
            p = loop.Pair()
            kw = dict(minv=ver, maxv=ver, cipherNames=[cipher], macNames=[mac])
            cs, ss = loop.settings(**kw), loop.settings(**kw)
            if ver < (3, 4):
                cs.keyExchangeNames = ['rsa']
                ss.keyExchangeNames = ['rsa']
            if flavour in ('tls13-ticket', 'tls12-ticket'):
                ss.ticketKeys = [bytearray(range(32))]
                ss.ticket_count = 2
            if flavour == 'tls13-hrr':
                ss.eccCurves = ['secp384r1']
                ss.keyShares = ['secp384r1']
                cs.eccCurves = ['x25519', 'secp256r1', 'secp384r1']
                cs.keyShares = ['x25519']
            if flavour == 'tls13-psk':
                cs.pskConfigs = [(b'psk-identity', bytearray(b'\x11' * 32))]
                ss.pskConfigs = [(b'psk-identity', bytearray(b'\x11' * 32))]
            if flavour == 'tls12-early':
                cs.maxVersion = (3, 4)
                cs.cipherNames = ['aes128gcm']
                cs.pskConfigs = [(b'cluster-ticket', bytearray(b'\x11' * 32))]
                cl = p.client
                orig = cl._sendMsg

                def send_with_early_data(msg, *a, **k):
                    # the PEER (client) additionally advertises early_data; pre_shared_key stays last
                    if isinstance(msg, ClientHello) and msg.extensions and \
                            msg.getExtension(ExtensionType.early_data) is None and \
                            msg.getExtension(ExtensionType.pre_shared_key) is not None:
                        msg.extensions.insert(len(msg.extensions) - 1,
                                              TLSExtension(extType=ExtensionType.early_data).create(bytearray(0)))
                    return orig(msg, *a, **k)
                cl._sendMsg = send_with_early_data
            ckw = dict(settings=cs)
            if session is not None:
                ckw['session'] = session
            skw = dict(certChain=chain, privateKey=key, settings=ss)
            if cache is not None:
                skw['sessionCache'] = cache
            co, so = p.handshake(client_kw=ckw, server_kw=skw)
            if loop.classify(co) != ('ok',) or loop.classify(so) != ('ok',):
                return None
            if rounds == 2 and rnd_no == 0:
                p.transfer(p.server, p.client, b'x')
                session = p.client.session
                p.close_both()
            elif rounds == 2 and not (p.client.resumed and p.server.resumed):
                return None
        if flavour == 'tls13-hrr' and HRR_RANDOM not in b''.join(p.ssock.sent_log):
            return None
        if flavour == 'tls12-early' and (p.server.version != (3, 3) or not p.server._recordLayer.max_early_data):
            return None
        return p
    finally:
        rnd.uninstall()


def flavour_case(args):
    """args = (flavour, victim 'c'|'s', action, seed).  After the handshake of the given flavour and one honest
    exchange in both directions, the on-path attacker acts on the victim's incoming stream in front of the
    peer's next record ('second'); the victim then reads."""
    flavour, victim, action, seed = args[:4]
    fault = args[4] if len(args) > 4 else None
    import loop
    from tlslite import errors as E
    res = dict(args=args, viol=[])
    p = _flavour_pair(flavour, seed)
    if p is None:
        res['skip'] = True
        return res
    ends = {'c': p.client, 's': p.server}
    socks = {'c': p.csock, 's': p.ssock}
    peer = 's' if victim == 'c' else 'c'
    v, w = ends[victim], ends[peer]
    # honest traffic both ways first (also drains NewSessionTicket messages)
    for a, b, m in ((peer, victim, b'first'), (victim, peer, b'reply')):
        loop.drive([ends[a].writeAsync(m)])
        g, o = _read_all(loop, ends[b], len(m))
        if g != m:
            res['viol'].append(('honest-stream-broken', '%s: %s could not read %r: %r %r' % (flavour, b, m, g, o)))
            return res
    held = bytearray()
    socks[peer].tap = lambda name, chunk: (held.extend(chunk), b'')[1]
    loop.drive([w.writeAsync(b'second')])
    loop.drive([w.writeAsync(b'third!')])
    socks[peer].tap = None
    recs, _ = split_records(bytes(held))
    kind = action[0]
    if kind == 'inject':
        feed = [PLAIN_RECORDS[action[1]]] + recs
    elif kind == 'flip':
        r = bytearray(recs[0])
        r[-1] ^= 1
        feed = [bytes(r)] + recs[1:]
    elif kind == 'flip-then-honest':          # a forged copy first, then the genuine records
        r = bytearray(recs[0])
        r[-1] ^= 1
        feed = [bytes(r)] + recs
    elif kind == 'swap':
        feed = [recs[-1]] + recs[:-1]
    elif kind == 'overflow':                  # a record announcing more than any limit allows
        feed = [bytes([23, 3, 3, 0x50, 0x00]) + bytes(0x5000)] + recs
    elif kind == 'honest':
        feed = recs
    else:
        raise ValueError(kind)
    if fault is not None:
        # the transport fails exactly once, on the victim's next send (= the fatal alert for the forged record)
        import errno
        import socket
        exc = {'timeout': socket.timeout('timed out'), 'epipe': socket.error(errno.EPIPE, 'broken pipe'),
               'reset': socket.error(errno.ECONNRESET, 'reset'), 'oserror': OSError(5, 'io error'),
               'runtime': RuntimeError('send failed'), 'wouldblock': BlockingIOError(errno.EWOULDBLOCK, 'would block')}[fault]
        vs = socks[victim]
        orig_send, armed = vs.send, [True]

        def failing_send(data, orig_send=orig_send, armed=armed, exc=exc):
            if armed[0]:
                armed[0] = False
                raise exc
            return orig_send(data)
        vs.send = failing_send
    socks[victim].inbuf += b''.join(feed)
    n0 = len(socks[victim].sent_log)
    got, outcome = _read_all(loop, v, 12)
    res.update(got=got.hex(), outcome=type(outcome).__name__ if isinstance(outcome, Exception) else outcome,
               desc=int(outcome.description) if isinstance(outcome, (E.TLSLocalAlert, E.TLSRemoteAlert)) else None,
               closed=v.closed, resumable=bool(v.session and v.session.resumable))
    if fault is not None and kind != 'honest':
        # whatever happened to the alert: nothing of the forged/following records may be delivered, now or by a later
        # read, and the connection must be closed and its session invalidated
        what = '%s, %s reading, attacker %s, alert send fails with %s' % (flavour, victim, '/'.join(action), fault)
        got2, out2 = b'', None
        try:
            got2, out2 = _read_all(loop, v, 12)
        except Exception as e:  # noqa
            out2 = e
        res.update(got2=got2.hex(), outcome2=type(out2).__name__ if isinstance(out2, Exception) else out2, closed2=v.closed)
        if got or got2:
            res['viol'].append(('data-after-rejection', '%s: read() delivered %r then %r' % (what, got, got2)))
        if not v.closed:
            res['viol'].append(('open-after-failed-alert', '%s: connection still open (first outcome %s)' % (what, res['outcome'])))
        if res['resumable']:
            res['viol'].append(('still-resumable', what))
        if outcome == 'eof' or isinstance(outcome, E.TLSRemoteAlert):
            res['viol'].append(('accepted-as-close', '%s: first read reported %s' % (what, res['outcome'])))
        return res
    if kind == 'honest':
        if got != b'secondthird!':
            res['viol'].append(('honest-stream-broken', '%s: unmodified stream gave %r %s' % (flavour, got, res['outcome'])))
        return res
    what = '%s, %s reading, attacker %s' % (flavour, victim, '/'.join(action))
    if got:
        res['viol'].append(('accepted-not-next' if got != b'secondthird!'[:len(got)] else 'forged-record-ignored',
                            '%s: read() went on and delivered %r after the forged record (outcome %s)' % (what, got, res['outcome'])))
    elif outcome == 'eof':
        res['viol'].append(('accepted-as-close', '%s: read() reported an orderly close' % what))
    elif isinstance(outcome, E.TLSRemoteAlert):
        res['viol'].append(('accepted-as-peer-alert', '%s: taken for an alert of the peer (%s)' % (what, res['desc'])))
    elif isinstance(outcome, loop.Deadlock) or outcome is None:
        res['viol'].append(('forged-record-ignored', '%s: the forged record was swallowed and read() waits for more' % what))
    elif not isinstance(outcome, E.TLSLocalAlert):
        res['viol'].append(('rejected-without-alert:%s' % res['outcome'], '%s: %s' % (what, res['outcome'])))
    else:
        if not v.closed:
            res['viol'].append(('not-closed', what))
        if res['resumable']:
            res['viol'].append(('still-resumable', what))
        if len(socks[victim].sent_log) == n0:
            res['viol'].append(('no-alert-on-wire', what))
    return res
