"""C02 live scenarios that need their own set-up: TLS 1.3 KeyUpdate epochs (with an independent
HKDF chain) and attacker records injected DURING the handshake, before every record of either
flight (so in particular at every key-change boundary)."""
import hashlib
import hmac


def hkdf_expand_label(secret, label, context, length, hname):
    """RFC 8446 7.1, written from the RFC with the standard library only."""
    full = b'tls13 ' + label
    info = length.to_bytes(2, 'big') + bytes([len(full)]) + full + bytes([len(context)]) + context
    out, t, i = b'', b'', 1
    while len(out) < length:
        t = hmac.new(bytes(secret), t + info + bytes([i]), getattr(hashlib, hname)).digest()
        out += t
        i += 1
    return out[:length]


def split_records(buf):
    out, i = [], 0
    while i + 5 <= len(buf):
        n = (buf[i + 3] << 8) | buf[i + 4]
        out.append(bytes(buf[i:i + 5 + n]))
        i += 5 + n
    return out, i == len(buf)


def _pair(ver, cipher, mac, etm, seed):
    import loop
    rnd = loop.DetRandom(seed).install()
    try:
        for kx in ('rsa', 'ecdhe_rsa'):
            p = loop.Pair()
            kw = dict(minv=ver, maxv=ver, cipherNames=[cipher], macNames=[mac], useEncryptThenMAC=etm)
            cs, ss = loop.settings(**kw), loop.settings(**kw)
            if ver < (3, 4):
                cs.keyExchangeNames = [kx]
                ss.keyExchangeNames = [kx]
            yield p, cs, ss
            if ver >= (3, 4):
                break
    finally:
        rnd.uninstall()


def _read_all(loop, ep, want):
    """read until `want` bytes, b'' or an exception; returns (bytes, outcome)"""
    got = bytearray()
    for _ in range(12):
        r = loop.drive([(x for x in ep.readAsync(4096, 1))], max_steps=6000)[0]
        if r[0] == 'exc':
            return bytes(got), r[1]
        if not r[1]:
            return bytes(got), 'eof'
        got += r[1]
        if len(got) >= want:
            break
    return bytes(got), None


# ------------------------------------------------------------------------------------------
def keyupdate_case(args):
    """args = (cipher, seed, variant).  Two consecutive KeyUpdates per direction."""
    cipher, seed, variant = args
    import loop
    from tlslite import errors as E
    from tlslite.constants import CipherSuite
    res = dict(args=args, viol=[])
    p = None
    for p, cs, ss in _pair((3, 4), cipher, 'aead', False, seed):
        chain, key = loop.creds('rsa')
        co, so = p.handshake(client_kw=dict(settings=cs), server_kw=dict(certChain=chain, privateKey=key, settings=ss))
        if loop.classify(co) != ('ok',) or loop.classify(so) != ('ok',):
            res['skip'] = True
            return res
    c, s = p.client, p.server
    hname = 'sha384' if c.session.cipherSuite in CipherSuite.sha384PrfSuites else 'sha256'
    hlen = 48 if hname == 'sha384' else 32
    # ---- the chain of traffic secrets, independently (RFC 8446 7.2)
    exp = {'c': [bytes(c.session.cl_app_secret)], 's': [bytes(c.session.sr_app_secret)]}
    for d in 'cs':
        for _ in range(3):
            exp[d].append(hkdf_expand_label(exp[d][-1], b'traffic upd', b'', hlen, hname))
    held = bytearray()
    p.csock.tap = lambda name, chunk: (held.extend(chunk), b'')[1]
    msgs = [b'record A of epoch 1', b'record B of epoch 2', b'record C of epoch 3']
    ivs = []
    for i, m in enumerate(msgs):
        loop.drive([c.send_keyupdate_request(0)])
        ivs.append(bytes(c._recordLayer._writeState.fixedNonce))
        want_secret = exp['c'][i + 1]
        if bytes(c.session.cl_app_secret) != want_secret:
            res['viol'].append(('keyupdate-chain', 'after KeyUpdate #%d the client traffic secret is not '
                                'HKDF-Expand-Label(previous, "traffic upd")' % (i + 1)))
        if ivs[-1] != hkdf_expand_label(want_secret, b'iv', b'', 12, hname):
            res['viol'].append(('keyupdate-chain', 'after KeyUpdate #%d the write IV is not derived from generation %d' % (i + 1, i + 1)))
        loop.drive([c.writeAsync(m)])
    if len(set(ivs)) != len(ivs):
        res['viol'].append(('keyupdate-epochs-equal', 'two key epochs of one direction have the same IV'))
    p.csock.tap = None
    recs, _ = split_records(bytes(held))          # KU1, A, KU2, B, KU3, C
    if len(recs) != 6:
        res['skip'] = True
        return res
    if variant == 'honest':
        feed, want = recs, b''.join(msgs)
    elif variant == 'replay-prev':                # B replaced by A (same sequence number, previous epoch)
        feed, want = recs[:3] + [recs[1]], msgs[0]
    elif variant == 'replay-first-in-third':
        feed, want = recs[:5] + [recs[1]], msgs[0] + msgs[1]
    elif variant == 'skip-keyupdate':             # B delivered although KeyUpdate #2 was dropped
        feed, want = recs[:2] + [recs[3]], msgs[0]
    else:
        raise ValueError(variant)
    p.ssock.inbuf += b''.join(feed)
    got, outcome = _read_all(loop, s, len(b''.join(msgs)) + 1 if variant != 'honest' else len(want))
    res.update(got=got.hex(), outcome=type(outcome).__name__ if isinstance(outcome, Exception) else outcome)
    if got != want:
        res['viol'].append(('accepted-not-next' if len(got) > len(want) or got != want[:len(got)] else 'honest-stream-broken',
                            'KeyUpdate %s: server delivered %d bytes, the peer\'s stream up to the forged record is %d bytes'
                            % (variant, len(got), len(want))))
    elif variant != 'honest':
        if not isinstance(outcome, E.TLSLocalAlert):
            res['viol'].append(('rejected-without-alert:%s' % res['outcome'], 'KeyUpdate %s: outcome %s' % (variant, res['outcome'])))
        elif not s.closed or (s.session and s.session.resumable):
            res['viol'].append(('not-closed', 'KeyUpdate %s: closed=%s' % (variant, s.closed)))
    # the other direction: server updates twice, the client must follow (honest only)
    if variant == 'honest' and not res['viol']:
        for i in range(2):
            loop.drive([s.send_keyupdate_request(0)])
            if bytes(s.session.sr_app_secret) != exp['s'][i + 1]:
                res['viol'].append(('keyupdate-chain', 'server KeyUpdate #%d: secret not the next of the chain' % (i + 1)))
            loop.drive([s.writeAsync(b'srv%d' % i)])
        g, o = _read_all(loop, c, 8)
        if g != b'srv0srv1':
            res['viol'].append(('honest-stream-broken', 'client could not follow two server KeyUpdates: %r %r' % (g, o)))
    return res


# ------------------------------------------------------------------------------------------
FRAGS = {'alert1': lambda v: bytes([21, v[0], v[1], 0, 1, 1]),            # half an alert message
         'hs1': lambda v: bytes([22, v[0], v[1], 0, 1, 20]),              # first byte of a handshake message
         'alert2': lambda v: bytes([21, v[0], v[1], 0, 2, 1, 0])}          # a whole plaintext warning alert


def inject_case(args):
    """args = (ver, cipher, mac, etm, seed, direction 'c'|'s', k, frag): the attacker inserts one plaintext
    record before the k-th record sent in `direction` during the handshake."""
    ver, cipher, mac, etm, seed, direction, k, frag = args
    import loop
    from tlslite import errors as E
    res = dict(args=args, viol=[])
    for p, cs, ss in _pair(ver, cipher, mac, etm, seed):
        chain, key = loop.creds('rsa')
        count = [0]
        injected = [False]
        wire_ver = (3, 3) if ver >= (3, 3) else ver

        def tap(name, chunk, count=count, injected=injected):
            recs, whole = split_records(chunk)
            if not whole:
                return chunk
            out = b''
            for r in recs:
                if count[0] == k and not injected[0]:
                    out += FRAGS[frag](wire_ver)
                    injected[0] = True
                count[0] += 1
                out += r
            return out
        (p.csock if direction == 'c' else p.ssock).tap = tap
        co, so = p.handshake(client_kw=dict(settings=cs), server_kw=dict(certChain=chain, privateKey=key, settings=ss), max_steps=40000)
        cc, sc = loop.classify(co), loop.classify(so)
        if not injected[0]:
            # the handshake has fewer than k+1 records in this direction (or this key exchange is not available)
            if cc == ('ok',) and sc == ('ok',):
                res['skip'] = 'no such record'
                return res
            continue
        (p.csock if direction == 'c' else p.ssock).tap = None
        res.update(client=cc, server=sc, nrec=count[0])
        victim, vout = (p.server, sc) if direction == 'c' else (p.client, cc)
        if cc == ('ok',) and sc == ('ok',):
            # the injected bytes were swallowed: from now on everything yielded must be what the peer protected
            c, s = p.client, p.server
            loop.drive([c.writeAsync(b'ping from client')])
            g1, o1 = _read_all(loop, s, 16)
            loop.drive([s.writeAsync(b'pong from server')])
            g2, o2 = _read_all(loop, c, 16)
            first, second = (c, s) if direction == 'c' else (s, c)     # the injected side's peer closes first
            loop.drive([first.closeAsync()])
            g3, o3 = _read_all(loop, second, 1)
            res.update(post=[g1.hex(), repr(o1), g2.hex(), repr(o2), g3.hex(), repr(o3)])
            if g1 != b'ping from client' or g2 != b'pong from server' or o1 is not None or o2 is not None:
                res['viol'].append(('unprotected-bytes-survive', 'handshake completed despite the injected %s record and the data '
                                    'exchange then failed: %r %r' % (frag, o1, o2)))
            elif o3 != 'eof' or g3:
                res['viol'].append(('unprotected-bytes-survive', 'handshake completed despite the injected plaintext %s record; the peer\'s '
                                    'protected close_notify was then yielded as %r (an alert the peer never protected)' % (frag, o3)))
            elif frag != 'alert2':
                # complete and everything fine afterwards: the fragment was silently dropped at the key change
                res['viol'].append(('unprotected-record-ignored', 'a plaintext %s record the peer never sent was accepted silently' % frag))
        else:
            # must be a clean fatal rejection on the side that received the injected record
            if vout[0] == 'Deadlock':
                pass          # the fragment shifted the framing of the plaintext flight: the endpoint waits, nothing is accepted
            elif vout[0] not in ('LocalAlert', 'RemoteAlert'):
                res['viol'].append(('rejected-without-alert:%s' % (vout[0],), 'injected %s before record %d (%s->): %r / %r'
                                    % (frag, k, direction, cc, sc)))
        return res
    res['skip'] = 'no handshake'
    return res
