"""C04 helper: an on-path attacker between two live tlslite-ng endpoints.

`Proxy` sits on both MemSock taps.  Two modes:

* raw     : XOR one byte of the raw byte stream of one direction (record headers included);
* message : reassemble the plaintext handshake stream of each direction into messages, apply
            per-message operations (drop / dup / swap / rewrite) and re-emit one record per message.

Everything the endpoints do is the unmodified implementation; only the bytes on the pipe change.
"""
import hashlib
import os
import sys

import loop
from tlslite.api import TLSConnection, HandshakeSettings, SessionCache
from tlslite.constants import (CipherSuite, ExtensionType, TLS_1_1_DOWNGRADE_SENTINEL,
                               TLS_1_2_DOWNGRADE_SENTINEL, TLS_1_3_HRR, HandshakeType, AlertDescription)
from tlslite.messages import ClientHello, ServerHello
from tlslite.extensions import TLSExtension, SupportedVersionsExtension
from tlslite.utils.codec import Parser

C2S, S2C = 'c2s', 's2c'
PLAIN_HS_NAMES = {1: 'client_hello', 2: 'server_hello', 4: 'new_session_ticket', 8: 'encrypted_extensions',
                  11: 'certificate', 12: 'server_key_exchange', 13: 'certificate_request',
                  14: 'server_hello_done', 15: 'certificate_verify', 16: 'client_key_exchange',
                  20: 'finished', 67: 'next_protocol', 22: 'certificate_status'}


# ------------------------------------------------------------------------------------------
def split_records(buf):
    """-> (list of (type, version(2 bytes), payload), rest)"""
    out = []
    i = 0
    while len(buf) - i >= 5:
        n = (buf[i + 3] << 8) | buf[i + 4]
        if len(buf) - i - 5 < n:
            break
        out.append((buf[i], bytes(buf[i + 1:i + 3]), bytes(buf[i + 5:i + 5 + n])))
        i += 5 + n
    return out, bytes(buf[i:])


def split_messages(buf):
    out = []
    i = 0
    while len(buf) - i >= 4:
        n = (buf[i + 1] << 16) | (buf[i + 2] << 8) | buf[i + 3]
        if len(buf) - i - 4 < n:
            break
        out.append(bytes(buf[i:i + 4 + n]))
        i += 4 + n
    return out, bytes(buf[i:])


def mk_records(ty, ver, payload):
    out = b''
    while True:
        frag, payload = payload[:16384], payload[16384:]
        out += bytes([ty]) + ver + bytes([len(frag) >> 8, len(frag) & 0xff]) + frag
        if not payload:
            return out


def parse_ch(m):
    return ClientHello().parse(Parser(bytearray(m[1:])))


def parse_sh(m):
    return ServerHello().parse(Parser(bytearray(m[1:])))


def sh_is_tls13(m):
    try:
        sh = parse_sh(m)
        e = sh.getExtension(ExtensionType.supported_versions)
        return bool(e and e.version > (3, 3))
    except Exception:  # noqa
        return False


class Proxy(object):
    """ops: list of tuples
         ('flip', dir, raw_offset, mask)
         ('drop'|'dup'|'swap', dir, msg_index)
         ('inject', dir, msg_index, kind)      a record of INJECT[kind] in front of that message
         ('hold_after_sh', 's2c')              deliver nothing to the client after the first real ServerHello
                                               (what the client does then depends on the ServerHello alone)
         ('rw', dir, msg_index, rewrite_name)
    """

    def __init__(self, ops=()):
        self.ops = list(ops)
        self.raw = all(o[0] == 'flip' for o in self.ops)       # (no ops -> raw pass-through)
        self.off = {C2S: 0, S2C: 0}
        self.inb = {C2S: b'', S2C: b''}
        self.hs = {C2S: b'', S2C: b''}
        self.ccs = {C2S: False, S2C: False}
        self.nmsg = {C2S: 0, S2C: 0}
        self.held = {C2S: None, S2C: None}
        self.tls13 = False
        self.log_in = {C2S: bytearray(), S2C: bytearray()}       # as sent by the endpoint
        self.log_out = {C2S: bytearray(), S2C: bytearray()}      # as delivered
        self.msgs_in = {C2S: [], S2C: []}                        # plaintext handshake messages as sent
        self.msgs_out = {C2S: [], S2C: []}                       # ... as delivered
        self.applied = []
        self.last_rec_ver = {C2S: b'\x03\x03', S2C: b'\x03\x03'}
        self.hold_after_sh = any(o[0] == 'hold_after_sh' for o in self.ops)
        self.holding = False          # True once the first real ServerHello went to the client

    def attach(self, pair):
        pair.csock.tap = self.tap
        pair.ssock.tap = self.tap

    # -- the tap
    def tap(self, d, chunk):
        self.log_in[d] += chunk
        out = bytearray(chunk)
        base = self.off[d]
        for op in self.ops:                     # byte flips act on the raw stream, whatever the mode
            if op[0] == 'flip' and op[1] == d and base <= op[2] < base + len(chunk):
                out[op[2] - base] ^= op[3]
                self.applied.append(op)
        self.off[d] += len(chunk)
        out = bytes(out)
        if not self.raw:
            out = self._message_mode(d, out)
        self.log_out[d] += out
        return out

    def _plaintext_hs(self, d, ty):
        return ty == 22 and (self.tls13 or not self.ccs[d])

    def _message_mode(self, d, chunk):
        recs, self.inb[d] = split_records(self.inb[d] + chunk)
        out = b''
        for ty, ver, payload in recs:
            if d == S2C and self.holding:
                continue                                # 'hold_after_sh': nothing after the ServerHello is delivered
            if self._plaintext_hs(d, ty):
                self.last_rec_ver[d] = ver
                msgs, self.hs[d] = split_messages(self.hs[d] + payload)
                for m in msgs:
                    out += self._one_message(d, ver, m)
            else:
                if self.hs[d]:                      # partial message pending: release it untouched
                    out += mk_records(22, self.last_rec_ver[d], self.hs[d])
                    self.hs[d] = b''
                if ty == 20:
                    self.ccs[d] = True
                out += mk_records(ty, ver, payload)
        return out

    def _one_message(self, d, ver, m):
        i = self.nmsg[d]
        self.nmsg[d] += 1
        self.msgs_in[d].append(m)
        if d == S2C and m[0] == 2 and sh_is_tls13(m):
            self.tls13 = True
        outs = [m]
        pre = b''
        for op in self.ops:
            if op[1] != d or op[0] in ('hold_after_sh', 'flip'):
                continue
            if op[0] == 'swap' and op[2] == i:
                self.held[d] = m
                self.applied.append(op)
                outs = []
            elif op[0] == 'swap' and op[2] + 1 == i and self.held[d] is not None:
                outs = outs + [self.held[d]]
                self.held[d] = None
            elif op[2] != i:
                continue
            elif op[0] == 'inject':
                pre += INJECT[op[3]](ver)
                self.applied.append(op)
            elif op[0] == 'drop':
                outs = []
                self.applied.append(op)
            elif op[0] == 'dup':
                outs = outs + outs
                self.applied.append(op)
            elif op[0] == 'rw':
                new = []
                for x in outs:
                    try:
                        y = REWRITES[op[3]](x, self)
                    except Exception as e:  # noqa  rewrite not applicable to this message
                        y = None
                        self.applied.append(('rw-error', op[3], repr(e)[:80]))
                    if y is not None and y != x:
                        self.applied.append(op)
                        x = y
                    new.append(x)
                outs = new
        res = pre
        for x in outs:
            if d == S2C and self.holding:
                break
            self.msgs_out[d].append(x)
            res += mk_records(22, ver, x)
            if self.hold_after_sh and d == S2C and x[:1] == b'\x02':
                try:
                    if bytes(parse_sh(x).random) != bytes(TLS_1_3_HRR):
                        self.holding = True
                except Exception:  # noqa
                    pass
        return res


# records an attacker can insert in front of a plaintext handshake message
INJECT = {
    'warning_alert': lambda ver: mk_records(21, ver, bytes([1, 112])),            # unrecognized_name, warning
    'warning_close': lambda ver: mk_records(21, ver, bytes([1, 0])),              # close_notify at warning level
    'warning_no_reneg': lambda ver: mk_records(21, ver, bytes([1, 100])),
    'ccs': lambda ver: mk_records(20, ver, b'\x01'),
    'empty_handshake': lambda ver: mk_records(22, ver, b''),
    'empty_appdata': lambda ver: mk_records(23, ver, b''),
    'hello_request': lambda ver: mk_records(22, ver, bytes([0, 0, 0, 0])),
    'unknown_hs_type': lambda ver: mk_records(22, ver, bytes([99, 0, 0, 1, 7])),
    'heartbeat': lambda ver: mk_records(24, ver, bytes([1, 0, 0]) + bytes(16)),
}


# ------------------------------------------------------------------------------------------
# semantic rewrites (re-serialisation with tlslite's own message classes)
def _ch(fn):
    def w(m, px):
        if m[0] != 1:
            return None
        ch = parse_ch(m)
        r = fn(ch)
        if r is False:
            return None
        return bytes(ch.write())
    return w


def _sh(fn):
    def w(m, px):
        if m[0] != 2:
            return None
        sh = parse_sh(m)
        r = fn(sh)
        if r is False:
            return None
        return bytes(sh.write())
    return w


def _strip_ext(t):
    def f(h):
        if not h.extensions or not any(e.extType == t for e in h.extensions):
            return False
        h.extensions = [e for e in h.extensions if e.extType != t]
    return f


def _alter_ext(t):
    def f(h):
        for i, e in enumerate(h.extensions or []):
            if e.extType == t:
                data = bytearray(e.extData)
                if not data:
                    return False
                data[-1] ^= 0x01
                h.extensions[i] = TLSExtension(extType=t).create(data)
                return
        return False
    return f


def _rename_ext(t, new_t):
    """turn the extension into one of an unknown type (the peer ignores it), payload and position unchanged"""
    def f(h):
        for i, e in enumerate(h.extensions or []):
            if e.extType == t:
                h.extensions[i] = TLSExtension(extType=new_t).create(bytearray(e.extData))
                return
        return False
    return f


def _add_empty_ext(t):
    def f(h):
        if h.extensions is None:
            h.extensions = []
        if any(e.extType == t for e in h.extensions):
            return False
        h.extensions.insert(0, TLSExtension(extType=t).create(bytearray(0)))
    return f


def _ch_strip_versions_above(v):
    def f(ch):
        changed = False
        e = ch.getExtension(ExtensionType.supported_versions)
        if e is not None:
            keep = [x for x in e.versions if x <= v]
            if keep != list(e.versions):
                changed = True
                idx = [i for i, x in enumerate(ch.extensions) if x.extType == ExtensionType.supported_versions][0]
                if keep:
                    ch.extensions[idx] = SupportedVersionsExtension().create(keep)
                else:
                    del ch.extensions[idx]
        if ch.client_version > v:
            ch.client_version = v
            changed = True
        return None if changed else False
    return f


def _ch_versions_only(v):
    def f(ch):
        if ch.extensions is None:
            ch.extensions = []
        new = SupportedVersionsExtension().create([v])
        for i, e in enumerate(ch.extensions):
            if e.extType == ExtensionType.supported_versions:
                if list(e.versions) == [v]:
                    return False
                ch.extensions[i] = new
                return
        ch.extensions.insert(0, new)
    return f


REAL = lambda s: s not in (CipherSuite.TLS_EMPTY_RENEGOTIATION_INFO_SCSV, CipherSuite.TLS_FALLBACK_SCSV)  # noqa


def _ch_only_last_suite(ch):
    real = [s for s in ch.cipher_suites if REAL(s)]
    if len(real) < 2:
        return False
    ch.cipher_suites = [s for s in ch.cipher_suites if not REAL(s) or s == real[-1]]


def _ch_drop_first_suite(ch):
    real = [s for s in ch.cipher_suites if REAL(s)]
    if len(real) < 2:
        return False
    ch.cipher_suites = [s for s in ch.cipher_suites if s != real[0]]


def _ch_reverse_suites(ch):
    if len(ch.cipher_suites) < 2:
        return False
    ch.cipher_suites = list(reversed(ch.cipher_suites))


def _ch_inject_scsv(ch):
    if CipherSuite.TLS_FALLBACK_SCSV in ch.cipher_suites:
        return False
    ch.cipher_suites = list(ch.cipher_suites) + [CipherSuite.TLS_FALLBACK_SCSV]


def _ch_strip_scsv(ch):
    if CipherSuite.TLS_FALLBACK_SCSV not in ch.cipher_suites:
        return False
    ch.cipher_suites = [s for s in ch.cipher_suites if s != CipherSuite.TLS_FALLBACK_SCSV]


def _ch_random(ch):
    ch.random = bytearray(ch.random)
    ch.random[0] ^= 0x01


def _ch_sid(ch):
    if not ch.session_id:
        return False
    ch.session_id = bytearray(ch.session_id)
    ch.session_id[0] ^= 0x01


def _sh_tail(val):
    def f(sh):
        if bytes(sh.random) == bytes(TLS_1_3_HRR):
            return False
        r = bytearray(sh.random)
        if val is None:
            if bytes(r[-8:]) not in (bytes(TLS_1_1_DOWNGRADE_SENTINEL), bytes(TLS_1_2_DOWNGRADE_SENTINEL)):
                return False
            r[-8:] = bytes(8)
        else:
            if bytes(r[-8:]) == bytes(val):
                return False
            r[-8:] = val
        sh.random = r
    return f


def _sh_suite_other(sh, px=None):
    return False


def _sh_change_suite(m, px):
    """select a different suite that the client offered"""
    if m[0] != 2:
        return None
    sh = parse_sh(m)
    ch = parse_ch(px.msgs_in[C2S][0])
    cand = [s for s in ch.cipher_suites if REAL(s) and s != sh.cipher_suite]
    if not cand:
        return None
    # prefer a suite of the same family (same membership in the tls13 list)
    t13 = sh.cipher_suite in CipherSuite.tls13Suites
    same = [s for s in cand if (s in CipherSuite.tls13Suites) == t13]
    sh.cipher_suite = (same or cand)[-1]
    return bytes(sh.write())


def _sh_lower_version(sh):
    e = sh.getExtension(ExtensionType.supported_versions)
    if e is not None:
        sh.extensions = [x for x in sh.extensions if x.extType != ExtensionType.supported_versions]
        return
    if sh.server_version <= (3, 1):
        return False
    sh.server_version = (3, sh.server_version[1] - 1)


def _sh_raise_version(sh):
    if sh.getExtension(ExtensionType.supported_versions) is not None or sh.server_version >= (3, 3):
        return False
    sh.server_version = (3, sh.server_version[1] + 1)


def _sh_sid(sh):
    if not sh.session_id:
        return False
    sh.session_id = bytearray(sh.session_id)
    sh.session_id[-1] ^= 0x01


def _ch_keyshare_drop(ch):
    e = ch.getExtension(ExtensionType.key_share)
    if e is None or len(e.client_shares) < 1:
        return False
    e.client_shares = e.client_shares[1:]


def _ch_groups_reverse(ch):
    e = ch.getExtension(ExtensionType.supported_groups)
    if e is None or len(e.groups) < 2:
        return False
    e.groups = list(reversed(e.groups))


def _ch_groups_only_last(ch):
    e = ch.getExtension(ExtensionType.supported_groups)
    if e is None or len(e.groups) < 2:
        return False
    e.groups = [e.groups[-1]]


def _ch_sigalgs_only_last(ch):
    e = ch.getExtension(ExtensionType.signature_algorithms)
    if e is None or len(e.sigalgs) < 2:
        return False
    e.sigalgs = [e.sigalgs[-1]]


def _ch_alpn_only_last(ch):
    e = ch.getExtension(ExtensionType.alpn)
    if e is None or len(e.protocol_names) < 2:
        return False
    e.protocol_names = [e.protocol_names[-1]]


def _ch_sni_alter(ch):
    e = ch.getExtension(ExtensionType.server_name)
    if e is None or not e.hostNames:
        return False
    n = bytearray(e.hostNames[0])
    n[0] = ord('x') if n[0] != ord('x') else ord('y')
    e.hostNames = [n]


def _ch_rsl_alter(ch):
    e = ch.getExtension(ExtensionType.record_size_limit)
    if e is None:
        return False
    e.record_size_limit = 512 if e.record_size_limit != 512 else 1024


def _sh_rsl_alter(sh):
    e = sh.getExtension(ExtensionType.record_size_limit)
    if e is None:
        return False
    e.record_size_limit = 512 if e.record_size_limit != 512 else 1024


def _sh_alpn_alter(m, px):
    if m[0] != 2:
        return None
    sh = parse_sh(m)
    e = sh.getExtension(ExtensionType.alpn)
    ch = parse_ch(px.msgs_in[C2S][0])
    ce = ch.getExtension(ExtensionType.alpn)
    if e is None or ce is None:
        return None
    other = [p for p in ce.protocol_names if p != e.protocol_names[0]]
    if not other:
        return None
    e.protocol_names = [other[0]]
    return bytes(sh.write())


def _identity(m, px):
    if m[0] == 1:
        return bytes(parse_ch(m).write())
    if m[0] == 2:
        return bytes(parse_sh(m).write())
    return None


E = ExtensionType
EXT_NAMES = {'key_share': E.key_share, 'supported_groups': E.supported_groups,
             'signature_algorithms': E.signature_algorithms, 'ems': E.extended_master_secret,
             'etm': E.encrypt_then_mac, 'alpn': E.alpn, 'sni': E.server_name,
             'record_size_limit': E.record_size_limit, 'session_ticket': E.session_ticket,
             'supported_versions': E.supported_versions, 'psk_modes': E.psk_key_exchange_modes,
             'pre_shared_key': E.pre_shared_key, 'ec_point_formats': E.ec_point_formats,
             'renegotiation_info': E.renegotiation_info, 'cookie': E.cookie, 'heartbeat': E.heartbeat}

REWRITES = {
    'identity': _identity,
    'ch_strip_tls13': _ch(_ch_strip_versions_above((3, 3))),
    'ch_max_tls11': _ch(_ch_strip_versions_above((3, 2))),
    'ch_max_tls10': _ch(_ch_strip_versions_above((3, 1))),
    'ch_max_ssl3': _ch(_ch_strip_versions_above((3, 0))),
    'ch_versions_only_tls10': _ch(_ch_versions_only((3, 1))),
    'ch_versions_only_tls12': _ch(_ch_versions_only((3, 3))),
    'ch_rename_ems': _ch(_rename_ext(ExtensionType.extended_master_secret, 0xff17)),
    'ch_rename_etm': _ch(_rename_ext(ExtensionType.encrypt_then_mac, 0xff16)),
    'ch_only_last_suite': _ch(_ch_only_last_suite),
    'ch_drop_first_suite': _ch(_ch_drop_first_suite),
    'ch_reverse_suites': _ch(_ch_reverse_suites),
    'ch_inject_scsv': _ch(_ch_inject_scsv),
    'ch_strip_scsv': _ch(_ch_strip_scsv),
    'ch_random': _ch(_ch_random),
    'ch_sid': _ch(_ch_sid),
    'ch_keyshare_drop_first': _ch(_ch_keyshare_drop),
    'ch_groups_reverse': _ch(_ch_groups_reverse),
    'ch_groups_only_last': _ch(_ch_groups_only_last),
    'ch_sigalgs_only_last': _ch(_ch_sigalgs_only_last),
    'ch_alpn_only_last': _ch(_ch_alpn_only_last),
    'ch_sni_alter': _ch(_ch_sni_alter),
    'ch_rsl_alter': _ch(_ch_rsl_alter),
    'sh_strip_sentinel': _sh(_sh_tail(None)),
    'sh_set_sentinel12': _sh(_sh_tail(TLS_1_2_DOWNGRADE_SENTINEL)),
    'sh_set_sentinel11': _sh(_sh_tail(TLS_1_1_DOWNGRADE_SENTINEL)),
    'sh_change_suite': _sh_change_suite,
    'sh_lower_version': _sh(_sh_lower_version),
    'sh_raise_version': _sh(_sh_raise_version),
    'sh_sid': _sh(_sh_sid),
    'sh_rsl_alter': _sh(_sh_rsl_alter),
    'sh_alpn_alter': _sh_alpn_alter,
}
for _n, _t in EXT_NAMES.items():
    REWRITES['ch_strip_' + _n] = _ch(_strip_ext(_t))
    REWRITES['ch_alter_' + _n] = _ch(_alter_ext(_t))
    REWRITES['sh_strip_' + _n] = _sh(_strip_ext(_t))
    REWRITES['sh_alter_' + _n] = _sh(_alter_ext(_t))
for _n in ('ems', 'etm'):
    REWRITES['ch_add_' + _n] = _ch(_add_empty_ext(EXT_NAMES[_n]))
    REWRITES['sh_add_' + _n] = _sh(_add_empty_ext(EXT_NAMES[_n]))

CH_REWRITES = sorted(k for k in REWRITES if k.startswith('ch_'))
SH_REWRITES = sorted(k for k in REWRITES if k.startswith('sh_'))


# ------------------------------------------------------------------------------------------
# scenarios
def _st(minv, maxv, **kw):
    return dict(minv=minv, maxv=maxv, **kw)


def scenarios():
    """name -> dict(kind, cs (client settings kw), ss (server settings kw), cred, flags...)"""
    S = {}
    V = {'ssl3': (3, 0), 'tls10': (3, 1), 'tls11': (3, 2), 'tls12': (3, 3)}
    # TLS <= 1.2, full handshakes: both sides support (3,0)/(3,1)..negotiated max so that a downgrade is possible
    for vn, v in V.items():
        lo = (3, 0) if v == (3, 0) else (3, 1)
        for kx, kex in (('rsa', ['rsa']), ('dhe', ['dhe_rsa']), ('ecdhe', ['ecdhe_rsa'])):
            if v == (3, 0) and kx != 'rsa':
                continue
            S['%s-%s' % (vn, kx)] = dict(kind='cert', cred='rsa', cs=_st(lo, v, keyExchangeNames=kex),
                                         ss=_st(lo, v, keyExchangeNames=kex))
        if v >= (3, 1):
            S['%s-srp' % vn] = dict(kind='srp', cred=None, cs=_st(lo, v), ss=_st(lo, v))
            S['%s-anon' % vn] = dict(kind='anon', cred=None, cs=_st(lo, v), ss=_st(lo, v))
    S['tls12-ecdsa'] = dict(kind='cert', cred='ecdsa', cs=_st((3, 1), (3, 3)), ss=_st((3, 1), (3, 3)))
    # a rich TLS 1.2 negotiation: ALPN, SNI, record size limit, EtM (CBC), EMS
    S['tls12-rich'] = dict(kind='cert', cred='rsa',
                           cs=_st((3, 1), (3, 3), cipherNames=['aes128', 'aes256'], record_size_limit=2048),
                           ss=_st((3, 1), (3, 3), cipherNames=['aes128', 'aes256'], record_size_limit=1024),
                           alpn_c=[b'h2', b'http/1.1'], alpn_s=[b'http/1.1', b'h2'], sni='server.example')
    # both ends support TLS 1.3 but only 1.2 suites in common -> genuine TLS 1.2 with the sentinel written
    S['tls13-both-12only'] = dict(kind='cert', cred='rsa', cs=_st((3, 1), (3, 4)),
                                  ss=_st((3, 1), (3, 3)))
    S['srv13-cl12'] = dict(kind='cert', cred='rsa', cs=_st((3, 1), (3, 3)), ss=_st((3, 1), (3, 4)))
    S['srv12-cl11'] = dict(kind='cert', cred='rsa', cs=_st((3, 1), (3, 2)), ss=_st((3, 1), (3, 3)))
    # TLS 1.3
    S['tls13-x25519'] = dict(kind='cert', cred='rsa', cs=_st((3, 1), (3, 4), keyShares=['x25519']),
                             ss=_st((3, 1), (3, 4)))
    S['tls13-p256-ecdsa'] = dict(kind='cert', cred='ecdsa', cs=_st((3, 1), (3, 4), keyShares=['secp256r1']),
                                 ss=_st((3, 1), (3, 4)))
    S['tls13-ffdhe'] = dict(kind='cert', cred='rsa',
                            cs=_st((3, 1), (3, 4), keyShares=['ffdhe2048'], dhGroups=['ffdhe2048']),
                            ss=_st((3, 1), (3, 4), dhGroups=['ffdhe2048'], eccCurves=['secp256r1'],
                                   keyShares=['ffdhe2048']))
    S['tls13-rich'] = dict(kind='cert', cred='rsa',
                           cs=_st((3, 1), (3, 4), keyShares=['x25519'], record_size_limit=2048),
                           ss=_st((3, 1), (3, 4), record_size_limit=1024),
                           alpn_c=[b'h2', b'http/1.1'], alpn_s=[b'http/1.1', b'h2'], sni='server.example')
    S['tls13-hrr'] = dict(kind='cert', cred='rsa',
                          cs=_st((3, 1), (3, 4), keyShares=['x25519'], eccCurves=['x25519', 'secp384r1']),
                          ss=_st((3, 1), (3, 4), keyShares=['secp384r1'], eccCurves=['secp384r1'],
                                 dhGroups=[]))
    S['tls13-psk'] = dict(kind='cert', cred='rsa',
                          cs=_st((3, 1), (3, 4), keyShares=['x25519'], pskConfigs=[(b'ident', b'\x11' * 32)]),
                          ss=_st((3, 1), (3, 4), pskConfigs=[(b'ident', b'\x11' * 32)]))
    S['tls13-psk-hrr'] = dict(kind='cert', cred='rsa',
                              cs=_st((3, 1), (3, 4), keyShares=['x25519'], eccCurves=['x25519', 'secp384r1'],
                                     pskConfigs=[(b'ident', b'\x11' * 32)]),
                              ss=_st((3, 1), (3, 4), keyShares=['secp384r1'], eccCurves=['secp384r1'],
                                     dhGroups=[], pskConfigs=[(b'ident', b'\x11' * 32)]))
    # client certificate authentication (Certificate, ClientKeyExchange, CertificateVerify in the client's flight)
    S['tls12-clientauth'] = dict(kind='cert', cred='rsa', cs=_st((3, 1), (3, 3)), ss=_st((3, 1), (3, 3)),
                                 client_cred='client-rsa')
    S['tls10-clientauth'] = dict(kind='cert', cred='rsa', cs=_st((3, 1), (3, 1)), ss=_st((3, 1), (3, 1)),
                                 client_cred='client-rsa')
    S['tls13-clientauth'] = dict(kind='cert', cred='rsa', cs=_st((3, 1), (3, 4), keyShares=['x25519']),
                                 ss=_st((3, 1), (3, 4)), client_cred='client-ecdsa')
    # full TLS 1.2 handshake in which the server issues a ticket (NewSessionTicket is sent in the clear)
    S['tls12-ticket-issue'] = dict(kind='cert', cred='rsa', cs=_st((3, 1), (3, 3)),
                                   ss=_st((3, 1), (3, 3), ticketKeys=[b'\x22' * 32], ticket_count=1))
    # resumption (first handshake honest and outside the proxy; the second is attacked)
    S['tls12-resume-id'] = dict(kind='cert', cred='rsa', cs=_st((3, 1), (3, 3)), ss=_st((3, 1), (3, 3)),
                                resume='id')
    S['tls10-resume-id'] = dict(kind='cert', cred='rsa', cs=_st((3, 1), (3, 1)), ss=_st((3, 1), (3, 1)),
                                resume='id')
    S['tls12-resume-ticket'] = dict(kind='cert', cred='rsa', cs=_st((3, 1), (3, 3)),
                                    ss=_st((3, 1), (3, 3), ticketKeys=[b'\x22' * 32], ticket_count=1),
                                    resume='ticket')
    S['tls13-resume'] = dict(kind='cert', cred='rsa', cs=_st((3, 1), (3, 4), keyShares=['x25519']),
                             ss=_st((3, 1), (3, 4), ticketKeys=[b'\x22' * 32], ticket_count=1),
                             resume='tls13')
    # a TLS 1.2 session resumed between two endpoints that (now) both support TLS 1.3
    S['srv13-resume12'] = dict(kind='cert', cred='rsa', cs=_st((3, 1), (3, 3)), ss=_st((3, 1), (3, 4)),
                               resume='id')
    # an existing TLS 1.2 (1.0) session; the client reconnects with a HIGHER maximum and offers it.  Honest: the server
    # negotiates the higher version with a full handshake.  Under version-capping the server resumes and writes the sentinel.
    S['both13-resume12-id'] = dict(kind='cert', cred='rsa', cs0=_st((3, 1), (3, 3)), cs=_st((3, 1), (3, 4), keyShares=['x25519']),
                                   ss=_st((3, 1), (3, 4)), resume='id')
    S['both13-resume12-ticket'] = dict(kind='cert', cred='rsa', cs0=_st((3, 1), (3, 3)),
                                       cs=_st((3, 1), (3, 4), keyShares=['x25519']),
                                       ss=_st((3, 1), (3, 4), ticketKeys=[b'\x22' * 32], ticket_count=1), resume='ticket')
    S['both12-resume10-id'] = dict(kind='cert', cred='rsa', cs0=_st((3, 1), (3, 1)), cs=_st((3, 1), (3, 3)),
                                   ss=_st((3, 1), (3, 3)), resume='id')
    # SCSV: a client that fell back to TLS 1.1 and says so, against a TLS 1.2 server
    S['scsv-fallback11'] = dict(kind='cert', cred='rsa', cs=_st((3, 1), (3, 2), sendFallbackSCSV=True),
                                ss=_st((3, 1), (3, 3)))
    S['scsv-fallback12'] = dict(kind='cert', cred='rsa', cs=_st((3, 1), (3, 3), sendFallbackSCSV=True),
                                ss=_st((3, 1), (3, 4)))
    # fallback RETRY of a TLS-1.3-capable client that holds a cached TLS 1.2 session (the TLS 1.3 attempt was killed
    # by the attacker): maxVersion lowered, sendFallbackSCSV=True, the cached session offered.  cs0 = the settings of
    # the earlier honest handshake that produced the session; true_cmax = what the client really supports.
    S['scsv-fallback12-resume-id'] = dict(kind='cert', cred='rsa', cs0=_st((3, 1), (3, 3)),
                                          cs=_st((3, 1), (3, 3), sendFallbackSCSV=True), ss=_st((3, 1), (3, 4)),
                                          resume='id', true_cmax=(3, 4))
    S['scsv-fallback12-resume-ticket'] = dict(kind='cert', cred='rsa', cs0=_st((3, 1), (3, 3)),
                                              cs=_st((3, 1), (3, 3), sendFallbackSCSV=True),
                                              ss=_st((3, 1), (3, 4), ticketKeys=[b'\x22' * 32], ticket_count=1),
                                              resume='ticket', true_cmax=(3, 4))
    S['scsv-fallback11-resume-id'] = dict(kind='cert', cred='rsa', cs0=_st((3, 1), (3, 2)),
                                          cs=_st((3, 1), (3, 2), sendFallbackSCSV=True), ss=_st((3, 1), (3, 3)),
                                          resume='id', true_cmax=(3, 3))
    S['scsv-nofallback'] = dict(kind='cert', cred='rsa', cs=_st((3, 1), (3, 3), sendFallbackSCSV=True),
                                ss=_st((3, 1), (3, 3)))
    return S


_VDB = {}


def _verifier_db():
    if 'db' not in _VDB:
        r = loop.DetRandom(12345).install()      # the same verifier in every worker process, and the
        try:                                      # case's own random stream is left untouched
            _VDB['db'] = loop.make_verifier_db()
        finally:
            r.uninstall()
    return _VDB['db']


def _mk_settings(kw):
    kw = dict(kw)
    minv, maxv = kw.pop('minv'), kw.pop('maxv')
    s = loop.settings(minv, maxv, **kw)
    return s


def _kwargs(sc, cache):
    ckw = {'settings': _mk_settings(sc['cs'])}
    skw = {'settings': _mk_settings(sc['ss'])}
    kind = sc['kind']
    if kind == 'cert':
        chain, key = loop.creds(sc['cred'])
        skw.update(certChain=chain, privateKey=key)
        if sc.get('client_cred'):
            cchain, ckey = loop.creds(sc['client_cred'])
            ckw.update(certChain=cchain, privateKey=ckey)
            skw.update(reqCert=True)
    elif kind == 'srp':
        ckw.update(username=bytearray(b'test'), password=bytearray(b'password'))
        skw.update(verifierDB=_verifier_db())
    elif kind == 'anon':
        skw.update(anon=True)
    if sc.get('alpn_c'):
        ckw['alpn'] = list(sc['alpn_c'])
        skw['alpn'] = list(sc['alpn_s'])
    if sc.get('sni'):
        ckw['serverName'] = sc['sni']
        skw['sni'] = sc['sni']
    if cache is not None:
        skw['sessionCache'] = cache
    return ckw, skw


def _b(x):
    return None if x is None else bytes(x).hex()


def view(conn, role):
    """What one endpoint believes was negotiated (every observable named by the property)."""
    s = conn.session
    chain = lambda c: None if c is None else hashlib.sha256(  # noqa
        b''.join(bytes(x.bytes) for x in c.x509List)).hexdigest()[:16]
    v = {
        'version': tuple(conn.version),
        'suite': s.cipherSuite,
        'master': _b(s.masterSecret),
        'cl_app': _b(s.cl_app_secret), 'sr_app': _b(s.sr_app_secret),
        'exporter': _b(s.exporterMasterSecret), 'res_master': _b(s.resumptionMasterSecret),
        'ems': bool(s.extendedMasterSecret), 'etm': bool(s.encryptThenMAC),
        'etm_rl': bool(conn._recordLayer.encryptThenMAC),
        'alpn': _b(s.appProto) if s.appProto else None,
        'sni': s.serverName or None,
        'crandom': _b(conn._clientRandom), 'srandom': _b(conn._serverRandom),
        'server_chain': chain(s.serverCertChain), 'client_chain': chain(s.clientCertChain),
        'srp_user': (s.srpUsername.decode() if isinstance(s.srpUsername, (bytes, bytearray)) else s.srpUsername) or None,
        'resumed': bool(conn.resumed),
        'next_proto': _b(conn.next_proto) if getattr(conn, 'next_proto', None) else None,
    }
    send, recv = conn._send_record_limit, conn._recv_record_limit
    # crosswise: what the client may send is what the server is prepared to receive
    v['limit_c2s'] = send if role == 'client' else recv
    v['limit_s2c'] = recv if role == 'client' else send
    return v


VIEW_NOT_COMPARED = ()


def diff_views(vc, vs):
    return sorted(k for k in vc if k not in VIEW_NOT_COMPARED and vc[k] != vs[k])


def _exporter(conn):
    try:
        return bytes(conn.keyingMaterialExporter(bytearray(b'EXPORTER-c04'), 20)).hex()
    except Exception as e:  # noqa
        return 'exc:' + type(e).__name__


def run_case(sc, ops, seed=1, want_trace=False):
    """One attacked handshake.  Returns a dict (picklable)."""
    rnd = loop.DetRandom(seed).install()
    clk = loop.FakeClock().install()
    try:
        cache = SessionCache() if sc.get('resume') == 'id' or sc.get('resume') else None
        session = None
        if sc.get('resume'):
            p0 = loop.Pair()
            sc0 = dict(sc, cs=sc['cs0']) if 'cs0' in sc else sc
            ckw, skw = _kwargs(sc0, cache)
            r0 = p0.handshake(ckw, skw, client_kind=sc['kind'])
            if r0[0][0] != 'ok' or r0[1][0] != 'ok':
                return {'error': 'setup handshake failed: %r' % (r0,)}
            # let the client read post-handshake tickets
            w, r, got = p0.transfer(p0.server, p0.client, b'x' * 10)
            session = p0.client.session
            p0.close_both()
        pair = loop.Pair()
        px = Proxy(ops)
        px.attach(pair)
        ckw, skw = _kwargs(sc, cache)
        if session is not None:
            ckw['session'] = session
        res = pair.handshake(ckw, skw, client_kind=sc['kind'], max_steps=60000)
        co, so = loop.classify(res[0]), loop.classify(res[1])
        out = {'c': co, 's': so, 'applied': [list(a) for a in px.applied]}
        both = co == ('ok',) and so == ('ok',)
        out['both'] = both
        if co == ('ok',):
            out['vc'] = view(pair.client, 'client')
        if so == ('ok',):
            out['vs'] = view(pair.server, 'server')
        if both:
            out['vc']['exporter_out'] = _exporter(pair.client)
            out['vs']['exporter_out'] = _exporter(pair.server)
            out['diff'] = diff_views(out['vc'], out['vs'])
            # the connection must also carry data both ways with the agreed keys
            w, r, got = pair.transfer(pair.client, pair.server, b'ping-c04')
            w2, r2, got2 = pair.transfer(pair.server, pair.client, b'pong-c04')
            out['data_ok'] = (got == b'ping-c04' and got2 == b'pong-c04')
        tr = trace_of(px)
        wf = wire_facts(px, tr)
        out['hs_same'] = wf[C2S]['same'] and wf[S2C]['same']
        out['cmsg'] = str(getattr(res[0][1], 'message', '') or '') if res[0][0] == 'exc' else None
        out['smsg'] = str(getattr(res[1][1], 'message', '') or '') if res[1][0] == 'exc' else None
        out['wire'] = {d: {'sent': [m.hex() for m in wf[d]['sent'][:4]], 'dlv': [m.hex() for m in wf[d]['dlv'][:4]],
                           'nsent': len(wf[d]['sent'])} for d in (C2S, S2C)}
        if want_trace:
            out['trace'] = tr
        return out
    finally:
        rnd.uninstall()
        clk.uninstall()


def plain_hs(log, tls13):
    """concatenated payload of the plaintext handshake records of one direction (None if unparsable)"""
    recs, rest = split_records(bytes(log))
    ccs = False
    out = b''
    for ty, ver, payload in recs:
        if ty == 22 and (tls13 or not ccs):
            out += payload
        if ty == 20:
            ccs = True
    return out, rest


def wire_facts(px, tr):
    """what the endpoints sent and what was delivered, per direction, as handshake message lists"""
    tls13 = tr['tls13']
    f = {}
    for d in (C2S, S2C):
        a, _ = plain_hs(px.log_in[d], tls13)
        b, rb = plain_hs(px.log_out[d], tls13)
        ma, _ = split_messages(a)
        mb, _ = split_messages(b)
        f[d] = {'sent': ma, 'dlv': mb, 'same': a == b}
    return f


def trace_of(px):
    """Record/message layout of both directions as sent by the endpoints."""
    tr = {}
    tls13 = px.tls13
    for ty, ver, payload in split_records(bytes(px.log_in[S2C]))[0][:1]:
        if ty == 22 and payload[:1] == b'\x02':
            m, _ = split_messages(payload)
            if m and sh_is_tls13(m[0]):
                tls13 = True
    for d in (C2S, S2C):
        recs, rest = split_records(bytes(px.log_in[d]))
        off = 0
        ccs = False
        lay = []
        hs = b''
        msgs = []
        for ty, ver, payload in recs:
            plain = ty == 22 and (tls13 or not ccs)
            if d == S2C and plain and not tls13 and payload[:1] == b'\x02':
                m, _ = split_messages(payload)
                if m and sh_is_tls13(m[0]):
                    tls13 = True
            if ty == 20:
                ccs = True
            lay.append({'off': off, 'len': 5 + len(payload), 'type': ty, 'plain': plain})
            if plain:
                mm, hs = split_messages(hs + payload)
                msgs += mm
            off += 5 + len(payload)
        tr[d] = {'records': lay, 'msgs': [m.hex() for m in msgs], 'total': off}
    tr['tls13'] = tls13
    return tr
